#!/usr/bin/env python3
"""Fail-closed translator: element-wise numeric kernels of inferno (Python) -> Gallina.

Every function is re-translated from /repo's *current* working tree on every run; the
theorems that mention a kernel are therefore re-checked against what the code says now.
Anything outside the supported subset raises TranslationError (the check then reports the
obligation as no longer shown and searches for a failing input).

Element-wise reading: a tensor parameter becomes one scalar `T N`; the model of a whole
tensor is `map` of the kernel.  `.unsqueeze(-1)`, `.to(device=...)` are identities per element.
"""
from __future__ import annotations
import ast, hashlib, json, os, re, sys
from fractions import Fraction

REPO = os.environ.get("INFERNO_REPO", "/repo")


class TranslationError(Exception):
    pass


# ------------------------------------------------------------------ configuration
# module name -> (source path, [functions], {function: {param: type}})
# types: T (real/tensor element), Z (int), B (bool), optT/optZ/optB, fun (T->T), funB (T->bool),
#        optfun, LT (list of T: the entries along the last axis)
MODULES = {
    "Interpolation": (
        "inferno/functional/interpolation.py",
        ["interp_previous", "interp_next", "interp_nearest", "interp_linear",
         "interp_expdecay", "interp_expratedecay"],
        {},
    ),
    "Extrapolation": (
        "inferno/functional/extrapolation.py",
        ["extrap_previous", "extrap_next", "extrap_neighbors", "extrap_nearest",
         "extrap_linear_forward", "extrap_linear_backward", "extrap_expdecay",
         "extrap_expratedecay"],
        {},
    ),
    "Infra": (
        "inferno/core/infrastructure.py",
        ["_unwind_ptr"],
        {"_unwind_ptr": {"offset": "Z"}},
    ),
    "Trace": (
        "inferno/core/trace.py",
        ["trace_nearest", "trace_cumulative", "trace_nearest_scaled",
         "trace_cumulative_scaled", "trace_cumulative_value"],
        {"trace_nearest_scaled": {"matchfn": "funB"},
         "trace_cumulative_scaled": {"matchfn": "funB"}},
    ),
    "Stdkernels": (
        "inferno/functional/stdkernels.py",
        ["exp_stdp_post_kernel", "exp_stdp_pre_kernel"],
        {},
    ),
    "NeuronDynamics": (
        "inferno/neural/functional/neuron_dynamics.py",
        ["voltage_thresholding_constant", "voltage_thresholding_linear",
         "voltage_integration_linear", "voltage_integration_quadratic",
         "voltage_integration_exponential"],
        {},
    ),
    "NeuronAdaptation": (
        "inferno/neural/functional/neuron_adaptation.py",
        ["adaptive_currents_linear", "adaptive_thresholds_linear_voltage",
         "adaptive_thresholds_linear_spike"],
        {"adaptive_currents_linear": {"spikes": "B"},
         "adaptive_thresholds_linear_voltage": {"spikes": "optB"},
         "adaptive_thresholds_linear_spike": {"spikes": "B"}},
    ),
    # the reductions over the adaptation axis K: `adaptations` is one neuron's vector of K values (list (T N)),
    # torch.sum(adaptations, dim=-1) is `tsum`
    "NeuronApply": (
        "inferno/neural/functional/neuron_adaptation.py",
        ["apply_adaptive_currents", "apply_adaptive_thresholds"],
        {"apply_adaptive_currents": {"adaptations": "LT"},
         "apply_adaptive_thresholds": {"adaptations": "LT"}},
    ),
    "Math": (
        "inferno/core/math.py",
        ["exponential_smoothing"],
        {},
    ),
    "Bounding": (
        "inferno/functional/bounding.py",
        ["bound_upper_power", "bound_lower_power", "bound_power",
         "bound_upper_scaled_power", "bound_lower_scaled_power", "bound_scaled_power",
         "bound_upper_multiplicative", "bound_lower_multiplicative", "bound_multiplicative",
         "bound_upper_scaled_multiplicative", "bound_lower_scaled_multiplicative",
         "bound_scaled_multiplicative",
         "bound_upper_sharp", "bound_lower_sharp", "bound_sharp"],
        # the scaled variants compute `max - min`: both limits are required (None raises TypeError)
        {"bound_scaled_power": {"max": "T", "min": "T"},
         "bound_scaled_multiplicative": {"max": "T", "min": "T"}},
    ),
    # classmethods of inferno.stats (listed callee-first); `cls` is dropped, `Class.method` is emitted as class_method.
    # Not translated: validate (constraint objects), sample / sample_mv (random number generators).
    "Distributions": (
        "inferno/stats/distributions.py",
        ["Poisson.logpmf", "Poisson.pmf", "Poisson.cdf", "Poisson.logcdf", "Poisson.mean", "Poisson.variance",
         "Normal.params_mv", "Normal.pdf", "Normal.logpdf", "Normal.cdf", "Normal.logcdf", "Normal.mean",
         "Normal.variance",
         "LogNormal.params_mv", "LogNormal.logpdf", "LogNormal.pdf", "LogNormal.cdf", "LogNormal.logcdf",
         "LogNormal.mean", "LogNormal.variance"],
        {},
    ),
}

# Mathematical constants and special functions that `Num` does not provide become leading PARAMETERS of the generated
# function (and of every generated function that calls it): theorems instantiate them with the real constant / state
# the special function's defining facts as hypotheses; the float instance passes binary64 implementations.
# There is ONE constant parameter, tau (= 2 pi): math.pi is emitted as tau / 2, so that exchanging the two constants in
# the source changes the generated term (two interchangeable parameters of the same type would not).  The proof files
# assert the NAMES of the special-function parameters (`Arguments f N erf ... : assert`), so exchanging e.g. erf and
# lgamma in the source stops them compiling.
EXTRA_ORDER = ["tau", "erf", "lgamma", "gammaincc"]
EXTRA_TYPE = {"tau": "T N", "erf": "T N -> T N", "lgamma": "T N -> T N",
              "gammaincc": "T N -> T N -> T N"}
EXTRA_CONST = {"math.tau": "tau", "math.pi": "tau"}
EXTRA_FUN = {"torch.special.erf": ("erf", 1), "torch.erf": ("erf", 1),
             "torch.lgamma": ("lgamma", 1), "torch.special.gammaln": ("lgamma", 1),
             "torch.special.gammaincc": ("gammaincc", 2)}
# identity per element: conversion of python numbers / tensors to tensors
COERCIONS = ("_astensorsfloat", "astensors")

COQ_TYPE = {
    "T": "T N", "Z": "Z", "B": "bool",
    "optT": "option (T N)", "optZ": "option Z", "optB": "option bool",
    "fun": "T N -> T N", "funB": "T N -> bool", "optfun": "option (T N -> T N)",
    "LT": "list (T N)",       # a vector along the LAST tensor axis (only consumer: torch.sum(x, dim=-1))
}

RESERVED = {"max": "max_", "min": "min_", "range": "range_", "exp": "exp_", "abs": "abs_",
            "pow": "pow_", "div": "div_", "add": "add_", "sub": "sub_", "mul": "mul_",
            "one": "one_", "zero": "zero_", "ln": "ln_", "sqrt": "sqrt_", "half": "half_",
            "T": "T_", "N": "N_", "in": "in_", "at": "at_", "end": "end_", "fix": "fix_",
            "fun": "fun_", "let": "let_", "match": "match_", "return": "return_",
            "with": "with_", "then": "then_", "else": "else_", "if": "if_", "opp": "opp_",
            "leb": "leb_", "ltb": "ltb_", "eqb": "eqb_", "type": "type_", "Type": "Type_"}


def cname(name: str) -> str:
    name = RESERVED.get(name, name)
    return name


def ann_type(node: ast.AST | None, has_none_default: bool) -> str:
    """Read a parameter annotation."""
    if node is None:
        raise TranslationError("parameter without annotation")
    s = ast.unparse(node)
    parts = [p.strip() for p in s.split("|")]
    opt = "None" in parts
    parts = [p for p in parts if p != "None"]
    if not parts:
        raise TranslationError(f"annotation {s!r}")
    if any(p.startswith("Callable") or p.startswith("OneToOne") for p in parts):
        base = "fun"
    elif all(p in ("torch.Tensor", "float", "int", "complex", "bool") for p in parts):
        if parts == ["int"]:
            base = "Z"
        elif parts == ["bool"]:
            base = "B"
        else:
            base = "T"
    else:
        raise TranslationError(f"unsupported annotation {s!r}")
    if opt:
        return {"T": "optT", "Z": "optZ", "B": "optB", "fun": "optfun"}[base]
    return base


class Fn:
    def __init__(self, node: ast.FunctionDef, overrides: dict[str, str], cls: str | None = None):
        self.node = node
        self.name = node.name
        self.cls = cls
        self.coqname = cname(node.name) if cls is None else cname(f"{cls.lower()}_{node.name}")
        self.extras: list[str] = []
        a = node.args
        if a.vararg is not None or a.posonlyargs:
            raise TranslationError(f"{node.name}: *args / positional-only not supported")
        if cls is not None:
            decs = [ast.unparse(d) for d in node.decorator_list]
            if decs != ["classmethod"] or not a.args or a.args[0].arg != "cls":
                raise TranslationError(f"{cls}.{node.name}: expected a @classmethod taking cls")
            a = ast.arguments(posonlyargs=[], args=a.args[1:], vararg=None, kwonlyargs=a.kwonlyargs,
                              kw_defaults=a.kw_defaults, kwarg=a.kwarg, defaults=a.defaults)
        self.pos: list[str] = [x.arg for x in a.args]
        self.kwonly: list[str] = [x.arg for x in a.kwonlyargs]
        self.types: dict[str, str] = {}
        self.defaults: dict[str, ast.AST] = {}
        ndef = len(a.defaults)
        for i, x in enumerate(a.args):
            d = a.defaults[i - (len(a.args) - ndef)] if i >= len(a.args) - ndef else None
            self._param(x, d, overrides)
        for x, d in zip(a.kwonlyargs, a.kw_defaults):
            self._param(x, d, overrides)
        self.has_kwargs = a.kwarg is not None
        self.ret: str | None = None
        self.uses_N = True

    def _param(self, x: ast.arg, d: ast.AST | None, overrides):
        none_default = isinstance(d, ast.Constant) and d.value is None
        if d is not None and not none_default:
            raise TranslationError(f"{self.name}: non-None default for {x.arg}")
        t = overrides.get(x.arg) or ann_type(x.annotation, none_default)
        self.types[x.arg] = t
        if d is not None:
            self.defaults[x.arg] = d

    @property
    def params(self) -> list[str]:
        return self.pos + self.kwonly


class Translator:
    def __init__(self, fns: dict[str, Fn]):
        self.fns = fns  # all known functions in this module (for sibling calls)
        self.extras: set[str] = set()   # constants / special functions used by the function being translated
        self.cls: str | None = None     # class of the classmethod being translated (resolves `cls.f(...)`)

    def extra(self, nm: str, env) -> str:
        if nm in env:
            raise TranslationError(f"parameter or local named {nm} clashes with the constant/special-function parameter")
        self.extras.add(nm)
        return nm

    # --------------------------------------------------------------- coercions
    def toT(self, e):
        txt, ty = e
        if ty == "T":
            return txt
        if ty == "B":
            return f"(b2t N {txt})"
        if ty == "Z":
            return f"(ofZ N {txt})"
        if ty == "lit":
            v = txt
            if v == 0:
                return "(zero N)"
            if v == 1:
                return "(one N)"
            if isinstance(v, int):
                return f"(ofZ N ({v})%Z)"
            fr = Fraction(v)
            if fr == Fraction(1, 2):
                return "(half N)"
            den = fr.denominator
            if den & (den - 1):
                raise TranslationError(f"non-dyadic float literal {v}")
            return f"(div N (ofZ N ({fr.numerator})%Z) (ofZ N ({den})%Z))"
        raise TranslationError(f"cannot use {ty} as a number: {txt}")

    def toZ(self, e):
        txt, ty = e
        if ty == "Z":
            return txt
        if ty == "lit" and isinstance(txt, int):
            return f"({txt})%Z"
        if ty == "B":
            return f"(Z.b2z {txt})"
        raise TranslationError(f"cannot use {ty} as an integer: {txt}")

    def toB(self, e):
        txt, ty = e
        if ty == "B":
            return txt
        raise TranslationError(f"cannot use {ty} as a boolean: {txt}")

    def coerce(self, e, ty):
        if ty == "T":
            return self.toT(e)
        if ty == "Z":
            return self.toZ(e)
        if ty == "B":
            return self.toB(e)
        if ty in ("fun", "funB", "LT") and e[1] == ty:
            return e[0]
        if ty.startswith("opt"):
            if e[1] == ty:
                return e[0]
            if e[1] == "none":
                return "None"
            inner = {"optT": "T", "optZ": "Z", "optB": "B", "optfun": "fun"}[ty]
            return f"(Some {self.coerce(e, inner)})"
        raise TranslationError(f"cannot coerce {e[1]} to {ty}")

    # --------------------------------------------------------------- expressions
    def expr(self, n: ast.AST, env: dict[str, str]):
        if isinstance(n, ast.Constant):
            if n.value is None:
                return ("None", "none")
            if isinstance(n.value, bool):
                return ("true" if n.value else "false", "B")
            if isinstance(n.value, (int, float)):
                return (n.value, "lit")
            raise TranslationError(f"constant {n.value!r}")
        if isinstance(n, ast.Name):
            if n.id not in env:
                raise TranslationError(f"unknown name {n.id}")
            return (cname(n.id), env[n.id])
        if isinstance(n, ast.Attribute) and ast.unparse(n) in EXTRA_CONST:
            c = self.extra(EXTRA_CONST[ast.unparse(n)], env)
            return (c if ast.unparse(n) == "math.tau" else f"(div N {c} (ofZ N (2)%Z))", "T")
        if isinstance(n, ast.Attribute) and ast.unparse(n) == "math.e":
            return ("(exp N (one N))", "T")
        if isinstance(n, ast.Tuple):
            parts = [self.expr(x, env) for x in n.elts]
            tys = tuple(p[1] for p in parts)
            txt = "(" + ", ".join(self.toT(p) if p[1] in ("lit", "Z") else p[0] for p in parts) + ")"
            return (txt, ("tuple",) + tuple("T" if t in ("lit", "Z") else t for t in tys))
        if isinstance(n, ast.UnaryOp):
            v = self.expr(n.operand, env)
            if isinstance(n.op, ast.USub):
                if v[1] == "lit":
                    return (-v[0], "lit")
                if v[1] == "Z":
                    return (f"(Z.opp {v[0]})", "Z")
                return (f"(opp N {self.toT(v)})", "T")
            if isinstance(n.op, (ast.Invert, ast.Not)):
                return (f"(negb {self.toB(v)})", "B")
            raise TranslationError("unary op")
        if isinstance(n, ast.BinOp):
            a, b = self.expr(n.left, env), self.expr(n.right, env)
            intlike = lambda e: e[1] == "Z" or (e[1] == "lit" and isinstance(e[0], int)) or e[1] == "B"
            if isinstance(n.op, ast.Mod):
                if a[1] in ("Z",) or b[1] in ("Z",):
                    return (f"(Z.modulo {self.toZ(a)} {self.toZ(b)})", "Z")
                raise TranslationError("% on non-integers")
            if isinstance(n.op, ast.Pow):
                if b[1] == "lit" and isinstance(b[0], int) and not isinstance(b[0], bool) and 0 <= b[0] <= 8:
                    # x ** k with a literal natural k: repeated multiplication (any sign of the base)
                    return (f"(pown N {self.toT(a)} {b[0]}%nat)", "T")
                return (f"(pow N {self.toT(a)} {self.toT(b)})", "T")
            ops = {ast.Add: ("add", "Z.add"), ast.Sub: ("sub", "Z.sub"), ast.Mult: ("mul", "Z.mul"),
                   ast.Div: ("div", None)}
            for k, (tn, zn) in ops.items():
                if isinstance(n.op, k):
                    if zn and intlike(a) and intlike(b) and (a[1] == "Z" or b[1] == "Z"):
                        return (f"({zn} {self.toZ(a)} {self.toZ(b)})", "Z")
                    return (f"({tn} N {self.toT(a)} {self.toT(b)})", "T")
            raise TranslationError(f"binary op {type(n.op).__name__}")
        if isinstance(n, ast.BoolOp):
            vals = [self.toB(self.expr(v, env)) for v in n.values]
            op = "andb" if isinstance(n.op, ast.And) else "orb"
            out = vals[0]
            for v in vals[1:]:
                out = f"({op} {out} {v})"
            return (out, "B")
        if isinstance(n, ast.Compare):
            if len(n.ops) != 1:
                raise TranslationError("chained comparison")
            a, b = self.expr(n.left, env), self.expr(n.comparators[0], env)
            op = n.ops[0]
            if a[1] == "B" and b[1] == "lit" and b[0] in (0, 1) and isinstance(op, (ast.Eq, ast.NotEq)):
                pos = (b[0] == 1) == isinstance(op, ast.Eq)
                return (a[0] if pos else f"(negb {a[0]})", "B")
            if a[1] == "Z" or b[1] == "Z":
                z = {ast.Eq: "Z.eqb", ast.LtE: "Z.leb", ast.Lt: "Z.ltb", ast.GtE: "Z.geb", ast.Gt: "Z.gtb"}
                for k, v in z.items():
                    if isinstance(op, k):
                        return (f"({v} {self.toZ(a)} {self.toZ(b)})", "B")
                if isinstance(op, ast.NotEq):
                    return (f"(negb (Z.eqb {self.toZ(a)} {self.toZ(b)}))", "B")
                raise TranslationError("comparison")
            t = {ast.Eq: "eqb N", ast.LtE: "leb N", ast.Lt: "ltb N", ast.GtE: "geb N", ast.Gt: "gtb N",
                 ast.NotEq: "neb N"}
            for k, v in t.items():
                if isinstance(op, k):
                    return (f"({v} {self.toT(a)} {self.toT(b)})", "B")
            raise TranslationError("comparison")
        if isinstance(n, ast.IfExp):
            return self.ifexp(n.test, lambda e: self.expr(n.body, e), lambda e: self.expr(n.orelse, e), env)
        if isinstance(n, ast.Call):
            return self.call(n, env)
        raise TranslationError(f"unsupported expression {type(n).__name__}: {ast.unparse(n)}")

    def unify(self, a, b):
        """common type of two branches"""
        ta, tb = a[1], b[1]
        if ta == tb and ta != "lit":
            return ta
        if isinstance(ta, tuple) or isinstance(tb, tuple):
            if ta == tb:
                return ta
            raise TranslationError("tuple branches of different type")
        s = {ta, tb}
        if "none" in s and len(s) == 2:      # `x if c else None`: an optional value
            other = (s - {"none"}).pop()
            if other in ("T", "Z", "B"):
                return "opt" + other
            if other in ("optT", "optZ", "optB"):
                return other
            raise TranslationError(f"cannot unify {ta} and {tb}")
        if "T" in s or s == {"lit"} or s == {"lit", "B"}:
            return "T"
        if s <= {"Z", "lit"}:
            return "Z"
        raise TranslationError(f"cannot unify {ta} and {tb}")

    def ifexp(self, test, fa, fb, env):
        """if-expression with option tests turned into matches"""
        kind, names = self.cond_kind(test, env)
        if kind == "const":   # `x is [not] None` for a parameter this model declares as always given
            return fa(env) if names else fb(env)
        if kind == "bool":
            c = self.toB(self.expr(test, env))
            a, b = fa(env), fb(env)
            ty = self.unify(a, b)
            return (f"(if {c} then {self.coerce(a, ty)} else {self.coerce(b, ty)})", ty)
        # option tests: all of `names` are Some (kind == 'some') / the single name is None ('none')
        env_some = dict(env)
        for nm in names:
            env_some[nm] = {"optT": "T", "optZ": "Z", "optB": "B", "optfun": "fun"}[env[nm]]
        if kind == "some":
            a, b = fa(env_some), fb(env)
        else:
            a, b = fa(env), fb(env_some)
        ty = self.unify(a, b)
        some_txt, none_txt = (a, b) if kind == "some" else (b, a)
        some_c, none_c = self.coerce(some_txt, ty), self.coerce(none_txt, ty)
        out = some_c
        for nm in reversed(names):
            out = f"(match {cname(nm)} with Some {cname(nm)} => {out} | None => {none_c} end)"
        return (out, ty)

    def cond_kind(self, test, env):
        def isopt(x):
            return isinstance(x, ast.Name) and env.get(x.id, "").startswith("opt")
        if isinstance(test, ast.Compare) and len(test.ops) == 1 and isinstance(test.comparators[0], ast.Constant) \
                and test.comparators[0].value is None and isopt(test.left):
            if isinstance(test.ops[0], ast.IsNot):
                return "some", [test.left.id]
            if isinstance(test.ops[0], ast.Is):
                return "none", [test.left.id]
        if isinstance(test, ast.Compare) and len(test.ops) == 1 and isinstance(test.comparators[0], ast.Constant) \
                and test.comparators[0].value is None and isinstance(test.left, ast.Name) \
                and env.get(test.left.id) in ("T", "Z", "B", "fun", "funB"):
            if isinstance(test.ops[0], ast.IsNot):
                return "const", True
            if isinstance(test.ops[0], ast.Is):
                return "const", False
        if isopt(test):  # truthiness of an optional callable
            return "some", [test.id]
        if isinstance(test, ast.BoolOp) and isinstance(test.op, ast.And):
            names = []
            for v in test.values:
                k, nm = self.cond_kind(v, env)
                if k != "some":
                    break
                names += nm
            else:
                return "some", names
        return "bool", []

    def call(self, n: ast.Call, env):
        f = ast.unparse(n.func)
        args = n.args
        kws = {k.arg: k.value for k in n.keywords}
        if None in kws:
            kws.pop(None)  # **kwargs forwarded: ignored (callee ignores unknown keywords)
        E = lambda x: self.expr(x, env)
        if f == "torch.where" and len(args) == 3:
            return self.ifexp(args[0], lambda e: self.expr(args[1], e), lambda e: self.expr(args[2], e), env)
        # special functions that Num does not provide: passed in as parameters
        if f in EXTRA_FUN and len(args) == EXTRA_FUN[f][1] and not kws:
            nm = self.extra(EXTRA_FUN[f][0], env)
            return ("(" + nm + " " + " ".join(self.toT(E(a)) for a in args) + ")", "T")
        if f == "torch.special.xlogy" and len(args) == 2 and not kws:
            # xlogy(x, y) = 0 where x = 0, x * log y elsewhere
            if "xlogy_x" in env:
                raise TranslationError("name clash xlogy_x")
            return (f"(let xlogy_x := {self.toT(E(args[0]))} in (if (eqb N xlogy_x (zero N)) then (zero N) "
                    f"else (mul N xlogy_x (ln N {self.toT(E(args[1]))}))))", "T")
        if f in ("torch.special.expm1", "torch.expm1") and len(args) == 1 and not kws:
            return (f"(sub N (exp N {self.toT(E(args[0]))}) (one N))", "T")
        # tensor conversion of one value: identity per element
        if f in COERCIONS and len(args) == 1 and set(kws) <= {"conversion"}:
            return E(args[0])
        # classmethod of a translated class: cls.f(...) / Class.f(...)
        if isinstance(n.func, ast.Attribute) and isinstance(n.func.value, ast.Name):
            owner = self.cls if n.func.value.id == "cls" else n.func.value.id
            if owner is not None and f"{owner}.{n.func.attr}" in self.fns:
                return self.sibling(self.fns[f"{owner}.{n.func.attr}"], n, args, kws, E)
        if isinstance(n.func, ast.Attribute):
            meth, obj = n.func.attr, n.func.value
            objs = ast.unparse(obj)
            if objs not in ("torch", "math"):
                if meth == "where" and len(args) == 2:
                    return self.ifexp(args[0], lambda e: self.expr(obj, e), lambda e: self.expr(args[1], e), env)
                if meth == "abs" and not args:
                    return (f"(abs N {self.toT(E(obj))})", "T")
                if meth == "clamp" and not args and set(kws) == {"min"}:
                    return (f"(tmax N {self.toT(E(obj))} {self.toT(E(kws['min']))})", "T")
                if meth == "clamp" and not args and set(kws) == {"min", "max"}:      # min(max(x, lo), hi)
                    return (f"(tmin N (tmax N {self.toT(E(obj))} {self.toT(E(kws['min']))}) {self.toT(E(kws['max']))})", "T")
                if meth == "bool" and not args and not kws:                          # tensor.bool(): x != 0
                    v = E(obj)
                    return v if v[1] == "B" else (f"(neb N {self.toT(v)} (zero N))", "B")
                if meth == "clamp_min" and len(args) == 1:
                    return (f"(tmax N {self.toT(E(obj))} {self.toT(E(args[0]))})", "T")
                if meth == "clamp_max" and len(args) == 1:
                    return (f"(tmin N {self.toT(E(obj))} {self.toT(E(args[0]))})", "T")
                if meth == "unsqueeze" and len(args) == 1 and ast.unparse(args[0]) == "-1":
                    return E(obj)
                if meth == "to" and not args and set(kws) <= {"dtype", "device"}:
                    v = E(obj)
                    if v[1] == "B" and "dtype" in kws:
                        return (self.toT(v), "T")
                    return v
                raise TranslationError(f"unsupported method call {ast.unparse(n)}")
        if f == "torch.sum" and len(args) == 1 and set(kws) == {"dim"} and ast.unparse(kws["dim"]) == "-1":
            v = E(args[0])
            if v[1] != "LT":
                raise TranslationError(f"torch.sum(..., dim=-1) of a value that is not a last-axis vector: {ast.unparse(n)}")
            return (f"(tsum N {v[0]})", "T")
        if f in ("torch.exp", "exp", "math.exp") and len(args) == 1:
            return (f"(exp N {self.toT(E(args[0]))})", "T")
        if f in ("torch.abs", "abs") and len(args) == 1:
            return (f"(abs N {self.toT(E(args[0]))})", "T")
        if f in ("torch.log", "math.log") and len(args) == 1 and not kws:
            return (f"(ln N {self.toT(E(args[0]))})", "T")
        if f in ("torch.sqrt", "math.sqrt") and len(args) == 1 and not kws:
            return (f"(sqrt N {self.toT(E(args[0]))})", "T")
        if f == "torch.floor" and len(args) == 1 and not kws:
            return (f"(ofZ N (floorZ N {self.toT(E(args[0]))}))", "T")
        if f == "torch.logical_and" and len(args) == 2:
            return (f"(andb {self.toB(E(args[0]))} {self.toB(E(args[1]))})", "B")
        if f == "torch.heaviside" and len(args) == 2:
            return (f"(heaviside N {self.toT(E(args[0]))} {self.toT(E(args[1]))})", "T")
        if f == "zeros" and len(args) == 1 and ast.unparse(kws.get("shape", ast.Constant(0))) == "()":
            return ("(zero N)", "T")
        if f == "math.ceil" and len(args) == 1:
            return (f"(ceilZ N {self.toT(E(args[0]))})", "Z")
        if f == "math.floor" and len(args) == 1:
            return (f"(floorZ N {self.toT(E(args[0]))})", "Z")
        if f == "max" and len(args) == 2:
            a, b = E(args[0]), E(args[1])
            if a[1] == "Z" or b[1] == "Z":
                return (f"(Z.max {self.toZ(a)} {self.toZ(b)})", "Z")
            return (f"(tmax N {self.toT(a)} {self.toT(b)})", "T")
        if f == "min" and len(args) == 2 and not kws:
            a, b = E(args[0]), E(args[1])
            if a[1] == "Z" or b[1] == "Z":
                return (f"(Z.min {self.toZ(a)} {self.toZ(b)})", "Z")
            return (f"(tmin N {self.toT(a)} {self.toT(b)})", "T")
        if f == "int" and len(args) == 1:
            a = E(args[0])
            if a[1] in ("Z", "B") or (a[1] == "lit" and isinstance(a[0], int)):
                return (self.toZ(a), "Z")
            return (f"(truncZ N {self.toT(a)})", "Z")
        if f == "bool" and len(args) == 1:
            return (self.toB(E(args[0])), "B")
        # function-valued parameter
        if isinstance(n.func, ast.Name) and env.get(n.func.id) in ("fun", "funB") and len(args) == 1 and not kws:
            rt = "T" if env[n.func.id] == "fun" else "B"
            return (f"({cname(n.func.id)} {self.toT(E(args[0]))})", rt)
        # sibling kernel
        if isinstance(n.func, ast.Name) and n.func.id in self.fns:
            return self.sibling(self.fns[n.func.id], n, args, kws, E)
        raise TranslationError(f"unsupported call {ast.unparse(n)}")

    def sibling(self, g: Fn, n: ast.Call, args, kws, E):
        if len(args) > len(g.pos):
            raise TranslationError(
                f"call {ast.unparse(n)} passes {len(args)} positional arguments but {g.name} accepts "
                f"{len(g.pos)} (the rest are keyword-only): TypeError at run time")
        bound = {}
        for p, a in zip(g.pos, args):
            bound[p] = a
        for k, v in kws.items():
            if k in bound:
                raise TranslationError(f"duplicate argument {k}")
            if k in g.params:
                bound[k] = v
            elif not g.has_kwargs:
                raise TranslationError(f"unexpected keyword {k} for {g.name}")
        parts = []
        for p in g.params:
            if p in bound:
                parts.append(self.coerce(E(bound[p]), g.types[p]))
            elif p in g.defaults:
                parts.append("None")
            else:
                raise TranslationError(f"missing argument {p} in call {ast.unparse(n)}")
        if g.ret is None:
            raise TranslationError(f"{g.name} used before its definition")
        for x in g.extras:
            self.extras.add(x)
        return (f"({g.coqname} " + ("N " if g.uses_N else "") + "".join(x + " " for x in g.extras)
                + " ".join(parts) + ")", g.ret)

    # --------------------------------------------------------------- statements
    def block(self, stmts: list[ast.stmt], env: dict[str, str]):
        """translate a statement list that ends in a return (on every path)"""
        if not stmts:
            raise TranslationError("missing return")
        s, rest = stmts[0], stmts[1:]
        if isinstance(s, ast.Expr) and isinstance(s.value, ast.Constant) and isinstance(s.value.value, str):
            return self.block(rest, env)
        if isinstance(s, ast.Return):
            if s.value is None:
                raise TranslationError("bare return")
            return self.expr(s.value, env)
        if isinstance(s, ast.Assign) and len(s.targets) == 1 and isinstance(s.targets[0], ast.Tuple) \
                and isinstance(s.value, ast.Call) and ast.unparse(s.value.func) in COERCIONS:
            # `a, b = _astensorsfloat(a, b)`: conversion to tensors, identity per element
            tg, call = s.targets[0].elts, s.value
            if {k.arg for k in call.keywords} - {"conversion"} or len(tg) != len(call.args) \
                    or not all(isinstance(t, ast.Name) for t in tg) or not all(isinstance(a, ast.Name) for a in call.args):
                raise TranslationError(f"unsupported tensor conversion {ast.unparse(s)}")
            srcs = [a.id for a in call.args]
            env2, lets = dict(env), []
            for t, a in zip(tg, srcs):
                if a not in env:
                    raise TranslationError(f"unknown name {a}")
                if t.id != a:
                    if t.id in srcs:
                        raise TranslationError(f"permuting tensor conversion {ast.unparse(s)}")
                    lets.append((t.id, a))
                env2[t.id] = env[a]
            body = self.block(rest, env2)
            txt = body[0]
            for t, a in reversed(lets):
                txt = f"(let {cname(t)} := {cname(a)} in\n  {txt})"
            return (txt, body[1])
        if isinstance(s, ast.Assign) and len(s.targets) == 1 and isinstance(s.targets[0], ast.Tuple) \
                and all(isinstance(t, ast.Name) for t in s.targets[0].elts):
            # `a, b, c = f(...)`: destructuring of a tuple-valued kernel
            v = self.expr(s.value, env)
            names = [t.id for t in s.targets[0].elts]
            if not isinstance(v[1], tuple) or len(v[1]) - 1 != len(names) or len(set(names)) != len(names):
                raise TranslationError(f"tuple assignment of a non-tuple / wrong arity: {ast.unparse(s)[:80]}")
            env2 = dict(env)
            for nm, t in zip(names, v[1][1:]):
                env2[nm] = t
            body = self.block(rest, env2)
            return (f"(let '({', '.join(cname(nm) for nm in names)}) := {v[0]} in\n  {body[0]})", body[1])
        if isinstance(s, ast.Assign):
            if len(s.targets) != 1 or not isinstance(s.targets[0], ast.Name):
                raise TranslationError("assignment target")
            v = self.expr(s.value, env)
            nm = s.targets[0].id
            ty = v[1]
            if ty == "lit":
                ty = "T"
            txt = self.coerce(v, ty) if ty in ("T", "Z", "B") else v[0]
            env2 = dict(env)
            env2[nm] = ty
            body = self.block(rest, env2)
            return (f"(let {cname(nm)} := {txt} in\n  {body[0]})", body[1])
        if isinstance(s, ast.If):
            def returns(b):
                return bool(b) and (isinstance(b[-1], ast.Return) or
                                    (isinstance(b[-1], ast.If) and returns(b[-1].body) and returns(b[-1].orelse)))
            if returns(s.body) and (returns(s.orelse) or not s.orelse):
                other = s.orelse if s.orelse else rest
                if s.orelse and rest:
                    raise TranslationError("dead code after if/else returning on both paths")
                return self.ifexp(s.test, lambda e: self.block(s.body, e), lambda e: self.block(other, e), env)
            # assignment-only if: thread the assigned variables
            assigned = []
            for b in (s.body, s.orelse):
                for st in b:
                    if not (isinstance(st, ast.Assign) and len(st.targets) == 1 and isinstance(st.targets[0], ast.Name)):
                        raise TranslationError("only simple assignments allowed in a non-returning if")
                    if st.targets[0].id not in assigned:
                        assigned.append(st.targets[0].id)

            def branch(b):
                def go(e):
                    e = dict(e)
                    lets = []
                    for st in b:
                        v = self.expr(st.value, e)
                        ty = "T" if v[1] == "lit" else v[1]
                        lets.append((st.targets[0].id, self.coerce(v, ty) if ty in ("T", "Z", "B") else v[0]))
                        e[st.targets[0].id] = ty
                    for nm in assigned:
                        if nm not in e:
                            raise TranslationError(f"{nm} assigned on one path only and not defined before")
                    tys = [e[nm] for nm in assigned]
                    tup = ", ".join(cname(nm) for nm in assigned)
                    if len(assigned) > 1:
                        tup = f"({tup})"
                    txt = tup
                    for nm, t in reversed(lets):
                        txt = f"(let {cname(nm)} := {t} in {txt})"
                    return (txt, tys[0] if len(assigned) == 1 else ("tuple",) + tuple(tys))
                return go
            v = self.ifexp(s.test, branch(s.body), branch(s.orelse), env)
            env2 = dict(env)
            if len(assigned) == 1:
                env2[assigned[0]] = v[1]
                pat = cname(assigned[0])
            else:
                for nm, t in zip(assigned, v[1][1:]):
                    env2[nm] = t
                pat = "'(" + ", ".join(cname(nm) for nm in assigned) + ")"
            body = self.block(rest, env2)
            return (f"(let {pat} := {v[0]} in\n  {body[0]})", body[1])
        raise TranslationError(f"unsupported statement {type(s).__name__}: {ast.unparse(s)[:80]}")


def coq_ret_type(t) -> str:
    if isinstance(t, tuple):
        return " * ".join(coq_ret_type(x) for x in t[1:])
    return COQ_TYPE[t]


def translate_module(modname: str, repo: str = REPO, fns_out: dict | None = None):
    path, names, overrides = MODULES[modname]
    src = open(os.path.join(repo, path)).read()
    tree = ast.parse(src)
    found = {n.name: n for n in tree.body if isinstance(n, ast.FunctionDef)}
    for c in tree.body:
        if isinstance(c, ast.ClassDef):
            for n in c.body:
                if isinstance(n, ast.FunctionDef):
                    found[f"{c.name}.{n.name}"] = n
    fns: dict[str, Fn] = {}
    out = [f"(* GENERATED by tools/translate.py from {path} -- do not edit *)",
           "From Coq Require Import ZArith Bool.",
           "From Inferno Require Import Base.Num.", ""]
    manifest = []
    tr = Translator(fns)
    for nm in names:
        if nm not in found:
            raise TranslationError(f"{path}: function {nm} not found")
        cls = nm.split(".")[0] if "." in nm else None
        fn = Fn(found[nm], overrides.get(nm, {}), cls)
        fns[nm] = fn
        env = dict(fn.types)
        tr.extras, tr.cls = set(), cls
        body = tr.block(fn.node.body, env)
        fn.ret = body[1] if body[1] != "lit" else "T"
        btxt = body[0] if body[1] != "lit" else tr.toT(body)
        if fn.ret == "Z" and body[1] == "Z":
            pass
        fn.extras = [x for x in EXTRA_ORDER if x in tr.extras]
        local = {t.id for st in ast.walk(fn.node) if isinstance(st, ast.Assign) for tg in st.targets
                 for t in ast.walk(tg) if isinstance(t, ast.Name)}
        for x in fn.extras:
            if x in fn.params or x in local:
                raise TranslationError(f"{nm}: name {x} clashes with the constant/special-function parameter")
        params = " ".join([f"({x} : {EXTRA_TYPE[x]})" for x in fn.extras]
                          + [f"({cname(p)} : {COQ_TYPE[fn.types[p]]})" for p in fn.params])
        sig = params + " : " + coq_ret_type(fn.ret)
        fn.uses_N = " N" in sig or " N" in btxt
        nparam = "(N : Num) " if fn.uses_N else ""
        out.append(f"Definition {fn.coqname} {nparam}{sig} :=\n  {btxt}.\n")
        node = found[nm]
        manifest.append({
            "module": modname, "source": path, "function": nm,
            "lines": [node.lineno, node.end_lineno],
            "sha256": hashlib.sha256(ast.dump(node).encode()).hexdigest(),
        })
    if fns_out is not None:
        fns_out.update(fns)
    return "\n".join(out), manifest


# ------------------------------------------------------------------ special: record size expression
def translate_recordsz(repo: str = REPO):
    """The three occurrences of the record-size expression in RecordTensor (constructor, dt setter,
    duration setter) must normalise to the same term; it is emitted once."""
    path = "inferno/core/infrastructure.py"
    tree = ast.parse(open(os.path.join(repo, path)).read())
    cls = [n for n in tree.body if isinstance(n, ast.ClassDef) and n.name == "RecordTensor"]
    if not cls:
        raise TranslationError("RecordTensor not found")
    occ = []
    for fn in ast.walk(cls[0]):
        if isinstance(fn, ast.FunctionDef) and fn.name in ("__init__", "dt", "duration"):
            for st in ast.walk(fn):
                if isinstance(st, ast.Assign) and len(st.targets) == 1 and isinstance(st.targets[0], ast.Name) \
                        and st.targets[0].id == "size":
                    occ.append((fn.name, st))
    if len(occ) != 3:
        raise TranslationError(f"expected 3 assignments to `size` in RecordTensor, found {len(occ)}")
    ren = {"self.__duration": "duration", "self.__dt": "step_time", "self.__inclusive": "inclusive"}

    class R(ast.NodeTransformer):
        def visit_Attribute(self, n):
            s = ast.unparse(n)
            if s in ren:
                return ast.Name(id=ren[s], ctx=ast.Load())
            return self.generic_visit(n)

        def visit_Call(self, n):
            n = self.generic_visit(n)
            if isinstance(n.func, ast.Name) and n.func.id == "bool" and len(n.args) == 1 \
                    and isinstance(n.args[0], ast.Name) and n.args[0].id == "inclusive":
                return n.args[0]
            return n
    norm = []
    for name, st in occ:
        e = R().visit(ast.parse(ast.unparse(st.value)).body[0].value)
        norm.append(ast.unparse(e))
    if len(set(norm)) != 1:
        raise TranslationError(f"record-size expressions differ: {norm}")
    e = ast.parse(norm[0]).body[0].value
    tr = Translator({})
    v = tr.expr(e, {"duration": "T", "step_time": "T", "inclusive": "B"})
    if v[1] != "Z":
        raise TranslationError("record-size expression is not an integer")
    txt = ("Definition recordsz_expr (N : Num) (duration : T N) (step_time : T N) (inclusive : bool) : Z :=\n"
           f"  {v[0]}.\n")
    man = {"module": "Infra", "source": path, "function": "RecordTensor.<size expression x3>",
           "lines": [occ[0][1].lineno, occ[-1][1].lineno],
           "sha256": hashlib.sha256(norm[0].encode()).hexdigest()}
    return txt, man


def translate_conv_outsize(repo: str = REPO):
    """Conv2D.__init__: the output height/width expression (a generator over the two spatial axes)."""
    path = "inferno/neural/connections/conv.py"
    tree = ast.parse(open(os.path.join(repo, path)).read())
    cls = [n for n in tree.body if isinstance(n, ast.ClassDef) and n.name == "Conv2D"]
    if not cls:
        raise TranslationError("Conv2D not found")
    init = [n for n in cls[0].body if isinstance(n, ast.FunctionDef) and n.name == "__init__"][0]
    found = []
    for st in ast.walk(init):
        if isinstance(st, ast.Assign) and ast.unparse(st.targets[0]) == "(self.outheight, self.outwidth)":
            found.append(st)
    if len(found) != 1 or not isinstance(found[0].value, ast.GeneratorExp):
        raise TranslationError("Conv2D output-size assignment not found / not a generator expression")
    gen = found[0].value
    if len(gen.generators) != 1 or ast.unparse(gen.generators[0].iter) != "enumerate((self.height, self.width))" \
            or ast.unparse(gen.generators[0].target) != "(d, size)":
        raise TranslationError("Conv2D output-size generator has an unexpected shape")
    ren = {"self.padding[d]": "padding", "self.dilation[d]": "dilation", "self.kernel[d]": "kernel", "self.stride[d]": "stride"}

    class R(ast.NodeTransformer):
        def visit_Subscript(self, n):
            s_ = ast.unparse(n)
            if s_ in ren:
                return ast.Name(id=ren[s_], ctx=ast.Load())
            return self.generic_visit(n)
    e = R().visit(ast.parse(ast.unparse(gen.elt)).body[0].value)
    tr = Translator({})
    v = tr.expr(e, {"size": "Z", "padding": "Z", "dilation": "Z", "kernel": "Z", "stride": "Z"})
    if v[1] != "Z":
        raise TranslationError("Conv2D output-size expression is not an integer")
    txt = ("Definition conv_outsize (N : Num) (size : Z) (padding : Z) (dilation : Z) (kernel : Z) (stride : Z) : Z :=\n"
           f"  {v[0]}.\n")
    man = {"module": "Conv", "source": path, "function": "Conv2D.__init__.<output size expression>",
           "lines": [found[0].lineno, found[0].end_lineno], "sha256": hashlib.sha256(ast.unparse(e).encode()).hexdigest()}
    return txt, man


def translate_spikemath(repo: str = REPO):
    """inferno/core/math.py: the element-wise expressions inside the sequence code of `isi` and of the
    Victor-Purpura dynamic programme (the loops / splits themselves are outside the subset and stay hand-modelled):
      isi:   the spike-time expression `(nz - 1) * step_time` passed to tensor_split;
      victor_purpura_pair_dist: the body of the two nested loops - the three candidate costs and their minimum."""
    path = "inferno/core/math.py"
    tree = ast.parse(open(os.path.join(repo, path)).read())
    fdefs = {n.name: n for n in tree.body if isinstance(n, ast.FunctionDef)}
    for nm in ("isi", "victor_purpura_pair_dist"):
        if nm not in fdefs:
            raise TranslationError(f"{path}: function {nm} not found")
    # ---- isi
    occ = [st for st in ast.walk(fdefs["isi"]) if isinstance(st, ast.Assign) and isinstance(st.value, ast.Call)
           and ast.unparse(st.value.func) == "torch.tensor_split"]
    if len(occ) != 1 or len(occ[0].value.args) != 2 or ast.unparse(occ[0].value.args[1]) != "splits":
        raise TranslationError("isi: expected exactly one torch.tensor_split(<times>, splits, ...)")
    tr = Translator({})
    v = tr.expr(occ[0].value.args[0], {"nz": "Z", "step_time": "T"})
    if v[1] != "T" or tr.extras:
        raise TranslationError("isi: spike-time expression is not a number")
    txt = ("(* isi: the value handed to tensor_split, per nonzero index nz of the left-padded raster *)\n"
           "Definition isi_spike_time (N : Num) (nz : Z) (step_time : T N) : T N :=\n"
           f"  {v[0]}.\n\n")
    man = [{"module": "SpikeMath", "source": path, "function": "isi.<spike time expression>",
            "lines": [occ[0].lineno, occ[0].end_lineno],
            "sha256": hashlib.sha256(ast.dump(occ[0].value.args[0]).encode()).hexdigest()}]
    # ---- Victor-Purpura: for r in range(1, t0.numel() + 1): for c in range(1, t1.numel() + 1): <4 statements>
    vp = fdefs["victor_purpura_pair_dist"]
    outer = [st for st in vp.body if isinstance(st, ast.For)]
    if len(outer) != 1 or ast.unparse(outer[0].target) != "r" \
            or ast.unparse(outer[0].iter) != "range(1, t0.numel() + 1)" or len(outer[0].body) != 1 \
            or not isinstance(outer[0].body[0], ast.For) or outer[0].orelse:
        raise TranslationError("victor_purpura_pair_dist: outer loop has an unexpected shape")
    inner = outer[0].body[0]
    if ast.unparse(inner.target) != "c" or ast.unparse(inner.iter) != "range(1, t1.numel() + 1)" or inner.orelse:
        raise TranslationError("victor_purpura_pair_dist: inner loop has an unexpected shape")
    body = inner.body
    if len(body) < 2 or not all(isinstance(st, ast.Assign) and len(st.targets) == 1 for st in body) \
            or not all(isinstance(st.targets[0], ast.Name) for st in body[:-1]) \
            or ast.unparse(body[-1].targets[0]) != "grid[:, r, c]":
        raise TranslationError("victor_purpura_pair_dist: loop body has an unexpected shape")
    ren = {"grid[:, r - 1, c]": "up", "grid[:, r, c - 1]": "lft", "grid[:, r - 1, c - 1]": "diag",
           "t0[r - 1]": "x", "t1[c - 1]": "y"}

    class R(ast.NodeTransformer):
        def visit_Subscript(self, n):
            s_ = ast.unparse(n)
            if s_ in ren:
                return ast.Name(id=ren[s_], ctx=ast.Load())
            return self.generic_visit(n)

    def red(e):
        return R().visit(ast.parse(ast.unparse(e)).body[0].value)
    # the stored value: torch.stack((a, b, ...), 0).nan_to_num(nan=float('inf')).amin(0)  ->  min(min(a, b), ...)
    # (nan arises only as inf * 0 when cost = inf; for a finite cost nan_to_num is the identity)
    fin = body[-1].value
    ok = (isinstance(fin, ast.Call) and ast.unparse(fin.func).endswith(".amin") and ast.unparse(fin.args[0]) == "0"
          and len(fin.args) == 1 and not fin.keywords)
    n2 = fin.func.value if ok else None
    ok = ok and isinstance(n2, ast.Call) and isinstance(n2.func, ast.Attribute) and n2.func.attr == "nan_to_num" \
        and not n2.args and [(k.arg, ast.unparse(k.value)) for k in n2.keywords] == [("nan", "float('inf')")]
    n3 = n2.func.value if ok else None
    ok = ok and isinstance(n3, ast.Call) and ast.unparse(n3.func) == "torch.stack" and len(n3.args) == 2 \
        and ast.unparse(n3.args[1]) == "0" and isinstance(n3.args[0], ast.Tuple) and len(n3.args[0].elts) >= 2 \
        and not n3.keywords
    if not ok:
        raise TranslationError("victor_purpura_pair_dist: the stored cell is not stack(...).nan_to_num(nan=inf).amin(0)")
    cands = [ast.unparse(e) for e in n3.args[0].elts]
    mn = cands[0]
    for c_ in cands[1:]:
        mn = f"min({mn}, {c_})"
    stmts = [ast.Assign(targets=[st.targets[0]], value=red(st.value), lineno=0) for st in body[:-1]]
    stmts.append(ast.Return(value=ast.parse(mn).body[0].value))
    tr = Translator({})
    env = {"up": "T", "lft": "T", "diag": "T", "cost": "T", "x": "T", "y": "T"}
    v = tr.block(stmts, env)
    if v[1] != "T" or tr.extras:
        raise TranslationError("victor_purpura_pair_dist: cell expression is not a number")
    txt += ("(* victor_purpura_pair_dist: one cell of the dynamic programme for a FINITE cost; up = grid[r-1, c],\n"
            "   lft = grid[r, c-1], diag = grid[r-1, c-1], x = t0[r-1], y = t1[c-1] *)\n"
            "Definition vp_cell_finite (N : Num) (up : T N) (lft : T N) (diag : T N) (cost : T N) (x : T N) (y : T N)"
            " : T N :=\n"
            f"  {v[0]}.\n")
    man.append({"module": "SpikeMath", "source": path, "function": "victor_purpura_pair_dist.<loop body>",
                "lines": [inner.lineno, inner.end_lineno],
                "sha256": hashlib.sha256("\n".join(ast.dump(st) for st in body).encode()).hexdigest()})
    return txt, man


# ------------------------------------------------------------------ special: ShapedTensor constraint bookkeeping
# inferno/core/infrastructure.py: _constraint_dimensionality, _constraints_compatible, _constraints_consistent,
# ShapedTensor._ignore / ._ignore_or_compatible / .valid / .compatible and the decision logic of ShapedTensor.reconstrain,
# read over association lists `list (Z * nat)` (dimension -> size; dimensions may be negative).  Integer expressions,
# comparisons and the if-trees are translated; the dict / sequence / loop shapes these functions use are recognised
# exactly (anything else raises TranslationError).  The reading of the python primitives is the fixed prelude below.
CONSTRAINTS_PRELUDE = r"""(* GENERATED by tools/translate.py from inferno/core/infrastructure.py -- do not edit *)
From Coq Require Import List ZArith Bool Arith.
Import ListNotations.

(* ---- reading of the python primitives used by the translated functions (fixed text) ----
   dict[int, int] with unique keys = association list in insertion order; sizes are naturals *)
Definition pydict := list (Z * nat).
Fixpoint py_in (c : pydict) (d : Z) : bool :=                                   (* d in c *)
  match c with [] => false | (k, _) :: tl => if (k =? d)%Z then true else py_in tl d end.
Fixpoint py_setitem (c : pydict) (d : Z) (s : nat) : pydict :=                  (* c[d] = s   and   c | {d: s} *)
  match c with
  | [] => [(d, s)]
  | (k, s0) :: tl => if (k =? d)%Z then (k, s) :: tl else (k, s0) :: py_setitem tl d s
  end.
Fixpoint py_delitem (c : pydict) (d : Z) : pydict :=                            (* del c[d] *)
  match c with [] => [] | (k, s0) :: tl => if (k =? d)%Z then tl else (k, s0) :: py_delitem tl d end.
Definition py_empty (c : pydict) : bool := match c with [] => true | _ => false end.   (* not c *)
Definition py_max_key (c : pydict) : Z :=                                       (* max(c), c not empty *)
  match map fst c with [] => 0%Z | k :: ks => fold_right Z.max k ks end.
Definition py_min_key (c : pydict) : Z :=                                       (* min(c), c not empty *)
  match map fst c with [] => 0%Z | k :: ks => fold_right Z.min k ks end.
(* position addressed by a possibly negative index into a sequence of length n *)
Definition py_index (n : nat) (d : Z) : nat :=
  if (0 <=? d)%Z then Z.to_nat d else Z.to_nat (Z.of_nat n + d).
Definition py_getitem {X} (dflt : X) (l : list X) (d : Z) : X := nth (py_index (length l) d) l dflt.   (* l[d] *)
Fixpoint py_list_set {X} (l : list X) (i : nat) (x : X) : list X :=
  match l, i with [], _ => [] | _ :: t, O => x :: t | h :: t, S j => h :: py_list_set t j x end.
Definition py_setitem_list {X} (l : list X) (d : Z) (x : X) : list X := py_list_set l (py_index (length l) d) x.   (* l[d] = x *)
Definition py_opt_is_none {X} (o : option X) : bool := match o with None => true | Some _ => false end.
Definition py_opt_eqb (o : option nat) (s : nat) : bool := match o with Some s0 => s0 =? s | None => false end.   (* o == s *)
(* the value of the attribute as far as the bookkeeping looks at it: None, an uninitialised buffer / parameter, or a
   tensor of some shape; attributes of the first two are never evaluated by the code (short-circuit) *)
Inductive pydata := PyNone | PyUninit | PyTensor (shape : list nat).
Definition pd_is_none (x : pydata) : bool := match x with PyNone => true | _ => false end.
Definition pd_is_uninit (x : pydata) : bool := match x with PyUninit => true | _ => false end.
Definition pd_shape (x : pydata) : list nat := match x with PyTensor sh => sh | _ => [] end.
Definition py_numel (shape : list nat) : nat := fold_right Nat.mul 1 shape.
Inductive pyexc := ExcValueError | ExcRuntimeError | ExcAssertionError.
(* outcome of ShapedTensor.reconstrain: the constraint dictionary it leaves behind and either a normal return
   (with: was the data passed through __make_compatible) or the exception raised *)
Inductive rc_result := RcReturn (constraints : pydict) (resized : bool) | RcRaise (e : pyexc) (constraints : pydict).

"""


class CTr:
    """expression / statement translator for the constraint bookkeeping functions.
    types: C pydict, Z int, N nat, B bool, D pydata, S shape (list nat), ON option nat, H list (option nat), lit"""

    SIGS = {  # callee -> (coq name, [param types], return type)
        "_constraint_dimensionality": ("_constraint_dimensionality", ["C", "B"], "Z"),
        "_constraints_compatible": ("_constraints_compatible", ["S", "C", "B"], "B"),
        "_constraints_consistent": ("_constraints_consistent", ["C", "N"], "B"),
        "self._ignore": ("ShapedTensor__ignore", ["D"], "B"),
        "self._ignore_or_compatible": ("ShapedTensor__ignore_or_compatible", ["D", "C", "B"], "B"),
    }

    def __init__(self, where: str, rename: dict[str, str] | None = None):
        self.where = where
        self.rename = rename or {}

    def err(self, msg, node=None):
        src = f" `{ast.unparse(node)}`" if node is not None else ""
        raise TranslationError(f"{self.where}: {msg}{src}")

    # ---- coercions
    def toZ(self, e):
        t, ty = e
        if ty == "Z":
            return t
        if ty == "N":
            return f"(Z.of_nat {t})"
        if ty == "lit":
            return f"({t})%Z"
        if ty == "B":
            return f"(Z.b2z {t})"
        self.err(f"cannot use a value of type {ty} as an integer: {t}")

    def toN(self, e):
        t, ty = e
        if ty == "N":
            return t
        if ty == "lit" and t >= 0:
            return f"{t}%nat"
        self.err(f"cannot use a value of type {ty} as a natural number: {t}")

    def truthy(self, e):
        t, ty = e
        if ty == "B":
            return t
        if ty == "N":
            return f"(negb (Nat.eqb {t} 0%nat))"
        if ty == "Z":
            return f"(negb (Z.eqb {t} 0%Z))"
        if ty == "C":
            return f"(negb (py_empty {t}))"
        self.err(f"cannot use a value of type {ty} as a condition: {t}")

    def coerce(self, e, want):
        t, ty = e
        if ty == want:
            return t
        if want == "Z":
            return self.toZ(e)
        if want == "N":
            return self.toN(e)
        if want == "B":
            return self.truthy(e)
        if want == "S" and ty == "D":
            return f"(pd_shape {t})"
        self.err(f"cannot pass a value of type {ty} where {want} is expected: {t}")

    # ---- expressions
    def ex(self, n, env):
        s = ast.unparse(n)
        if s in self.rename:
            nm = self.rename[s]
            return self.ex(ast.Name(id=nm, ctx=ast.Load()), env)
        if isinstance(n, ast.Name):
            if n.id not in env:
                self.err("unknown name", n)
            v = env[n.id]
            return v
        if isinstance(n, ast.Constant):
            if n.value is True:
                return ("true", "B")
            if n.value is False:
                return ("false", "B")
            if isinstance(n.value, int):
                return (n.value, "lit")
            self.err("unsupported constant", n)
        if isinstance(n, ast.Dict):
            # a dict display with distinct-by-construction keys: {} or {key: value}
            if len(n.keys) > 1 or any(k is None for k in n.keys):
                self.err("only {} and {key: value} dict displays are supported", n)
            if not n.keys:
                return ("(@nil (Z * nat))", "C")
            return (f"(py_setitem (@nil (Z * nat)) {self.toZ(self.ex(n.keys[0], env))} "
                    f"{self.toN(self.ex(n.values[0], env))})", "C")
        if isinstance(n, ast.UnaryOp) and isinstance(n.op, ast.Not):
            v = self.ex(n.operand, env)
            if v[1] == "C":
                return (f"(py_empty {v[0]})", "B")
            return (f"(negb {self.truthy(v)})", "B")
        if isinstance(n, ast.BoolOp):
            op = "andb" if isinstance(n.op, ast.And) else "orb"
            vals = [self.truthy(self.ex(v, env)) for v in n.values]
            out = vals[-1]
            for v in reversed(vals[:-1]):
                out = f"({op} {v} {out})"
            return (out, "B")
        if isinstance(n, ast.BinOp):
            if isinstance(n.op, ast.BitOr):
                l = self.ex(n.left, env)
                if l[1] != "C" or not isinstance(n.right, ast.Dict) or len(n.right.keys) != 1 or n.right.keys[0] is None:
                    self.err("only `<dict> | {key: value}` is supported", n)
                k = self.toZ(self.ex(n.right.keys[0], env))
                v = self.toN(self.ex(n.right.values[0], env))
                return (f"(py_setitem {l[0]} {k} {v})", "C")
            if isinstance(n.op, (ast.Add, ast.Sub)):
                l, r = self.ex(n.left, env), self.ex(n.right, env)
                if "Z" not in (l[1], r[1]):
                    self.err("integer arithmetic is only supported on dimension-valued (Z) operands", n)
                op = "Z.add" if isinstance(n.op, ast.Add) else "Z.sub"
                return (f"({op} {self.toZ(l)} {self.toZ(r)})", "Z")
            self.err("unsupported operator", n)
        if isinstance(n, ast.Compare):
            if len(n.ops) != 1:
                self.err("chained comparison", n)
            op, l, rn = n.ops[0], self.ex(n.left, env), n.comparators[0]
            if isinstance(op, (ast.Is, ast.IsNot)):
                if not (isinstance(rn, ast.Constant) and rn.value is None):
                    self.err("`is` is only supported against None", n)
                if l[1] == "D":
                    t = f"(pd_is_none {l[0]})"
                elif l[1] == "ON":
                    t = f"(py_opt_is_none {l[0]})"
                elif l[1] in ("N", "S"):
                    t = "false"          # a value known not to be None
                else:
                    self.err(f"`is None` on a value of type {l[1]}", n)
                return (t if isinstance(op, ast.Is) else f"(negb {t})", "B")
            r = self.ex(rn, env)
            if isinstance(op, (ast.In, ast.NotIn)):
                if r[1] != "C":
                    self.err("`in` is only supported on the constraint dictionary", n)
                t = f"(py_in {r[0]} {self.toZ(l)})"
                return (t if isinstance(op, ast.In) else f"(negb {t})", "B")
            if isinstance(op, ast.Eq) and l[1] == "ON":
                return (f"(py_opt_eqb {l[0]} {self.toN(r)})", "B")
            tys = {l[1], r[1]}
            if not tys <= {"Z", "N", "lit"} or tys == {"lit"}:
                self.err(f"comparison of {l[1]} with {r[1]}", n)
            z = "Z" in tys
            a, b = (self.toZ(l), self.toZ(r)) if z else (self.toN(l), self.toN(r))
            m = "Z" if z else "Nat"
            if isinstance(op, ast.Eq):
                return (f"({m}.eqb {a} {b})", "B")
            if isinstance(op, ast.NotEq):
                return (f"(negb ({m}.eqb {a} {b}))", "B")
            if isinstance(op, ast.Lt):
                return (f"({m}.ltb {a} {b})", "B")
            if isinstance(op, ast.LtE):
                return (f"({m}.leb {a} {b})", "B")
            if isinstance(op, ast.Gt):
                return (f"({m}.ltb {b} {a})", "B")
            if isinstance(op, ast.GtE):
                return (f"({m}.leb {b} {a})", "B")
            self.err("unsupported comparison", n)
        if isinstance(n, ast.Attribute):
            v = self.ex(n.value, env)
            if n.attr == "ndim" and v[1] in ("D", "S"):
                return (f"(length {self.coerce(v, 'S')})", "N")
            if n.attr == "shape" and v[1] in ("D", "S"):
                return (self.coerce(v, "S"), "S")
            self.err("unsupported attribute", n)
        if isinstance(n, ast.Subscript):
            v, i = self.ex(n.value, env), self.toZ(self.ex(n.slice, env))
            if v[1] == "S":
                return (f"(py_getitem 0%nat {v[0]} {i})", "N")
            if v[1] == "H":
                return (f"(py_getitem None {v[0]} {i})", "ON")
            self.err("unsupported subscript", n)
        if isinstance(n, ast.Call):
            f = ast.unparse(n.func)
            if n.keywords:
                self.err("keyword arguments in a call", n)
            if f in ("max", "min") and len(n.args) == 1:
                v = self.ex(n.args[0], env)
                if v[1] != "C":
                    self.err(f"{f}() of one argument is only supported on the constraint dictionary", n)
                return (f"(py_{f}_key {v[0]})", "Z")
            if f in ("max", "min") and len(n.args) == 2:
                a, b = self.ex(n.args[0], env), self.ex(n.args[1], env)
                if "Z" not in (a[1], b[1]):
                    self.err(f"{f}() is only supported on dimension-valued (Z) operands", n)
                return (f"(Z.{f} {self.toZ(a)} {self.toZ(b)})", "Z")
            if f == "abs" and len(n.args) == 1:
                return (f"(Z.abs {self.toZ(self.ex(n.args[0], env))})", "Z")
            if f == "bool" and len(n.args) == 1:
                return (self.truthy(self.ex(n.args[0], env)), "B")
            if f == "isinstance" and len(n.args) == 2 \
                    and ast.unparse(n.args[1]) == "nn.UninitializedBuffer | nn.UninitializedParameter":
                v = self.ex(n.args[0], env)
                if v[1] != "D":
                    self.err("isinstance(.., uninitialised) on a value that is not the attribute's data", n)
                return (f"(pd_is_uninit {v[0]})", "B")
            if isinstance(n.func, ast.Attribute) and n.func.attr == "numel" and not n.args:
                v = self.ex(n.func.value, env)
                if v[1] not in ("D", "S"):
                    self.err("numel() of a value that is not a tensor", n)
                return (f"(py_numel {self.coerce(v, 'S')})", "N")
            if f == "all" and len(n.args) == 1:
                return self.all_starmap(n.args[0], env)
            if f in self.SIGS:
                name, ptys, rty = self.SIGS[f]
                if len(n.args) != len(ptys):
                    self.err("wrong number of arguments", n)
                args = [self.coerce(self.ex(a, env), t) for a, t in zip(n.args, ptys)]
                return (f"({name} {' '.join(args)})", rty)
            self.err("unsupported call", n)
        self.err("unsupported expression", n)

    def all_starmap(self, n, env):
        """all(starmap(lambda d, s, shape=<tensor>.shape: BODY, <dict>.items()))"""
        ok = isinstance(n, ast.Call) and ast.unparse(n.func) == "starmap" and len(n.args) == 2 and not n.keywords \
            and isinstance(n.args[0], ast.Lambda)
        it = n.args[1] if ok else None
        ok = ok and isinstance(it, ast.Call) and isinstance(it.func, ast.Attribute) and it.func.attr == "items" \
            and not it.args and not it.keywords
        if not ok:
            self.err("all(...) is only supported as all(starmap(lambda d, s, shape=..: .., <dict>.items()))", n)
        lam = n.args[0]
        a = lam.args
        if [x.arg for x in a.args] != ["d", "s", "shape"] or len(a.defaults) != 1 or a.vararg or a.kwarg or a.kwonlyargs \
                or a.posonlyargs:
            self.err("the starmap lambda must be `lambda d, s, shape=<tensor>.shape`", lam)
        d = self.ex(it.func.value, env)
        sh = self.ex(a.defaults[0], env)
        if d[1] != "C" or sh[1] != "S":
            self.err("starmap over something that is not (constraints.items(), a shape)", n)
        env2 = dict(env, d=("d", "Z"), s=("s", "N"), shape=("shape", "S"))
        body = self.truthy(self.ex(lam.body, env2))
        return (f"(forallb (fun ds : Z * nat => let d := fst ds in let s := snd ds in let shape := {sh[0]} in {body}) "
                f"{d[0]})", "B")

    # ---- pure functions: an if / elif / else tree of returns
    def ret_tree(self, stmts, env, rty):
        stmts = [st for st in stmts if not (isinstance(st, ast.Expr) and isinstance(st.value, ast.Constant)
                                            and isinstance(st.value.value, str))]
        if len(stmts) == 1 and isinstance(stmts[0], ast.Return) and stmts[0].value is not None:
            return self.coerce(self.ex(stmts[0].value, env), rty)
        if len(stmts) == 1 and isinstance(stmts[0], ast.If) and stmts[0].orelse:
            st = stmts[0]
            return (f"(if {self.truthy(self.ex(st.test, env))} then {self.ret_tree(st.body, env, rty)} "
                    f"else {self.ret_tree(st.orelse, env, rty)})")
        self.err("the body is not an if/elif/else tree of return statements")


def _ct_function(fdefs, name):
    if name not in fdefs:
        raise TranslationError(f"inferno/core/infrastructure.py: {name} not found")
    return fdefs[name]


def _ct_params(node, expected, where, skip_self=False):
    a = node.args
    names = [x.arg for x in a.args]
    if skip_self:
        if not names or names[0] not in ("self",):
            raise TranslationError(f"{where}: expected a method taking self")
        names = names[1:]
    if names != expected or a.vararg or a.kwarg or a.kwonlyargs or a.posonlyargs or a.defaults:
        raise TranslationError(f"{where}: expected parameters {expected}, found {names}")


def _ct_consistent(node):
    """hypoth = list(repeat(None, times=ndims)); for dim, size in constraints.items(): <if-chain of
    `hypoth[dim] = e` / `continue` / `return <bool>`>; return <bool>"""
    where = "_constraints_consistent"
    tr = CTr(where)
    body = [st for st in node.body if not (isinstance(st, ast.Expr) and isinstance(st.value, ast.Constant))]
    if len(body) != 3 or not isinstance(body[0], (ast.Assign, ast.AnnAssign)) or not isinstance(body[1], ast.For) \
            or not isinstance(body[2], ast.Return):
        tr.err("expected: initialisation of the hypothesis list, one for loop, one return")
    init = body[0]
    tgt = init.target if isinstance(init, ast.AnnAssign) else init.targets[0]
    if ast.unparse(tgt) != "hypoth" or ast.unparse(init.value) != "list(repeat(None, times=ndims))":
        tr.err("the hypothesis list is not initialised as list(repeat(None, times=ndims))", init)
    loop = body[1]
    if ast.unparse(loop.target) != "(dim, size)" or ast.unparse(loop.iter) != "constraints.items()" or loop.orelse:
        tr.err("the loop is not `for dim, size in constraints.items()`", loop)
    env = {"dim": ("dim", "Z"), "size": ("size", "N"), "hypoth": ("hypoth", "H"), "ndims": ("ndims", "N"),
           "constraints": ("constraints", "C")}

    def const_bool(st):
        if isinstance(st, ast.Return) and isinstance(st.value, ast.Constant) and st.value.value in (True, False):
            return "true" if st.value.value else "false"
        tr.err("only `return True` / `return False` are supported here", st)

    def leaf(stmts):
        if len(stmts) != 1:
            tr.err("a branch of the loop body must be a single statement")
        st = stmts[0]
        if isinstance(st, ast.Continue):
            return "_constraints_consistent_loop rest hypoth"
        if isinstance(st, ast.Return):
            return const_bool(st)
        if isinstance(st, ast.Assign) and len(st.targets) == 1 and isinstance(st.targets[0], ast.Subscript) \
                and ast.unparse(st.targets[0].value) == "hypoth":
            i = tr.toZ(tr.ex(st.targets[0].slice, env))
            v = tr.toN(tr.ex(st.value, env))
            return f"_constraints_consistent_loop rest (py_setitem_list hypoth {i} (Some {v}))"
        if isinstance(st, ast.If):
            return chain(st)
        tr.err("unsupported statement in the loop body", st)

    def chain(st):
        if not st.orelse:
            tr.err("an if without else in the loop body", st)
        return f"(if {tr.truthy(tr.ex(st.test, env))} then {leaf(st.body)} else {leaf(st.orelse)})"
    if len(loop.body) != 1 or not isinstance(loop.body[0], ast.If):
        tr.err("the loop body is not a single if/elif/else chain")
    step = chain(loop.body[0])
    after = const_bool(body[2])
    return ("Fixpoint _constraints_consistent_loop (items : pydict) (hypoth : list (option nat)) : bool :=\n"
            "  match items with\n"
            f"  | [] => {after}\n"
            "  | (dim, size) :: rest =>\n"
            f"      {step}\n"
            "  end.\n"
            "Definition _constraints_consistent (constraints : pydict) (ndims : nat) : bool :=\n"
            "  _constraints_consistent_loop constraints (repeat None ndims).\n")


def _ct_reconstrain(node):
    """ShapedTensor.reconstrain: the decision logic (which constraint dictionary results, whether the data goes through
    __make_compatible, which exception is raised), in continuation style over the statement vocabulary the method uses."""
    where = "ShapedTensor.reconstrain"
    ren = {"self.__strict": "strict"}
    tr = CTr(where, ren)
    _ct_params(node, ["dim", "size"], where, skip_self=True)
    body = [st for st in node.body if not (isinstance(st, ast.Expr) and isinstance(st.value, ast.Constant))]
    pre = ["dim = int(dim)", "size = None if size is None else argtest.gte('size', size, 0, int)",
           "data, constraints = (self.__data, self.__constraints)"]
    got = [ast.unparse(st) for st in body[:3]]
    if got != pre:
        tr.err(f"unexpected preamble {got}")
    if len(body) != 5 or not isinstance(body[3], ast.If) or ast.unparse(body[4]) != "return data":
        tr.err("expected: preamble, one if/elif/else tree, `return data`")

    def seq(stmts, env, resized):
        """translate a statement list followed by the final `return data`"""
        if not stmts:
            return f"RcReturn constraints {resized}"
        st, rest = stmts[0], stmts[1:]
        s = ast.unparse(st)
        if isinstance(st, ast.Assert):
            if s == "assert size is not None":
                if env["size"][1] == "N":
                    return seq(rest, env, resized)
                env2 = dict(env, size=("size_v", "N"))
                return (f"(match size with Some size_v => {seq(rest, env2, resized)} "
                        f"| None => RcRaise ExcAssertionError constraints end)")
            if s == "assert data is not None":
                return f"(if pd_is_none data then RcRaise ExcAssertionError constraints else {seq(rest, env, resized)})"
            tr.err("unsupported assert", st)
        if isinstance(st, ast.Raise):
            if rest:
                tr.err("statements after raise", st)
            exc = st.exc
            nm = ast.unparse(exc.func) if isinstance(exc, ast.Call) else None
            if nm not in ("ValueError", "RuntimeError"):
                tr.err("unsupported exception", st)
            return f"RcRaise Exc{nm} constraints"
        if isinstance(st, ast.Assign) and len(st.targets) == 1 and isinstance(st.targets[0], ast.Subscript) \
                and ast.unparse(st.targets[0].value) == "constraints":
            k = tr.toZ(tr.ex(st.targets[0].slice, env))
            v = tr.toN(tr.ex(st.value, env))
            return f"(let constraints := py_setitem constraints {k} {v} in {seq(rest, env, resized)})"
        if isinstance(st, ast.Delete) and len(st.targets) == 1 and isinstance(st.targets[0], ast.Subscript) \
                and ast.unparse(st.targets[0].value) == "constraints":
            k = tr.toZ(tr.ex(st.targets[0].slice, env))
            return f"(let constraints := py_delitem constraints {k} in {seq(rest, env, resized)})"
        if s == "self.__data = self.__make_compatible(data, dim, size)":
            if not rest or ast.unparse(rest[0]) != "data = self.__data":
                tr.err("expected `data = self.__data` after the data has been made compatible", st)
            if env["size"][1] != "N":
                tr.err("size may be None where the data is made compatible", st)
            return seq(rest[1:], env, "true")
        if isinstance(st, ast.If):
            # a branch that does not end in raise continues with the statements after the if
            def cont(branch):
                return branch if branch and isinstance(branch[-1], ast.Raise) else branch + rest
            if ast.unparse(st.test) == "size is None" and env["size"][1] == "ON":
                env2 = dict(env, size=("size_v", "N"))
                return (f"(match size with None => {seq(cont(st.body), env, resized)} "
                        f"| Some size_v => {seq(cont(st.orelse), env2, resized)} end)")
            return (f"(if {tr.truthy(tr.ex(st.test, env))} then {seq(cont(st.body), env, resized)} "
                    f"else {seq(cont(st.orelse), env, resized)})")
        tr.err("unsupported statement", st)

    env = {"dim": ("dim", "Z"), "size": ("size", "ON"), "data": ("data", "D"), "constraints": ("constraints", "C"),
           "strict": ("strict", "B")}
    tree = seq([body[3]], env, "false")
    return ("(* size = None if size is None else argtest.gte(\"size\", size, 0, int): a negative size is a ValueError *)\n"
            "Definition ShapedTensor_reconstrain (data : pydata) (constraints : pydict) (strict : bool) (dim : Z)\n"
            "    (size_arg : option Z) : rc_result :=\n"
            "  if match size_arg with Some z => (z <? 0)%Z | None => false end then RcRaise ExcValueError constraints\n"
            "  else\n"
            "    let size := option_map Z.to_nat size_arg in\n"
            f"    {tree}.\n")


def translate_constraints(repo: str = REPO):
    path = "inferno/core/infrastructure.py"
    tree = ast.parse(open(os.path.join(repo, path)).read())
    fdefs = {n.name: n for n in tree.body if isinstance(n, ast.FunctionDef)}
    cls = [n for n in tree.body if isinstance(n, ast.ClassDef) and n.name == "ShapedTensor"]
    if not cls:
        raise TranslationError("ShapedTensor not found")
    meths = {}
    for n in cls[0].body:
        if isinstance(n, ast.FunctionDef):
            decs = [ast.unparse(d) for d in n.decorator_list]
            if n.name == "valid" and decs != ["property"]:
                continue
            meths.setdefault(n.name, n)
    out, man = [], []

    def record(name, node):
        man.append({"module": "Constraints", "source": path, "function": name, "lines": [node.lineno, node.end_lineno],
                    "sha256": hashlib.sha256(ast.dump(node).encode()).hexdigest()})

    # _constraint_dimensionality(constraints, strict) -> int
    f = _ct_function(fdefs, "_constraint_dimensionality")
    _ct_params(f, ["constraints", "strict"], f.name)
    tr = CTr(f.name)
    env = {"constraints": ("constraints", "C"), "strict": ("strict", "B")}
    out.append("Definition _constraint_dimensionality (constraints : pydict) (strict : bool) : Z :=\n"
               f"  {tr.ret_tree(f.body, env, 'Z')}.\n")
    record(f.name, f)
    # _constraints_compatible(tensor, constraints, strict) -> bool      (the tensor is read through its shape)
    f = _ct_function(fdefs, "_constraints_compatible")
    _ct_params(f, ["tensor", "constraints", "strict"], f.name)
    tr = CTr(f.name)
    env = {"tensor": ("tensor", "S"), "constraints": ("constraints", "C"), "strict": ("strict", "B")}
    out.append("Definition _constraints_compatible (tensor : list nat) (constraints : pydict) (strict : bool) : bool :=\n"
               f"  {tr.ret_tree(f.body, env, 'B')}.\n")
    record(f.name, f)
    # _constraints_consistent(constraints, ndims) -> bool
    f = _ct_function(fdefs, "_constraints_consistent")
    _ct_params(f, ["constraints", "ndims"], f.name)
    out.append(_ct_consistent(f))
    record(f.name, f)
    # ShapedTensor._ignore(tensor), ._ignore_or_compatible(tensor, constraints, strict): static methods
    for nm, params, sig in (("_ignore", ["tensor"], "(tensor : pydata)"),
                            ("_ignore_or_compatible", ["tensor", "constraints", "strict"],
                             "(tensor : pydata) (constraints : pydict) (strict : bool)")):
        if nm not in meths or [ast.unparse(d) for d in meths[nm].decorator_list] != ["staticmethod"]:
            raise TranslationError(f"ShapedTensor.{nm}: static method not found")
        f = meths[nm]
        _ct_params(f, params, f"ShapedTensor.{nm}")
        tr = CTr(f"ShapedTensor.{nm}")
        env = {"tensor": ("tensor", "D"), "constraints": ("constraints", "C"), "strict": ("strict", "B")}
        env = {k: v for k, v in env.items() if k in params}
        out.append(f"Definition ShapedTensor_{nm} {sig} : bool :=\n  {tr.ret_tree(f.body, env, 'B')}.\n")
        record(f"ShapedTensor.{nm}", f)
    # ShapedTensor.valid (property), ShapedTensor.compatible(tensor)
    ren = {"self.__owner()": "owner", "self.__data": "data", "self.__constraints": "constraints", "self.__strict": "strict"}
    env = {"owner": ("owner", "B"), "data": ("data", "D"), "constraints": ("constraints", "C"), "strict": ("strict", "B")}
    if "valid" not in meths:
        raise TranslationError("ShapedTensor.valid: property not found")
    f = meths["valid"]
    _ct_params(f, [], "ShapedTensor.valid", skip_self=True)
    tr = CTr("ShapedTensor.valid", ren)
    out.append("(* owner: does the owning module still exist *)\n"
               "Definition ShapedTensor_valid (owner : bool) (data : pydata) (constraints : pydict) (strict : bool) : bool :=\n"
               f"  {tr.ret_tree(f.body, env, 'B')}.\n")
    record("ShapedTensor.valid", f)
    if "compatible" not in meths:
        raise TranslationError("ShapedTensor.compatible: method not found")
    f = meths["compatible"]
    _ct_params(f, ["tensor"], "ShapedTensor.compatible", skip_self=True)
    tr = CTr("ShapedTensor.compatible", ren)
    env2 = dict(env, tensor=("tensor", "S"))
    out.append("Definition ShapedTensor_compatible (tensor : list nat) (constraints : pydict) (strict : bool) : bool :=\n"
               f"  {tr.ret_tree(f.body, env2, 'B')}.\n")
    record("ShapedTensor.compatible", f)
    # ShapedTensor.reconstrain(dim, size): decision logic
    if "reconstrain" not in meths:
        raise TranslationError("ShapedTensor.reconstrain: method not found")
    out.append(_ct_reconstrain(meths["reconstrain"]))
    record("ShapedTensor.reconstrain", meths["reconstrain"])
    # RecordTensor.reconstrain(dim, size): align unless ignored, then ShapedTensor.reconstrain(self, <dim expression>, size)
    rcls = [n for n in tree.body if isinstance(n, ast.ClassDef) and n.name == "RecordTensor"]
    rmeth = [n for n in (rcls[0].body if rcls else []) if isinstance(n, ast.FunctionDef) and n.name == "reconstrain"]
    if len(rmeth) != 1:
        raise TranslationError("RecordTensor.reconstrain: method not found")
    f = rmeth[0]
    where = "RecordTensor.reconstrain"
    _ct_params(f, ["dim", "size"], where, skip_self=True)
    tr = CTr(where)
    body = [st for st in f.body if not (isinstance(st, ast.Expr) and isinstance(st.value, ast.Constant))]
    ok = len(body) == 2 and isinstance(body[0], ast.If) and not body[0].orelse \
        and ast.unparse(body[0].test) == "not self._ignore(self.__data)" \
        and [ast.unparse(x) for x in body[0].body] == ["self.align()"] and isinstance(body[1], ast.Return)
    call = body[1].value if ok else None
    ok = ok and isinstance(call, ast.Call) and ast.unparse(call.func) == "ShapedTensor.reconstrain" and not call.keywords \
        and len(call.args) == 3 and ast.unparse(call.args[0]) == "self" and ast.unparse(call.args[2]) == "size"
    if not ok:
        tr.err("expected `if not self._ignore(self.__data): self.align()` and "
               "`return ShapedTensor.reconstrain(self, <dim expression>, size)`")
    e = tr.toZ(tr.ex(call.args[1], {"dim": ("dim", "Z")}))
    out.append("(* the dimension RecordTensor.reconstrain hands to ShapedTensor.reconstrain (after aligning initialised storage) *)\n"
               f"Definition RecordTensor_reconstrain_dim (dim : Z) : Z :=\n  {e}.\n")
    record("RecordTensor.reconstrain", f)
    return CONSTRAINTS_PRELUDE + "\n".join(out), man



# ------------------------------------------------------------------ special: the eight neuron classes
# inferno/neural/neurons/linear.py, nonlinear.py (+ mixins.py for the `spike` property): the CALL STRUCTURE of
# _integrate_v, forward, clear and spike of LIF, ALIF, GLIF1, GLIF2, QIF, Izhikevich, EIF, AdEx, composed from the
# generated kernels (Gen/NeuronDynamics, NeuronAdaptation, NeuronApply) exactly as the methods compose them.
# Reading: everything is per ELEMENT (one neuron, one batch sample; for the adaptation update additionally one
# adaptation index k); `self.<attr>` reads become parameters `self_<attr>` (sorted by name); the state assignments
# `self.voltage = ...`, `self.refrac = ...` are tracked, so that a later read of `self.refrac` is the value assigned
# by then (the adaptation update reads the NEW refrac).  Only the statement shapes listed in _nc_forward are accepted.
# NOT generated (stays in the hand-written model, tied by the correspondence): broadcasting over batch / neuron / K
# axes and the batch reduction inside the adaptation setters.
NC_FILES = {"inferno/neural/neurons/linear.py": ["LIF", "ALIF", "GLIF1", "GLIF2"],
            "inferno/neural/neurons/nonlinear.py": ["QIF", "Izhikevich", "EIF", "AdEx"]}
# attribute -> type in the thresholding call (cell level).  The adaptation buffers are whole K-vectors there.
NC_ATTRS = {a: "T" for a in (
    "step_time rest_v reset_v reset_v_add reset_v_mul thresh_v thresh_eq_v refrac_t time_constant tc_membrane "
    "resistance crit_v affinity rheobase_v sharpness voltage refrac").split()}
NC_ADAPT_BUFFERS = ("threshold_adaptation", "current_adaptation")
NC_PER_K = ("tc_adaptation", "rc_adaptation", "adapt_vc_coupling", "adapt_increment") + NC_ADAPT_BUFFERS
NC_STATE = ("voltage", "refrac")
NC_ADAPT_COND = "adapt or (adapt is None and self.training)"


def _nc_strip(body):
    return [st for st in body if not (isinstance(st, ast.Expr) and isinstance(st.value, ast.Constant)
                                      and isinstance(st.value.value, str))]


class _NCSelf(ast.NodeTransformer):
    """self.X (read) -> Name self_X, or the expression currently assigned to the state attribute X"""

    def __init__(self, where, state, allowed, used):
        self.where, self.state, self.allowed, self.used = where, state, allowed, used

    def visit_Attribute(self, n):
        if isinstance(n.value, ast.Name) and n.value.id == "self":
            if n.attr in self.state:
                return ast.Name(id=self.state[n.attr], ctx=ast.Load())
            if n.attr not in self.allowed:
                raise TranslationError(f"{self.where}: read of self.{n.attr} is outside the modelled attributes")
            self.used.add(n.attr)
            return ast.Name(id="self_" + n.attr, ctx=ast.Load())
        return self.generic_visit(n)

    def visit_Name(self, n):
        if n.id == "self":
            raise TranslationError(f"{self.where}: bare use of self")
        return n


def _nc_params(used, types):
    return " ".join(f"(self_{a} : {COQ_TYPE[types[a]]})" for a in sorted(used))


def _nc_args(used):
    return " ".join(f"self_{a}" for a in sorted(used))


def translate_neuron_classes(repo: str = REPO):
    # signatures of the kernels the methods call (as `nf.<kernel>`)
    kfns: dict[str, Fn] = {}
    for m in ("NeuronDynamics", "NeuronAdaptation", "NeuronApply"):
        translate_module(m, repo, kfns)
    nf = {"nf." + k: v for k, v in kfns.items()}
    out = ["(* GENERATED by tools/translate.py from inferno/neural/neurons/{linear,nonlinear,mixins}.py -- do not edit *)",
           "From Coq Require Import ZArith Bool List.",
           "From Inferno Require Import Base.Num Gen.NeuronDynamics Gen.NeuronAdaptation Gen.NeuronApply.", ""]
    man = []
    # ---- mixins.py: SpikeRefractoryMixin.spike  ==  self.refrac == getattr(self, self.__absrefrac_attr)
    mpath = "inferno/neural/neurons/mixins.py"
    mtree = ast.parse(open(os.path.join(repo, mpath)).read())
    mcls = [n for n in mtree.body if isinstance(n, ast.ClassDef) and n.name == "SpikeRefractoryMixin"]
    if not mcls:
        raise TranslationError("SpikeRefractoryMixin not found")
    mm = {n.name: n for n in mcls[0].body if isinstance(n, ast.FunctionDef)}
    if "spike" not in mm or [ast.unparse(d) for d in mm["spike"].decorator_list] != ["property"]:
        raise TranslationError("SpikeRefractoryMixin.spike: property not found")
    sb = _nc_strip(mm["spike"].body)
    if len(sb) != 1 or not isinstance(sb[0], ast.Return):
        raise TranslationError("SpikeRefractoryMixin.spike: expected a single return")
    ib = [ast.unparse(x) for x in _nc_strip(mm["__init__"].body)] if "__init__" in mm else []
    if [a.arg for a in mm["__init__"].args.args] != ["self", "refrac", "absrefrac"] \
            or "self.__absrefrac_attr = absrefrac" not in ib:
        raise TranslationError("SpikeRefractoryMixin.__init__: expected (self, refrac, absrefrac) storing absrefrac")
    spike_expr = sb[0].value
    man.append({"module": "NeuronClasses", "source": mpath, "function": "SpikeRefractoryMixin.spike",
                "lines": [mm["spike"].lineno, mm["spike"].end_lineno],
                "sha256": hashlib.sha256(ast.dump(mm["spike"]).encode()).hexdigest()})

    done: dict[str, dict] = {}     # class -> {"integ": used attrs, "cell": used attrs, ...}
    for path, classes in NC_FILES.items():
        tree = ast.parse(open(os.path.join(repo, path)).read())
        cdefs = {n.name: n for n in tree.body if isinstance(n, ast.ClassDef)}
        for cn in classes:
            if cn not in cdefs:
                raise TranslationError(f"{path}: class {cn} not found")
            meths = {n.name: n for n in cdefs[cn].body if isinstance(n, ast.FunctionDef)
                     and not any(ast.unparse(d).endswith(".setter") for d in n.decorator_list)}
            for need in ("__init__", "_integrate_v", "forward", "clear"):
                if need not in meths:
                    raise TranslationError(f"{cn}.{need}: method not found")
            info = done[cn] = {}
            out.append(f"(* ---------------------------------------------------------------- {cn} ({path}) *)")
            # ---------------- _integrate_v(self, masked_inputs)
            f = meths["_integrate_v"]
            where = f"{cn}._integrate_v"
            if [a.arg for a in f.args.args] != ["self", "masked_inputs"] or f.args.kwonlyargs or f.args.vararg or f.args.kwarg:
                raise TranslationError(f"{where}: expected (self, masked_inputs)")
            body = _nc_strip(f.body)
            if len(body) != 1 or not isinstance(body[0], ast.Return):
                raise TranslationError(f"{where}: expected a single return")
            deleg = None
            if isinstance(body[0].value, ast.Call) and ast.unparse(body[0].value.func).endswith("._integrate_v"):
                call = body[0].value
                deleg = ast.unparse(call.func)[: -len("._integrate_v")]
                if deleg not in done or [ast.unparse(a) for a in call.args] != ["self", "masked_inputs"] or call.keywords:
                    raise TranslationError(f"{where}: unsupported delegation {ast.unparse(call)}")
                info["integ"] = set(done[deleg]["integ"])
                out.append(f"Definition {cn}_integrate_v (N : Num) := {deleg}_integrate_v N.\n")
            else:
                used: set[str] = set()
                e = _NCSelf(where, {}, NC_ATTRS, used).visit(ast.parse(ast.unparse(body[0].value)).body[0].value)
                tr = Translator(nf)
                env = {"self_" + a: t for a, t in NC_ATTRS.items()}
                env["masked_inputs"] = "T"
                v = tr.expr(e, env)
                if v[1] != "T" or tr.extras:
                    raise TranslationError(f"{where}: does not return one number per element")
                info["integ"] = used
                out.append(f"Definition {cn}_integrate_v (N : Num) {_nc_params(used, NC_ATTRS)} (masked_inputs : T N) : T N :=\n"
                           f"  {v[0]}.\n")
            man.append({"module": "NeuronClasses", "source": path, "function": where, "lines": [f.lineno, f.end_lineno],
                        "sha256": hashlib.sha256(ast.dump(f).encode()).hexdigest()})
            # ---------------- forward
            _nc_forward(cn, meths["forward"], nf, done, out, deleg)
            f = meths["forward"]
            man.append({"module": "NeuronClasses", "source": path, "function": f"{cn}.forward", "lines": [f.lineno, f.end_lineno],
                        "sha256": hashlib.sha256(ast.dump(f).encode()).hexdigest()})
            # ---------------- clear
            _nc_clear(cn, meths["clear"], done, out)
            f = meths["clear"]
            man.append({"module": "NeuronClasses", "source": path, "function": f"{cn}.clear", "lines": [f.lineno, f.end_lineno],
                        "sha256": hashlib.sha256(ast.dump(f).encode()).hexdigest()})
            # ---------------- spike: the constructor names the attribute holding the absolute refractory period
            calls = [st.value for st in ast.walk(meths["__init__"]) if isinstance(st, ast.Expr) and isinstance(st.value, ast.Call)
                     and ast.unparse(st.value.func) in ("SpikeRefractoryMixin.__init__", "LIF.__init__")]
            attr = None
            for c_ in calls:
                if ast.unparse(c_.func) == "SpikeRefractoryMixin.__init__":
                    if len(c_.args) != 3 or c_.keywords or not isinstance(c_.args[2], ast.Constant) \
                            or not isinstance(c_.args[2].value, str):
                        raise TranslationError(f"{cn}.__init__: SpikeRefractoryMixin.__init__(self, <refrac>, '<attribute>') expected")
                    attr = c_.args[2].value
                elif "LIF" in done:
                    attr = done["LIF"]["absrefrac"]
            if attr is None or attr not in NC_ATTRS:
                raise TranslationError(f"{cn}.__init__: absolute-refractory attribute not found")
            info["absrefrac"] = attr

            class G(ast.NodeTransformer):
                def visit_Call(self, n):
                    if ast.unparse(n) == "getattr(self, self.__absrefrac_attr)":
                        return ast.Attribute(value=ast.Name(id="self", ctx=ast.Load()), attr=attr, ctx=ast.Load())
                    return self.generic_visit(n)
            used = set()
            e = G().visit(ast.parse(ast.unparse(spike_expr)).body[0].value)
            e = _NCSelf(f"{cn}.spike", {}, NC_ATTRS, used).visit(e)
            tr = Translator({})
            v = tr.expr(e, {"self_" + a: t for a, t in NC_ATTRS.items()})
            if v[1] != "B" or tr.extras:
                raise TranslationError(f"{cn}.spike: not a boolean per element")
            info["spike"] = used
            out.append(f"Definition {cn}_spike (N : Num) {_nc_params(used, NC_ATTRS)} : bool :=\n  {v[0]}.\n")
    return "\n".join(out), man


def _nc_forward(cn, f, nf, done, out, deleg):
    """accepted shapes of forward(self, inputs, [adapt=None,] refrac_lock=True, **kwargs):
         spikes, voltages, refracs = nf.<thresholding kernel>(<keyword arguments>)
         self.voltage = <local>;  self.refrac = <local>            (state assignments, any order)
         [ if adapt or (adapt is None and self.training):
               adaptations = nf.<adaptation kernel>(<keyword arguments>)
               self.<buffer> = adaptations ]
         return spikes
       or the delegation  return LIF.forward(self, inputs, refrac_lock=refrac_lock)"""
    where = f"{cn}.forward"
    info = done[cn]
    a = f.args
    pos = [x.arg for x in a.args]
    if pos[:2] != ["self", "inputs"] or a.kwonlyargs or a.vararg or pos[2:] not in (["refrac_lock"], ["adapt", "refrac_lock"]):
        raise TranslationError(f"{where}: unexpected parameters {pos}")
    defaults = [ast.unparse(d) for d in a.defaults]
    if defaults != (["True"] if len(pos) == 3 else ["None", "True"]):
        raise TranslationError(f"{where}: unexpected defaults {defaults}")
    has_adapt = "adapt" in pos
    body = _nc_strip(f.body)
    if len(body) == 1 and isinstance(body[0], ast.Return) and isinstance(body[0].value, ast.Call) \
            and ast.unparse(body[0].value.func).endswith(".forward"):
        call = body[0].value
        tgt = ast.unparse(call.func)[: -len(".forward")]
        if tgt not in done or tgt != deleg or has_adapt or done[tgt].get("adapt") is not None \
                or [ast.unparse(x) for x in call.args] != ["self", "inputs"] \
                or [(k.arg, ast.unparse(k.value)) for k in call.keywords] != [("refrac_lock", "refrac_lock")]:
            raise TranslationError(f"{where}: unsupported delegation {ast.unparse(call)}")
        info["cell"], info["adapt"] = set(done[tgt]["cell"]), None
        out.append(f"Definition {cn}_forward_cell (N : Num) := {tgt}_forward_cell N.\n")
        return
    if not body or not isinstance(body[-1], ast.Return) or ast.unparse(body[-1]) != "return spikes":
        raise TranslationError(f"{where}: expected to end with `return spikes`")
    types = dict(NC_ATTRS)
    for b in NC_ADAPT_BUFFERS:
        types[b] = "LT"
    state: dict[str, str] = {}      # state attribute -> local currently stored in it
    used: set[str] = set()
    thr = None
    adapt_block = None
    for st in body[:-1]:
        if isinstance(st, ast.Assign) and len(st.targets) == 1 and isinstance(st.targets[0], ast.Tuple):
            if thr is not None or [ast.unparse(t) for t in st.targets[0].elts] != ["spikes", "voltages", "refracs"] \
                    or not isinstance(st.value, ast.Call) or ast.unparse(st.value.func) not in nf or st.value.args:
                raise TranslationError(f"{where}: unsupported statement {ast.unparse(st)[:80]}")
            if state:
                raise TranslationError(f"{where}: state assigned before the thresholding call")
            thr = ast.Assign(targets=st.targets, lineno=0,
                             value=_NCSelf(where, state, dict(types, _integrate_v="fun"), used).visit(
                                 ast.parse(ast.unparse(st.value)).body[0].value))
        elif isinstance(st, ast.Assign) and len(st.targets) == 1 and isinstance(st.targets[0], ast.Attribute) \
                and ast.unparse(st.targets[0].value) == "self" and st.targets[0].attr in NC_STATE \
                and isinstance(st.value, ast.Name) and st.value.id in ("spikes", "voltages", "refracs") and thr is not None:
            state[st.targets[0].attr] = st.value.id
        elif isinstance(st, ast.If) and has_adapt and adapt_block is None and thr is not None and not st.orelse:
            if ast.unparse(st.test) != NC_ADAPT_COND:
                raise TranslationError(f"{where}: adaptation guard is not `{NC_ADAPT_COND}`")
            ib = st.body
            if len(ib) != 2 or not (isinstance(ib[0], ast.Assign) and ast.unparse(ib[0].targets[0]) == "adaptations"
                                    and isinstance(ib[0].value, ast.Call) and ast.unparse(ib[0].value.func) in nf
                                    and not ib[0].value.args) \
                    or not (isinstance(ib[1], ast.Assign) and isinstance(ib[1].targets[0], ast.Attribute)
                            and ast.unparse(ib[1].targets[0].value) == "self" and ib[1].targets[0].attr in NC_ADAPT_BUFFERS
                            and ast.unparse(ib[1].value) == "adaptations"):
                raise TranslationError(f"{where}: unsupported adaptation block")
            buf = ib[1].targets[0].attr
            kw = {k.arg: ast.unparse(k.value) for k in ib[0].value.keywords}
            if kw.get("adaptations") != f"self.{buf}":
                raise TranslationError(f"{where}: the buffer assigned (self.{buf}) is not the one passed as adaptations=")
            aused: set[str] = set()
            atypes = dict(NC_ATTRS)
            for k_ in NC_PER_K:
                atypes[k_] = "T"
            ae = _NCSelf(where, dict(state), atypes, aused).visit(ast.parse(ast.unparse(ib[0].value)).body[0].value)
            adapt_block = (ae, aused, atypes, buf)
        else:
            raise TranslationError(f"{where}: unsupported statement {ast.unparse(st)[:80]}")
    if thr is None:
        raise TranslationError(f"{where}: no thresholding call")
    if has_adapt != (adapt_block is not None):
        raise TranslationError(f"{where}: `adapt` parameter without adaptation block (or the converse)")
    # ---- cell: (returned spikes, value left in self.voltage, value left in self.refrac)
    final = [state.get("voltage"), state.get("refrac")]
    ret_elts = [ast.Name(id="spikes", ctx=ast.Load())]
    for attr, loc in zip(NC_STATE, final):
        if loc is None:
            used.add(attr)
        ret_elts.append(ast.Name(id=loc if loc is not None else "self_" + attr, ctx=ast.Load()))
    stmts = [thr, ast.Return(value=ast.Tuple(elts=ret_elts, ctx=ast.Load()))]
    tr = Translator(nf)
    env = {"self_" + a_: t for a_, t in types.items()}
    env.update({"inputs": "T", "refrac_lock": "B", "self__integrate_v": "fun"})
    v = tr.block(stmts, env)
    if v[1] != ("tuple", "B", "T", "T") or tr.extras:
        raise TranslationError(f"{where}: the step does not produce (spikes, voltages, refracs) per element")
    uses_dyn = "_integrate_v" in used
    used.discard("_integrate_v")
    if uses_dyn:
        used |= info["integ"]
        dyn = (f"(let self__integrate_v := (fun masked_inputs : T N => {cn}_integrate_v N {_nc_args(info['integ'])} masked_inputs) in\n  ")
        txt = dyn + v[0] + ")"
    else:
        txt = v[0]
    info["cell"] = used
    out.append(f"Definition {cn}_forward_cell (N : Num) {_nc_params(used, types)} (inputs : T N) (refrac_lock : bool)"
               f" : bool * T N * T N :=\n  {txt}.\n")
    # ---- adaptation update, per (batch sample, adaptation index k)
    if adapt_block is None:
        info["adapt"] = None
        return
    ae, aused, atypes, buf = adapt_block
    tr = Translator(nf)
    env = {"self_" + a_: t for a_, t in atypes.items()}
    env.update({"inputs": "T", "refrac_lock": "B", "spikes": "B", "voltages": "T", "refracs": "T"})
    v = tr.expr(ae, env)
    if v[1] != "T" or tr.extras:
        raise TranslationError(f"{where}: the adaptation update is not one number per element")
    info["adapt"], info["buffer"] = aused, buf
    out.append(f"(* the value handed to the `{buf}` setter, per batch sample and adaptation index *)\n"
               f"Definition {cn}_forward_adapt (N : Num) {_nc_params(aused, atypes)} (spikes : bool) (voltages : T N) "
               f"(refracs : T N) (refrac_lock : bool) : T N :=\n  {v[0]}.\n")
    out.append(f"(* `{NC_ADAPT_COND}` *)\n"
               f"Definition {cn}_forward_adapts (adapt : option bool) (self_training : bool) : bool :=\n"
               "  (match adapt with Some adapt => adapt | None => self_training end).\n")


def _nc_clear(cn, f, done, out):
    """accepted shapes of clear(self, [keep_adaptations=True,] **kwargs):
         self.voltage = torch.full_like(self.voltage, <expr>);  self.refrac = torch.zeros_like(self.refrac)
         [ if not keep_adaptations: self.<buffer> = torch.zeros_like(self.<buffer>) ]
       or the delegation  LIF.clear(self, **kwargs)"""
    where = f"{cn}.clear"
    info = done[cn]
    pos = [x.arg for x in f.args.args]
    if pos not in (["self"], ["self", "keep_adaptations"]) or f.args.kwonlyargs or f.args.vararg \
            or [ast.unparse(d) for d in f.args.defaults] != (["True"] if len(pos) == 2 else []):
        raise TranslationError(f"{where}: unexpected parameters")
    body = _nc_strip(f.body)
    if len(body) == 1 and isinstance(body[0], ast.Expr) and isinstance(body[0].value, ast.Call) \
            and ast.unparse(body[0].value.func).endswith(".clear"):
        tgt = ast.unparse(body[0].value.func)[: -len(".clear")]
        if tgt not in done or len(pos) != 1 or done[tgt].get("clear_buf") is not None \
                or ast.unparse(body[0].value) != f"{tgt}.clear(self, **kwargs)":
            raise TranslationError(f"{where}: unsupported delegation")
        info["clear"], info["clear_buf"] = set(done[tgt]["clear"]), None
        out.append(f"Definition {cn}_clear_cell (N : Num) := {tgt}_clear_cell N.\n")
        return
    vals: dict[str, ast.AST] = {}
    buf = None
    for st in body:
        if isinstance(st, ast.Assign) and len(st.targets) == 1 and isinstance(st.targets[0], ast.Attribute) \
                and ast.unparse(st.targets[0].value) == "self" and st.targets[0].attr in NC_STATE \
                and st.targets[0].attr not in vals and buf is None:
            attr = st.targets[0].attr
            c_ = st.value
            if isinstance(c_, ast.Call) and ast.unparse(c_.func) == "torch.full_like" and len(c_.args) == 2 and not c_.keywords \
                    and ast.unparse(c_.args[0]) == f"self.{attr}":
                vals[attr] = c_.args[1]
            elif isinstance(c_, ast.Call) and ast.unparse(c_.func) == "torch.zeros_like" and len(c_.args) == 1 \
                    and not c_.keywords and ast.unparse(c_.args[0]) == f"self.{attr}":
                vals[attr] = ast.Constant(value=0)
            else:
                raise TranslationError(f"{where}: unsupported statement {ast.unparse(st)[:80]}")
        elif isinstance(st, ast.If) and len(pos) == 2 and buf is None and not st.orelse \
                and ast.unparse(st.test) == "not keep_adaptations" and len(st.body) == 1:
            a_ = st.body[0]
            ok = isinstance(a_, ast.Assign) and isinstance(a_.targets[0], ast.Attribute) \
                and ast.unparse(a_.targets[0].value) == "self" and a_.targets[0].attr in NC_ADAPT_BUFFERS \
                and ast.unparse(a_.value) == f"torch.zeros_like(self.{a_.targets[0].attr})"
            if not ok:
                raise TranslationError(f"{where}: unsupported adaptation reset")
            buf = a_.targets[0].attr
        else:
            raise TranslationError(f"{where}: unsupported statement {ast.unparse(st)[:80]}")
    if (len(pos) == 2) != (buf is not None):
        raise TranslationError(f"{where}: keep_adaptations without adaptation reset (or the converse)")
    used: set[str] = set()
    elts = []
    for attr in NC_STATE:
        if attr not in vals:
            used.add(attr)
            elts.append(ast.Name(id="self_" + attr, ctx=ast.Load()))
        else:
            elts.append(_NCSelf(where, {}, NC_ATTRS, used).visit(ast.parse(ast.unparse(vals[attr])).body[0].value))
    tr = Translator({})
    v = tr.expr(ast.Tuple(elts=elts, ctx=ast.Load()), {"self_" + a_: t for a_, t in NC_ATTRS.items()})
    if v[1] != ("tuple", "T", "T") or tr.extras:
        raise TranslationError(f"{where}: not (voltage, refrac) per element")
    info["clear"], info["clear_buf"] = used, buf
    out.append(f"(* (voltage, refrac) left by clear() *)\n"
               f"Definition {cn}_clear_cell (N : Num) {_nc_params(used, NC_ATTRS)} : T N * T N :=\n  {v[0]}.\n")
    if buf is not None:
        out.append(f"(* the entry of `{buf}` left by clear(keep_adaptations) *)\n"
                   f"Definition {cn}_clear_adapt (N : Num) (self_{buf} : T N) (keep_adaptations : bool) : T N :=\n"
                   f"  (if (negb keep_adaptations) then (zero N) else self_{buf}).\n")


# ------------------------------------------------------------------------------------------------------------------
# Synapse classes (inferno/neural/synapses/{current,expcurrent,mixins}.py): what the four shipped classes compute per
# ELEMENT (one synapse, one batch sample), generated from the methods themselves.
#   forward:   the conversion of inputs[0] to a spike, the value pushed to every current record (in terms of the
#              attributes read - parameters self_<attr>, sorted - the input inputs_0 and, for DeltaPlusCurrent, the list of
#              injected values inputs_rest), the order in which the records are written, what is returned;
#   current:   the getter (the delta synapse's closure spike_to_current, CurrentMixin.current, the double exponential's
#              difference);   clear: which records are reset to which value;
#   _synparam_at / DoubleExponentialCurrent.current_at: the undelayed test, the clamped selector and the overbound decision.
# Only the statement shapes checked below are accepted.  NOT generated (hand model + correspondence): record mechanics
# (RecordTensor), tensor shapes / broadcasting, RecordTensor.select, the argument wiring of current_at / spike_at.
SC_ATTRS = {a: "T" for a in "dt spike_charge time_constant tc_decay tc_rise current pos_current neg_current".split()}
SC_RECORD = {"spike": 0, "spike_": 0, "current": 1, "current_": 1, "pos_current": 1, "pos_current_": 1,
             "neg_current": 2, "neg_current_": 2}
SC_CLASSES = {"inferno/neural/synapses/current.py": ["DeltaCurrent", "DeltaPlusCurrent"],
              "inferno/neural/synapses/expcurrent.py": ["SingleExponentialCurrent", "DoubleExponentialCurrent"]}


class _SCPre(ast.NodeTransformer):
    """self.X / synapse.X reads -> self_X;  inputs[0] -> inputs_0;  self.R_.peek() -> R_peek;  value.duration -> value_duration ..."""

    def __init__(self, where, used, owner="self", extra=None):
        self.where, self.used, self.owner, self.extra = where, used, owner, extra or {}

    def visit_Subscript(self, n):
        if ast.unparse(n) == "inputs[0]":
            return ast.Name(id="inputs_0", ctx=ast.Load())
        raise TranslationError(f"{self.where}: unsupported subscript {ast.unparse(n)}")

    def visit_Call(self, n):
        u = ast.unparse(n)
        if u in self.extra:
            return ast.Name(id=self.extra[u], ctx=ast.Load())
        m = re.fullmatch(r"self\.(\w+_)\.peek\(\)", u)
        if m and m.group(1) in SC_RECORD:
            return ast.Name(id=m.group(1) + "peek", ctx=ast.Load())
        return self.generic_visit(n)

    def visit_Attribute(self, n):
        u = ast.unparse(n)
        if u in self.extra:
            return ast.Name(id=self.extra[u], ctx=ast.Load())
        if isinstance(n.value, ast.Name) and n.value.id == self.owner:
            if n.attr not in SC_ATTRS:
                raise TranslationError(f"{self.where}: read of {self.owner}.{n.attr} is outside the modelled attributes")
            self.used.add(n.attr)
            return ast.Name(id="self_" + n.attr, ctx=ast.Load())
        return self.generic_visit(n)

    def visit_Name(self, n):
        if n.id in ("self", "synapse") and n.id == self.owner:
            raise TranslationError(f"{self.where}: bare use of {n.id}")
        return n


def _sc_expr(where, node, env, owner="self", extra=None, want="T"):
    used: set[str] = set()
    e = _SCPre(where, used, owner, extra).visit(ast.parse(ast.unparse(node)).body[0].value)
    tr = Translator({})
    full = {"self_" + a: t for a, t in SC_ATTRS.items()}
    full.update(env)
    v = tr.expr(e, full)
    if tr.extras:
        raise TranslationError(f"{where}: needs special functions")
    if want == "T":
        v = (tr.toT(v), "T")
    elif v[1] != want:
        raise TranslationError(f"{where}: expected a value of kind {want}, got {v[1]}")
    return v[0], used


def _sc_man(man, path, name, f):
    man.append({"module": "SynapseClasses", "source": path, "function": name, "lines": [f.lineno, f.end_lineno],
                "sha256": hashlib.sha256(ast.dump(f).encode()).hexdigest()})


def _sc_params(used):
    return "".join(f" (self_{a} : T N)" for a in sorted(used))


def _sc_methods(cdef, getter=True):
    out = {}
    for n in cdef.body:
        if isinstance(n, ast.FunctionDef):
            decs = [ast.unparse(d) for d in n.decorator_list]
            if any(d.endswith(".setter") for d in decs):
                out[n.name + ".setter"] = n
            else:
                out[n.name] = n
    return out


def _sc_overbound(where, body, names, out, prefix, owner_extra):
    """the tail shared by _synparam_at and DoubleExponentialCurrent.current_at:
         if <undelayed>: bounded_selector = 0; res = ...; [if selector.ndim == res.ndim + 1: res = res.unsqueeze(-1).expand(*selector.shape)]
         else: bounded_selector = selector.clamp(min=0, max=<duration>); res = ...
         if <overbound> is not None: res = torch.where((selector - bounded_selector).abs() <= <tolerance>, res, <overbound>)
         return res
       names = (undelayed test text, duration text, tolerance text, overbound text); returns (undelayed res expr, delayed res expr)"""
    und, dur, tol, ob = names
    if len(body) != 3 or not isinstance(body[0], ast.If) or not isinstance(body[1], ast.If) or not isinstance(body[2], ast.Return):
        raise TranslationError(f"{where}: expected `if undelayed/else`, `if overbound is not None`, `return res`")
    br, obif, ret = body
    if ast.unparse(br.test) != und or ast.unparse(ret.value) != "res":
        raise TranslationError(f"{where}: unexpected test {ast.unparse(br.test)} / return {ast.unparse(ret.value)}")
    ub, db = _nc_strip(br.body), _nc_strip(br.orelse)
    expand = "if selector.ndim == res.ndim + 1:\n    res = res.unsqueeze(-1).expand(*selector.shape)"
    if len(ub) != 3 or ast.unparse(ub[2]) != expand or len(db) != 2:
        raise TranslationError(f"{where}: unexpected statements in the undelayed / delayed branch")
    for blk in (ub, db):
        if [ast.unparse(t) for st in blk[:2] for t in getattr(st, "targets", [])] != ["bounded_selector", "res"]:
            raise TranslationError(f"{where}: expected `bounded_selector = ...; res = ...`")
    b0, _ = _sc_expr(where, ub[0].value, {})
    b1, _ = _sc_expr(where, db[0].value, {"selector": "T", "duration": "T"}, extra={dur: "duration"})
    if ast.unparse(obif.test) != f"{ob} is not None" or obif.orelse or len(obif.body) != 1 \
            or [ast.unparse(t) for t in obif.body[0].targets] != ["res"]:
        raise TranslationError(f"{where}: expected `if {ob} is not None: res = torch.where(...)`")
    w, _ = _sc_expr(where, obif.body[0].value, {"selector": "T", "bounded_selector": "T", "tolerance": "T", "res": "T", "overbound": "T"},
                    extra={tol: "tolerance", ob: "overbound"})
    t0, _ = _sc_expr(where, br.test, {"recordsz": "Z"}, extra={und.split(" == ")[0]: "recordsz"}, want="B")
    out.append(f"(* {where}: undelayed access iff the record has a single slot *)\n"
               f"Definition {prefix}_undelayed (recordsz : Z) : bool :=\n  {t0}.\n")
    out.append(f"Definition {prefix}_bounded_undelayed (N : Num) : T N :=\n  {b0}.\n")
    out.append(f"Definition {prefix}_bounded (N : Num) (selector : T N) (duration : T N) : T N :=\n  {b1}.\n")
    out.append(f"Definition {prefix}_overbound (N : Num) (selector : T N) (bounded_selector : T N) (tolerance : T N) (res : T N) "
               f"(overbound : option (T N)) : T N :=\n  (match overbound with Some overbound => {w} | None => res end).\n")
    return ub[1].value, db[1].value


# default values of the optional constructor / partialconstructor parameters (what a caller gets by leaving them out)
SC_DEFAULT_KIND = {"delay": "T", "interp_mode": "mode", "spike_interp_mode": "mode", "interp_tol": "T",
                   "current_overbound": "OT", "spike_overbound": "OB", "batch_size": "nat", "inplace": "B"}


def _sc_default(where, name, node):
    kind = SC_DEFAULT_KIND.get(name)
    v = ast.literal_eval(node) if isinstance(node, (ast.Constant, ast.UnaryOp)) else TranslationError
    if kind is None or v is TranslationError:
        raise TranslationError(f"{where}: unsupported optional parameter {name} = {ast.unparse(node)}")

    def num(x):
        if isinstance(x, bool) or not isinstance(x, (int, float)) or float(x) != int(x):
            raise TranslationError(f"{where}: unsupported default {name} = {x!r}")
        return "(zero N)" if x == 0 else f"(ofZ N ({int(x)})%Z)"
    if kind == "T":
        return "(N : Num) : T N", num(v)
    if kind == "OT":
        return "(N : Num) : option (T N)", "None" if v is None else f"(Some {num(v)})"
    if kind == "OB":
        if v is not None and not isinstance(v, bool):
            raise TranslationError(f"{where}: unsupported default {name} = {v!r}")
        return ": option bool", "None" if v is None else f"(Some {'true' if v else 'false'})"
    if kind == "B" and isinstance(v, bool):
        return ": bool", "true" if v else "false"
    if kind == "nat" and isinstance(v, int) and not isinstance(v, bool) and v >= 0:
        return ": nat", str(v)
    if kind == "mode" and v in ("previous", "nearest"):      # 0 = "previous", 1 = "nearest"
        return ": nat", "0" if v == "previous" else "1"
    raise TranslationError(f"{where}: unsupported default {name} = {v!r}")


def _sc_defaults(cn, mm, out, man, path):
    """Definition <Class>_default_<param> / <Class>_partial_default_<param> for every optional parameter"""
    for meth, tag in (("__init__", "default"), ("partialconstructor", "partial_default")):
        f = mm.get(meth)
        if f is None:
            raise TranslationError(f"{cn}.{meth}: method not found")
        a = f.args
        pairs = list(zip([x.arg for x in a.args][len(a.args) - len(a.defaults):], a.defaults)) + \
            [(x.arg, d) for x, d in zip(a.kwonlyargs, a.kw_defaults) if d is not None]
        out.append(f"(* {cn}.{meth}: default values of the optional parameters (mode: 0 = \"previous\", 1 = \"nearest\") *)")
        for name, d in pairs:
            ty, val = _sc_default(f"{cn}.{meth}", name, d)
            pname = "interp_mode" if name == "spike_interp_mode" else name
            out.append(f"Definition {cn}_{tag}_{pname} {ty} := {val}.")
        out.append("")
        if meth == "partialconstructor":
            _sc_man(man, path, f"{cn}.partialconstructor (defaults)", f)


def translate_synapse_classes(repo: str = REPO):
    out = ["(* GENERATED by tools/translate.py from inferno/neural/synapses/{current,expcurrent,mixins}.py -- do not edit *)",
           "From Coq Require Import ZArith Bool List.", "From Inferno Require Import Base.Num.", "Import ListNotations.", ""]
    man = []
    # ---------------------------------------------------------------- mixins.py
    mpath = "inferno/neural/synapses/mixins.py"
    mtree = ast.parse(open(os.path.join(repo, mpath)).read())
    out.append(f"(* ---------------------------------------------------------------- {mpath} *)")
    fdefs = {n.name: n for n in mtree.body if isinstance(n, ast.FunctionDef)}
    if "_synparam_at" not in fdefs:
        raise TranslationError("_synparam_at not found")
    f = fdefs["_synparam_at"]
    if [a.arg for a in f.args.args] != ["value", "selector", "interpolation", "interp_kwargs", "tolerance", "overbound", "transform"]:
        raise TranslationError("_synparam_at: unexpected parameters")
    body = _nc_strip(f.body)
    if not body or ast.unparse(body[0]) != "if not transform:\n    transform = lambda x: x":
        raise TranslationError("_synparam_at: expected the identity default of `transform` first")
    r0, r1 = _sc_overbound("_synparam_at", body[1:], ("value.recordsz == 1", "value.duration", "tolerance", "overbound"),
                           out, "synparam_at", None)
    if ast.unparse(r0) != "transform(value.peek())" or ast.unparse(r1) != \
            "transform(value.select(bounded_selector, interpolation, tolerance=tolerance, interp_kwargs=interp_kwargs))":
        raise TranslationError("_synparam_at: unexpected selected value " + ast.unparse(r0) + " / " + ast.unparse(r1))
    _sc_man(man, mpath, "_synparam_at", f)
    mcls = {n.name: n for n in mtree.body if isinstance(n, ast.ClassDef)}
    for cn, prop, expect in (("CurrentMixin", "current", "self.current_.peek()"), ("SpikeMixin", "spike", "self.spike_.peek()")):
        if cn not in mcls:
            raise TranslationError(f"{cn} not found")
        mm = _sc_methods(mcls[cn])
        g, st = mm.get(prop), mm.get(prop + ".setter")
        gb = _nc_strip(g.body) if g else []
        sb = _nc_strip(st.body) if st else []
        if len(gb) != 1 or not isinstance(gb[0], ast.Return) or ast.unparse(gb[0].value) != expect:
            raise TranslationError(f"{cn}.{prop}: expected `return {expect}`")
        rec = prop + "_"
        conv = "value.bool()" if prop == "spike" else "value"
        if len(sb) != 1 or ast.unparse(sb[0]) != f"self.{rec}.push({conv}, self.inplace)":
            raise TranslationError(f"{cn}.{prop} setter: expected `self.{rec}.push({conv}, self.inplace)`")
        out.append(f"(* {cn}.{prop}: getter = newest observation of record {SC_RECORD[rec]}, setter = push to it *)\n"
                   f"Definition {cn}_{prop}_record : nat := {SC_RECORD[rec]}.\n")
        _sc_man(man, mpath, f"{cn}.{prop}", g)
        _sc_man(man, mpath, f"{cn}.{prop}.setter", st)
    # ---------------------------------------------------------------- the four classes
    for path, classes in SC_CLASSES.items():
        tree = ast.parse(open(os.path.join(repo, path)).read())
        cdefs = {n.name: n for n in tree.body if isinstance(n, ast.ClassDef)}
        for cn in classes:
            if cn not in cdefs:
                raise TranslationError(f"{path}: class {cn} not found")
            mm = _sc_methods(cdefs[cn])
            for need in ("__init__", "forward", "clear"):
                if need not in mm:
                    raise TranslationError(f"{cn}.{need}: method not found")
            out.append(f"(* ---------------------------------------------------------------- {cn} ({path}) *)")
            # ---------------- forward(self, *inputs, **kwargs)
            f = mm["forward"]
            where = f"{cn}.forward"
            if [a.arg for a in f.args.args] != ["self"] or not f.args.vararg or f.args.vararg.arg != "inputs" or f.args.kwonlyargs:
                raise TranslationError(f"{where}: expected (self, *inputs, **kwargs)")
            body = _nc_strip(f.body)
            if len(body) < 2 or not isinstance(body[-1], ast.Return) or ast.unparse(body[-1].value) != "self.current":
                raise TranslationError(f"{where}: expected `return self.current` last")
            writes = []
            for st in body[:-1]:
                if not (isinstance(st, ast.Assign) and len(st.targets) == 1 and isinstance(st.targets[0], ast.Attribute)
                        and ast.unparse(st.targets[0].value) == "self" and st.targets[0].attr in SC_RECORD
                        and st.targets[0].attr not in writes):
                    raise TranslationError(f"{where}: unsupported statement {ast.unparse(st)}")
                attr = st.targets[0].attr
                if attr == "spike":
                    if writes:
                        raise TranslationError(f"{where}: the spike must be stored first")
                    v, used = _sc_expr(where, st.value, {"inputs_0": "T"}, want="B")
                    if used:
                        raise TranslationError(f"{where}: the spike conversion reads attributes")
                    out.append(f"Definition {cn}_forward_spike (N : Num) (inputs_0 : T N) : bool :=\n  {v}.\n")
                else:
                    rest = ""
                    val = st.value
                    if isinstance(val, ast.Call) and ast.unparse(val.func) == "sum":
                        # sum((<first>, *inputs[1:])): python's sum starts from the integer 0
                        if len(val.args) != 1 or val.keywords or not isinstance(val.args[0], ast.Tuple) or len(val.args[0].elts) != 2 \
                                or ast.unparse(val.args[0].elts[1]) != "*inputs[1:]":
                            raise TranslationError(f"{where}: unsupported sum {ast.unparse(val)}")
                        v, used = _sc_expr(where, val.args[0].elts[0], {"inputs_0": "T"})
                        v = f"(fold_left (add N) inputs_rest (add N (zero N) {v}))"
                        rest = " (inputs_rest : list (T N))"
                    else:
                        v, used = _sc_expr(where, val, {"inputs_0": "T"})
                    out.append(f"(* the value pushed to record {SC_RECORD[attr]} ({attr}) *)\n"
                               f"Definition {cn}_forward_{attr} (N : Num){_sc_params(used)} (inputs_0 : T N){rest} : T N :=\n  {v}.\n")
                writes.append(attr)
            if not writes or writes[0] != "spike":
                raise TranslationError(f"{where}: the spike is not stored")
            out.append(f"(* records written by forward, in order *)\n"
                       f"Definition {cn}_forward_writes : list nat := [{'; '.join(str(SC_RECORD[w]) for w in writes)}].\n")
            _sc_man(man, path, where, f)
            # ---------------- clear
            f = mm["clear"]
            resets = []
            for st in _nc_strip(f.body):
                m = re.fullmatch(r"self\.(\w+_)\.reset\((False|0\.0)\)", ast.unparse(st))
                if not m or m.group(1) not in SC_RECORD or SC_RECORD[m.group(1)] in resets:
                    raise TranslationError(f"{cn}.clear: unsupported statement {ast.unparse(st)}")
                resets.append(SC_RECORD[m.group(1)])
            out.append(f"(* records reset (to the resting value False / 0.0) by clear *)\n"
                       f"Definition {cn}_clear_resets : list nat := [{'; '.join(map(str, resets))}].\n")
            _sc_man(man, path, f"{cn}.clear", f)
            # ---------------- defaults of the optional constructor parameters
            all_m = {n.name: n for n in cdefs[cn].body if isinstance(n, ast.FunctionDef)}
            _sc_defaults(cn, all_m, out, man, path)
            # ---------------- the current getter
            if cn == "DeltaCurrent":
                cl = [n for n in ast.walk(mm["__init__"]) if isinstance(n, ast.FunctionDef) and n.name == "spike_to_current"]
                calls = [ast.unparse(n) for n in ast.walk(mm["__init__"]) if isinstance(n, ast.Call)
                         and ast.unparse(n.func) == "SpikeDerivedCurrentMixin.__init__"]
                if len(cl) != 1 or [a.arg for a in cl[0].args.args] != ["synapse", "dtype", "device", "spikes"] \
                        or len(calls) != 1 or "spike_to_current" not in calls[0]:
                    raise TranslationError(f"{cn}.__init__: closure spike_to_current(synapse, dtype, device, spikes) not found")
                cb = _nc_strip(cl[0].body)
                if len(cb) != 1 or not isinstance(cb[0], ast.Return):
                    raise TranslationError(f"{cn}.spike_to_current: expected a single return")
                v, used = _sc_expr(f"{cn}.spike_to_current", cb[0].value, {"spikes": "B", "dtype": "none", "device": "none"}, owner="synapse")
                out.append(f"(* the derived current: spike_to_current of the newest spike *)\n"
                           f"Definition {cn}_spike_to_current (N : Num){_sc_params(used)} (spikes : bool) : T N :=\n  {v}.\n")
                _sc_man(man, path, f"{cn}.spike_to_current", cl[0])
            if cn == "DoubleExponentialCurrent":
                g = mm.get("current")
                gb = _nc_strip(g.body) if g else []
                if len(gb) != 1 or not isinstance(gb[0], ast.Return):
                    raise TranslationError(f"{cn}.current: expected a single return")
                v, used = _sc_expr(f"{cn}.current", gb[0].value, {"pos_current_peek": "T", "neg_current_peek": "T"})
                out.append(f"Definition {cn}_current (N : Num) (pos_current_peek : T N) (neg_current_peek : T N) : T N :=\n  {v}.\n")
                _sc_man(man, path, f"{cn}.current", g)
                f = mm.get("current_at")
                if f is None or [a.arg for a in f.args.args] != ["self", "selector"]:
                    raise TranslationError(f"{cn}.current_at(self, selector) not found")
                r0, r1 = _sc_overbound(f"{cn}.current_at", _nc_strip(f.body),
                                       ("self.spike_.recordsz == 1", "self.spike_.duration", "self.__tolerance", "self.__current_overbound"),
                                       out, f"{cn}_current_at", None)
                v0, _ = _sc_expr(f"{cn}.current_at", r0, {"pos_current_peek": "T", "neg_current_peek": "T"})
                sel = {"self.pos_current_.select(bounded_selector, interp_expdecay, tolerance=self.__tolerance, interp_kwargs={'time_constant': self.tc_decay})": "pos_selected",
                       "self.neg_current_.select(bounded_selector, interp_expdecay, tolerance=self.__tolerance, interp_kwargs={'time_constant': self.tc_rise})": "neg_selected"}
                v1, _ = _sc_expr(f"{cn}.current_at", r1, {"pos_selected": "T", "neg_selected": "T"}, extra=sel)
                if "pos_selected" not in v1 or "neg_selected" not in v1:
                    raise TranslationError(f"{cn}.current_at: unexpected selects {ast.unparse(r1)}")
                out.append(f"Definition {cn}_current_at_now (N : Num) (pos_current_peek : T N) (neg_current_peek : T N) : T N :=\n  {v0}.\n")
                out.append(f"(* pos_selected / neg_selected: pos_current_ / neg_current_ selected at the bounded time with interp_expdecay and "
                           f"tc_decay / tc_rise *)\n"
                           f"Definition {cn}_current_at_selected (N : Num) (pos_selected : T N) (neg_selected : T N) : T N :=\n  {v1}.\n")
                _sc_man(man, path, f"{cn}.current_at", f)
    return "\n".join(out), man



# ------------------------------------------------------------------ special: the ten fold reducer classes
# inferno/observe/reducers/{trace,general,stats}.py: per class the body of `fold` (which kernel, with which attributes
# as which arguments), the decay expression (constructor AND dt setter: the two occurrences must translate to the same
# term), `interpolate` (which interpolation, with which attribute), the fill value handed to FoldReducer.__init__;
# inferno/observe/reducers/base.py: the statement structure of FoldReducer.forward / clear / peek / dump / view / push over
# abstract record operations.  Reading: per ELEMENT; `self.<attr>` reads become parameters `self_<attr>` sorted by name
# (leading underscores of name-mangled attributes dropped: self.__initial_value -> self_initial_value, self._count ->
# self_count); casts `x.to(dtype=...)` are the identity on numbers; `partial(lambda o, c: c, c=cond)` is the constant
# function of the condition.  Fail closed on any other statement shape or attribute.
# NOT generated (stays hand-written in coq/C07/Reducer.v, tied by the correspondence): zipping the per-element fold over
# a tensor, shape errors, the ring buffer itself (C01), RecordTensor.select (view), the dt setter's record resize, the
# EventReducer's non-finite initial values inf / nan (the model's `option` lifting) and the string -> value mapping of
# its `initial` argument, argument validation.
RC_FILES = {"inferno/observe/reducers/trace.py": ["NearestTraceReducer", "CumulativeTraceReducer",
                                                   "ScaledNearestTraceReducer", "ScaledCumulativeTraceReducer",
                                                   "ConditionalNearestTraceReducer", "ConditionalCumulativeTraceReducer"],
            "inferno/observe/reducers/general.py": ["EventReducer", "PassthroughReducer"],
            "inferno/observe/reducers/stats.py": ["EMAReducer", "CAReducer"]}
RC_ATTRS = {"decay": "T", "amplitude": "T", "target": "T", "tolerance": "optT", "scale": "T", "criterion": "funB",
            "time_constant": "T", "dt": "T", "alpha": "T", "__initial_value": "T", "_count": "Z"}
RC_COND = "partial(lambda o, c: c, c=cond)"
RC_BASE = "inferno/observe/reducers/base.py"


def _rc_pname(a):
    return "self_" + a.lstrip("_")


class _RCSelf(ast.NodeTransformer):
    """self.X (read) -> Name self_X; casts to the storage data type dropped; the conditional match function named"""

    def __init__(self, where, used):
        self.where, self.used = where, used

    def visit_Call(self, n):
        if ast.unparse(n) == RC_COND:
            return ast.Name(id="cond_matchfn", ctx=ast.Load())
        if isinstance(n.func, ast.Attribute) and n.func.attr == "to" and not n.args and [k.arg for k in n.keywords] == ["dtype"]:
            dt = ast.unparse(n.keywords[0].value)
            if dt not in ("self.data.dtype", "state.dtype"):
                raise TranslationError(f"{self.where}: cast to {dt} (expected the storage / state data type)")
            return self.visit(n.func.value)
        return self.generic_visit(n)

    def visit_Attribute(self, n):
        if isinstance(n.value, ast.Name) and n.value.id == "self":
            if n.attr not in RC_ATTRS:
                raise TranslationError(f"{self.where}: read of self.{n.attr} is outside the modelled attributes")
            self.used.add(n.attr)
            return ast.Name(id=_rc_pname(n.attr), ctx=ast.Load())
        return self.generic_visit(n)

    def visit_Name(self, n):
        if n.id == "self":
            raise TranslationError(f"{self.where}: bare use of self")
        return n


def _rc_sig(used):
    return "".join(f" ({_rc_pname(a)} : {COQ_TYPE[RC_ATTRS[a]]})" for a in sorted(used, key=_rc_pname))


def _rc_value(where, node, kfns, env):
    """translate one expression / returning statement list reading self attributes; -> (text, used attributes)"""
    used: set[str] = set()
    tr = Translator(kfns)
    full = {_rc_pname(a): t for a, t in RC_ATTRS.items()}
    full.update(env)
    if isinstance(node, list):
        stmts = [_RCSelf(where, used).visit(ast.parse(ast.unparse(st)).body[0]) for st in node]
        v = tr.block(stmts, full)
    else:
        v = tr.expr(_RCSelf(where, used).visit(ast.parse(ast.unparse(node)).body[0].value), full)
    if tr.extras:
        raise TranslationError(f"{where}: needs special functions")
    if v[1] not in ("T", "lit", "Z", "B"):
        raise TranslationError(f"{where}: does not produce one number per element ({v[1]})")
    return tr.toT(v), used


def _rc_args(f, expected, where):
    a = f.args
    if [x.arg for x in a.args] != expected or a.vararg or a.kwonlyargs:
        raise TranslationError(f"{where}: expected parameters {expected}")


def translate_reducer_classes(repo: str = REPO):
    kfns: dict[str, Fn] = {}
    for m in ("Trace", "Math", "Interpolation"):
        translate_module(m, repo, kfns)
    out = ["(* GENERATED by tools/translate.py from inferno/observe/reducers/{base,trace,general,stats}.py -- do not edit *)",
           "From Coq Require Import ZArith Bool List.",
           "From Inferno Require Import Base.Num Gen.Trace Gen.Math Gen.Interpolation.", ""]
    man = []

    def record(path, name, f):
        man.append({"module": "ReducerClasses", "source": path, "function": name, "lines": [f.lineno, f.end_lineno],
                    "sha256": hashlib.sha256(ast.dump(f).encode()).hexdigest()})

    for path, classes in RC_FILES.items():
        tree = ast.parse(open(os.path.join(repo, path)).read())
        cdefs = {n.name: n for n in tree.body if isinstance(n, ast.ClassDef)}
        for cn in classes:
            if cn not in cdefs:
                raise TranslationError(f"{path}: class {cn} not found")
            if [ast.unparse(b) for b in cdefs[cn].bases] != ["FoldReducer"]:
                raise TranslationError(f"{cn}: expected the single base class FoldReducer")
            meths = _sc_methods(cdefs[cn])
            allowed = {"__init__", "fold", "interpolate", "dt", "dt.setter"} | ({"clear"} if cn == "CAReducer" else set())
            if set(meths) - allowed:
                raise TranslationError(f"{cn}: unexpected methods {sorted(set(meths) - allowed)}")
            for need in ("__init__", "fold", "interpolate"):
                if need not in meths:
                    raise TranslationError(f"{cn}.{need}: method not found")
            out.append(f"(* ---------------------------------------------------------------- {cn} ({path}) *)")
            init = meths["__init__"]
            ibody = _nc_strip(init.body)
            # ---------------- fill: FoldReducer.__init__(self, step_time, duration, inclusive, inplace, <fill>)
            calls = [st.value for st in ibody if isinstance(st, ast.Expr) and isinstance(st.value, ast.Call)
                     and ast.unparse(st.value.func) == "FoldReducer.__init__"]
            if len(calls) != 1 or calls[0].keywords or \
                    [ast.unparse(a) for a in calls[0].args[:5]] != ["self", "step_time", "duration", "inclusive", "inplace"] \
                    or len(calls[0].args) != 6:
                raise TranslationError(f"{cn}.__init__: expected FoldReducer.__init__(self, step_time, duration, inclusive, "
                                       "inplace, <fill>)")
            fill = calls[0].args[5]
            if isinstance(fill, ast.Constant) and isinstance(fill.value, (int, float)) and not isinstance(fill.value, bool):
                out.append(f"Definition {cn}_fill (N : Num) : T N :=\n  {Translator({}).toT((fill.value, 'lit'))}.\n")
            elif isinstance(fill, ast.Name) and fill.id == "initial" and cn == "EventReducer":
                if "self.__initial_value = initial" not in [ast.unparse(st) for st in ibody]:
                    raise TranslationError(f"{cn}.__init__: expected self.__initial_value = initial (the fill value)")
                out.append("(* the fill value and the value fold uses before the first event are the same local `initial` *)\n"
                           f"Definition {cn}_fill (N : Num) (initial : T N) : T N :=\n  initial.\n"
                           f"Definition {cn}_initial_value (N : Num) (initial : T N) : T N :=\n  initial.\n")
            else:
                raise TranslationError(f"{cn}.__init__: unsupported fill value {ast.unparse(fill)}")
            record(path, f"{cn}.__init__", init)
            # ---------------- decay: constructor and dt setter
            dec = [st for st in ibody if isinstance(st, ast.Assign) and ast.unparse(st.targets[0]) == "self.decay"]
            if dec or "dt.setter" in meths:
                if len(dec) != 1 or "dt.setter" not in meths or "dt" not in meths:
                    raise TranslationError(f"{cn}: decay must be assigned once in __init__ and again in the dt setter")
                sb = _nc_strip(meths["dt.setter"].body)
                if len(sb) != 2 or ast.unparse(sb[0]) != "FoldReducer.dt.fset(self, value)" \
                        or not isinstance(sb[1], ast.Assign) or ast.unparse(sb[1].targets[0]) != "self.decay":
                    raise TranslationError(f"{cn}.dt setter: expected FoldReducer.dt.fset(self, value); self.decay = <expression>")
                gb = _nc_strip(meths["dt"].body)
                if len(gb) != 1 or ast.unparse(gb[0]) != "return FoldReducer.dt.fget(self)":
                    raise TranslationError(f"{cn}.dt getter: expected return FoldReducer.dt.fget(self)")
                t1, u1 = _rc_value(f"{cn}.__init__ (decay)", dec[0].value, kfns, {})
                t2, u2 = _rc_value(f"{cn}.dt setter (decay)", sb[1].value, kfns, {})
                if t1 != t2 or u1 != u2:
                    raise TranslationError(f"{cn}: the decay expressions of the constructor and of the dt setter differ: "
                                           f"{ast.unparse(dec[0].value)} vs {ast.unparse(sb[1].value)}")
                if not u1 <= {"dt", "time_constant"}:
                    raise TranslationError(f"{cn}: decay reads {sorted(u1)}")
                # the attributes the decay reads must be set from validated constructor arguments
                if not any(isinstance(st, ast.Assign) and ast.unparse(st.targets[0]) == "self.time_constant"
                           and ast.unparse(st.value) == "argtest.gt('time_constant', time_constant, 0, float)" for st in ibody):
                    raise TranslationError(f"{cn}.__init__: expected self.time_constant = argtest.gt('time_constant', "
                                           "time_constant, 0, float)")
                out.append(f"Definition {cn}_decay (N : Num){_rc_sig(u1)} : T N :=\n  {t1}.\n")
                record(path, f"{cn}.dt.setter", meths["dt.setter"])
            # ---------------- fold
            f = meths["fold"]
            where = f"{cn}.fold"
            cond = [x.arg for x in f.args.args] == ["self", "obs", "cond", "state"]
            _rc_args(f, ["self", "obs", "cond", "state"] if cond else ["self", "obs", "state"], where)
            body = _nc_strip(f.body)
            pre = ""
            env = {"obs": "T", "state": "optT"}
            if cond:
                env.update({"cond": "B", "cond_matchfn": "funB"})
            if cn == "CAReducer":
                if not body or ast.unparse(body[0]) != "self._count += 1":
                    raise TranslationError(f"{where}: expected to start with self._count += 1")
                body = body[1:]
                out.append("(* fold starts with self._count += 1; the fold formula below reads the incremented value *)\n"
                           f"Definition {cn}_fold_count (self_count : Z) : Z :=\n  (Z.add self_count (1)%Z).\n")
            txt, used = _rc_value(where, body, kfns, env)
            if cond:
                if "cond_matchfn" not in txt:
                    raise TranslationError(f"{where}: the condition is not used as the match function")
                txt = f"(let cond_matchfn := (fun _ : T N => cond) in\n  {txt})"
            sig = _rc_sig(used) + " (obs : T N)" + (" (cond : bool)" if cond else "") + " (state : option (T N))"
            out.append(f"Definition {cn}_fold (N : Num){sig} : T N :=\n  {txt}.\n")
            record(path, where, f)
            # ---------------- interpolate
            f = meths["interpolate"]
            where = f"{cn}.interpolate"
            _rc_args(f, ["self", "prev_data", "next_data", "sample_at", "step_time"], where)
            txt, used = _rc_value(where, _nc_strip(f.body), kfns,
                                  {"prev_data": "T", "next_data": "T", "sample_at": "T", "step_time": "T"})
            out.append(f"Definition {cn}_interpolate (N : Num){_rc_sig(used)} (prev_data : T N) (next_data : T N) "
                       f"(sample_at : T N) (step_time : T N) : T N :=\n  {txt}.\n")
            record(path, where, f)
            # ---------------- CAReducer.clear
            if cn == "CAReducer":
                cb = [ast.unparse(st) for st in _nc_strip(meths["clear"].body)]
                if cb != ["self._count = 0", "FoldReducer.clear(self, keepshape=keepshape, **kwargs)"]:
                    raise TranslationError(f"{cn}.clear: expected self._count = 0; FoldReducer.clear(self, keepshape=keepshape, **kwargs)")
                out.append(f"(* clear zeroes the count, then clears as every fold reducer *)\n"
                           f"Definition {cn}_clear_count : Z :=\n  (0)%Z.\n")
                record(path, f"{cn}.clear", meths["clear"])
    out.append(_rc_base(repo, record))
    return "\n".join(out), man


def _rc_base(repo, record):
    """FoldReducer (base.py): the statement structure of forward / clear / peek / dump / view / push, over abstract record
    operations (S = the record `data_`, X = an observation / folded state):  only the exact statement shapes below."""
    tree = ast.parse(open(os.path.join(repo, RC_BASE)).read())
    cd = [n for n in tree.body if isinstance(n, ast.ClassDef) and n.name == "FoldReducer"]
    if len(cd) != 1:
        raise TranslationError("FoldReducer not found")
    meths = _sc_methods(cd[0])
    U = lambda f: [ast.unparse(st) for st in _nc_strip(f.body)]   # noqa

    def shape(name, expected):
        if name not in meths:
            raise TranslationError(f"FoldReducer.{name}: method not found")
        got = U(meths[name])
        if got != expected:
            raise TranslationError(f"FoldReducer.{name}: statement structure changed: expected {expected}, found {got}")
        record(RC_BASE, f"FoldReducer.{name}", meths[name])

    # the bodies are compared statement by statement after ast normalisation (docstrings dropped): any edit of the
    # decision structure, of an operation or of the order of operations fails closed
    shape("forward", ["if not self._initial:\n    self.push(self.fold(*inputs, self.peek()))\nelse:\n"
                      "    res = self.fold(*inputs, None)\n    if self.data_.ignored:\n"
                      "        self.data_.initialize(res.shape, fill=self.__fill)\n    self.push(res)\n    self._initial = False"])
    shape("clear", ["if keepshape:\n    self.data_.reset(self.__fill)\nelse:\n    self.data_.deinitialize(False)",
                    "self._initial = True"])
    shape("peek", ["if not self._initial:\n    return self.data_.peek()"])
    shape("dump", ["if not self._initial:\n    self.data_.align(0)\n    return self.data_.value.flip(0)"])
    shape("view", ["if not self._initial:\n    return self.data_.select(time, self.interpolate, tolerance=tolerance)"])
    shape("push", ["self.data_.push(inputs, inplace=self.inplace)"])
    ib = U(meths["__init__"])
    if "self.register_extra('_initial', True)" not in ib or "self.__fill = fill" not in ib:
        raise TranslationError("FoldReducer.__init__: expected register_extra('_initial', True) and self.__fill = fill")
    record(RC_BASE, "FoldReducer.__init__", meths["__init__"])
    return (
        "(* ---------------------------------------------------------------- FoldReducer (inferno/observe/reducers/base.py) *)\n"
        "(* statement structure over abstract record operations: S = the record data_, X = an observation / a folded state.\n"
        "   Emitted only when the method bodies have exactly the shapes listed in tools/translate.py (_rc_base). *)\n"
        "Definition FoldReducer_initial : bool :=\n  true.\n\n"
        "(* forward: (record, _initial) after the call; fold is the class's fold with the inputs already supplied *)\n"
        "Definition FoldReducer_forward {S X : Type} (fold : option X -> X) (peek : S -> option X) (push : X -> S -> S)\n"
        "    (ignored : S -> bool) (initialize : X -> S -> S) (self_initial : bool) (data_ : S) : S * bool :=\n"
        "  (if negb self_initial then (push (fold (peek data_)) data_, self_initial)\n"
        "   else (let res := fold None in\n"
        "         let data_ := (if ignored data_ then initialize res data_ else data_) in\n"
        "         let data_ := push res data_ in\n"
        "         (data_, false))).\n\n"
        "Definition FoldReducer_clear {S : Type} (reset_fill : S -> S) (deinitialize : S -> S) (keepshape : bool) (data_ : S) : S * bool :=\n"
        "  (let data_ := (if keepshape then reset_fill data_ else deinitialize data_) in\n"
        "   (data_, true)).\n\n"
        "Definition FoldReducer_peek {S X : Type} (peek : S -> option X) (self_initial : bool) (data_ : S) : option X :=\n"
        "  (if negb self_initial then peek data_ else None).\n\n"
        "Definition FoldReducer_dump {S Y : Type} (align0 : S -> S) (value_flip : S -> Y) (self_initial : bool) (data_ : S) : S * option Y :=\n"
        "  (if negb self_initial then (let data_ := align0 data_ in (data_, Some (value_flip data_))) else (data_, None)).\n\n"
        "Definition FoldReducer_view {S Y : Type} (select_interpolate : S -> Y) (self_initial : bool) (data_ : S) : option Y :=\n"
        "  (if negb self_initial then Some (select_interpolate data_) else None).\n")


# ============================================================================================================
# Connection classes (inferno/neural/connections/{linear,conv}.py): LinearDense, LinearDirect, LinearLateral, Conv2D.
# The methods are object plumbing over torch / einops operators that are outside the numeric subset, so they are
# emitted as ABSTRACT SYNTAX (type aexp / astmt below: which attribute is tested, which accessor is read, which
# operator is called with which operands in which order, which einops pattern string) - fail closed on any node or
# statement shape not listed here.  Numeric pieces inside the subset are emitted as functions: LinearLateral's mask
# (1 - torch.eye(size)) and its masked setters (value * self.mask).  Constructor defaults are emitted as literals.
CC_HEADER = """(* GENERATED by tools/translate.py from inferno/neural/connections/{linear,conv}.py -- do not edit *)
From Coq Require Import ZArith Bool List String Arith.
From Inferno Require Import Base.Num.
Import ListNotations.
Open Scope string_scope.

(* abstract syntax of the connection methods: expressions ... *)
Inductive aexp :=
| ASelf (attr : string)                               (* self.<attr> *)
| AVar (name : string)                                (* parameter / local *)
| AAttr (e : aexp) (attr : string)                    (* e.<attr> *)
| ASub (e idx : aexp)                                 (* e[idx] *)
| ACall (fn : string) (args : list aexp)              (* module-level operator: F.linear, ein.rearrange, torch.matmul, ... *)
| AMeth (e : aexp) (meth : string) (args : list aexp) (* e.<meth>(args); calling e itself is meth = "__call__" *)
| AKw (key : string) (e : aexp)                       (* keyword argument key=e *)
| AStar (e : aexp) | AKwStar (e : aexp)               (* *e, **e *)
| AGen (elt : aexp) (var : string) (iter : aexp)      (* (elt for var in iter) *)
| ABin (op : string) (a b : aexp)
| ACmp (op : string) (a b : aexp)
| ABoolOp (op : string) (l : list aexp)               (* a and b and ... / a or b or ... *)
| ANot (e : aexp)
| ATuple (l : list aexp)
| AStr (s : string) | AInt (z : Z) | ABool (b : bool) | ANone.
(* ... and statements *)
Inductive astmt :=
| SAssign (v : string) (e : aexp)
| SUnpack (vs : list string) (e : aexp)               (* a, b, c = e *)
| SAug (v : string) (op : string) (e : aexp)          (* v op= e  (in place) *)
| SIf (c : aexp) (t e : list astmt)
| SExpr (e : aexp)
| SReturn (e : aexp).
"""
CC_MODS = {"F", "ein", "torch", "math"}
CC_BIN = {ast.Add: "+", ast.Sub: "-", ast.Mult: "*", ast.Div: "/"}
CC_CMP = {ast.Is: "is", ast.IsNot: "is not", ast.Eq: "==", ast.NotEq: "!=", ast.Lt: "<", ast.LtE: "<=", ast.Gt: ">", ast.GtE: ">="}
CC_METHODS = ["inshape", "outshape", "selector", "like_bias", "like_input", "like_synaptic", "presyn_receptive",
              "postsyn_receptive", "forward"]
CC_CLASSES = [("inferno/neural/connections/linear.py", "LinearDense"), ("inferno/neural/connections/linear.py", "LinearDirect"),
              ("inferno/neural/connections/linear.py", "LinearLateral"), ("inferno/neural/connections/conv.py", "Conv2D")]


def _cc_q(s_):
    if '"' in s_ or "\\" in s_ or "\n" in s_:
        raise TranslationError(f"string literal {s_!r} cannot be emitted")
    return '"' + s_ + '"'


def _cc_dotted(n):
    """F.linear / torch.is_floating_point -> 'F.linear' when rooted at a known module alias, else None"""
    parts = []
    while isinstance(n, ast.Attribute):
        parts.append(n.attr)
        n = n.value
    if isinstance(n, ast.Name) and n.id in CC_MODS and parts:
        return ".".join([n.id] + parts[::-1])
    return None


def _cc_exp(where, n, pats):
    def E(x):
        return _cc_exp(where, x, pats)

    def L(xs):
        return "[" + "; ".join(xs) + "]"
    if isinstance(n, ast.Name):
        return f"(AVar {_cc_q(n.id)})"
    if isinstance(n, ast.Constant):
        v = n.value
        if v is None:
            return "ANone"
        if isinstance(v, bool):
            return f"(ABool {'true' if v else 'false'})"
        if isinstance(v, int):
            return f"(AInt ({v})%Z)"
        if isinstance(v, str):
            return f"(AStr {_cc_q(v)})"
        raise TranslationError(f"{where}: unsupported constant {v!r}")
    if isinstance(n, ast.UnaryOp) and isinstance(n.op, ast.USub) and isinstance(n.operand, ast.Constant) \
            and isinstance(n.operand.value, int) and not isinstance(n.operand.value, bool):
        return f"(AInt ({-n.operand.value})%Z)"
    if isinstance(n, ast.Attribute):
        if isinstance(n.value, ast.Name) and n.value.id == "self":
            return f"(ASelf {_cc_q(n.attr)})"
        if _cc_dotted(n) is not None:
            raise TranslationError(f"{where}: module attribute {ast.unparse(n)} used as a value")
        return f"(AAttr {E(n.value)} {_cc_q(n.attr)})"
    if isinstance(n, ast.Subscript):
        return f"(ASub {E(n.value)} {E(n.slice)})"
    if isinstance(n, ast.Tuple):
        return f"(ATuple {L([E(x) for x in n.elts])})"
    if isinstance(n, ast.Starred):
        return f"(AStar {E(n.value)})"
    if isinstance(n, ast.BinOp) and type(n.op) in CC_BIN:
        return f"(ABin {_cc_q(CC_BIN[type(n.op)])} {E(n.left)} {E(n.right)})"
    if isinstance(n, ast.Compare) and len(n.ops) == 1 and type(n.ops[0]) in CC_CMP:
        return f"(ACmp {_cc_q(CC_CMP[type(n.ops[0])])} {E(n.left)} {E(n.comparators[0])})"
    if isinstance(n, ast.BoolOp):
        return f"(ABoolOp {_cc_q('and' if isinstance(n.op, ast.And) else 'or')} {L([E(x) for x in n.values])})"
    if isinstance(n, ast.UnaryOp) and isinstance(n.op, ast.Not):
        return f"(ANot {E(n.operand)})"
    if isinstance(n, ast.GeneratorExp) and len(n.generators) == 1 and not n.generators[0].ifs \
            and isinstance(n.generators[0].target, ast.Name):
        g = n.generators[0]
        return f"(AGen {E(n.elt)} {_cc_q(g.target.id)} {E(g.iter)})"
    if isinstance(n, ast.Call):
        args = [E(a) for a in n.args]
        for k in n.keywords:
            args.append(f"(AKwStar {E(k.value)})" if k.arg is None else f"(AKw {_cc_q(k.arg)} {E(k.value)})")
        fn = _cc_dotted(n.func)
        if fn is None and isinstance(n.func, ast.Name):
            fn = n.func.id
        if fn is not None:
            if fn in ("ein.rearrange", "ein.einsum"):
                ps = [a.value for a in n.args if isinstance(a, ast.Constant) and isinstance(a.value, str)]
                if len(ps) != 1:
                    raise TranslationError(f"{where}: {fn} without exactly one literal pattern")
                pats.append(ps[0])
            return f"(ACall {_cc_q(fn)} {L(args)})"
        if isinstance(n.func, ast.Attribute):
            return f"(AMeth {E(n.func.value)} {_cc_q(n.func.attr)} {L(args)})"
        raise TranslationError(f"{where}: unsupported call {ast.unparse(n.func)}")
    raise TranslationError(f"{where}: unsupported expression {type(n).__name__}: {ast.unparse(n)[:80]}")


def _cc_block(where, stmts, pats):
    out = []
    for st in _nc_strip(stmts):
        if isinstance(st, ast.Assign) and len(st.targets) == 1 and isinstance(st.targets[0], ast.Name):
            out.append(f"SAssign {_cc_q(st.targets[0].id)} {_cc_exp(where, st.value, pats)}")
        elif isinstance(st, ast.Assign) and len(st.targets) == 1 and isinstance(st.targets[0], ast.Tuple) \
                and all(isinstance(x, ast.Name) for x in st.targets[0].elts):
            out.append(f"SUnpack [{'; '.join(_cc_q(x.id) for x in st.targets[0].elts)}] {_cc_exp(where, st.value, pats)}")
        elif isinstance(st, ast.AugAssign) and isinstance(st.target, ast.Name) and type(st.op) in CC_BIN:
            out.append(f"SAug {_cc_q(st.target.id)} {_cc_q(CC_BIN[type(st.op)])} {_cc_exp(where, st.value, pats)}")
        elif isinstance(st, ast.If):
            out.append(f"SIf {_cc_exp(where, st.test, pats)} {_cc_block(where, st.body, pats)} {_cc_block(where, st.orelse, pats)}")
        elif isinstance(st, ast.Return) and st.value is not None:
            out.append(f"SReturn {_cc_exp(where, st.value, pats)}")
        elif isinstance(st, ast.Expr) and isinstance(st.value, ast.Call):
            out.append(f"SExpr {_cc_exp(where, st.value, pats)}")
        else:
            raise TranslationError(f"{where}: unsupported statement {type(st).__name__}: {ast.unparse(st)[:80]}")
    return "[" + ";\n     ".join(out) + "]"


def _cc_deco(f):
    return [ast.unparse(d) for d in f.decorator_list]


def translate_connection_classes(repo: str = REPO):
    out, man = [CC_HEADER], []
    trees = {}
    for path, cn in CC_CLASSES:
        if path not in trees:
            trees[path] = ast.parse(open(os.path.join(repo, path)).read())
        cls = [n for n in trees[path].body if isinstance(n, ast.ClassDef) and n.name == cn]
        if len(cls) != 1:
            raise TranslationError(f"class {cn} not found in {path}")
        cdef = cls[0]
        fdefs = [n for n in cdef.body if isinstance(n, ast.FunctionDef)]
        out.append(f"(* ---------------------------------------------------------------- {path}: class {cn}"
                   f"({', '.join(ast.unparse(b) for b in cdef.bases)}) *)")
        out.append(f"Definition {cn}_bases : list string := [{'; '.join(_cc_q(ast.unparse(b)) for b in cdef.bases)}].")

        def record(name, f):
            man.append({"module": "ConnectionClasses", "source": path, "function": f"{cn}.{name}",
                        "lines": [f.lineno, f.end_lineno], "sha256": hashlib.sha256(ast.dump(f).encode()).hexdigest()})
        # methods (property getters and plain methods; setters are handled below)
        for m in CC_METHODS:
            cands = [f for f in fdefs if f.name == m and not any(d.endswith(".setter") for d in _cc_deco(f))]
            if len(cands) != 1:
                raise TranslationError(f"{cn}.{m}: expected exactly one definition, found {len(cands)}")
            f = cands[0]
            params = [a.arg for a in f.args.args] + ([f"*{f.args.vararg.arg}"] if f.args.vararg else []) + \
                     ([f"**{f.args.kwarg.arg}"] if f.args.kwarg else [])
            if f.args.kwonlyargs or f.args.defaults or params[0] != "self":
                raise TranslationError(f"{cn}.{m}: unexpected signature")
            pats = []
            body = _cc_block(f"{cn}.{m}", f.body, pats)
            out.append(f"Definition {cn}_{m}_params : list string := [{'; '.join(_cc_q(x) for x in params[1:])}].")
            out.append(f"Definition {cn}_{m}_is_property : bool := {'true' if 'property' in _cc_deco(f) else 'false'}.")
            out.append(f"Definition {cn}_{m} : list astmt :=\n    {body}.")
            out.append(f"Definition {cn}_{m}_patterns : list string := [{'; '.join(_cc_q(x) for x in pats)}].")
            record(m, f)
        # constructor defaults
        init = [f for f in fdefs if f.name == "__init__"]
        if len(init) != 1:
            raise TranslationError(f"{cn}.__init__ not found")
        a = init[0].args
        pairs = list(zip([x.arg for x in a.args][len(a.args) - len(a.defaults):], a.defaults)) + \
            [(x.arg, d) for x, d in zip(a.kwonlyargs, a.kw_defaults) if d is not None]
        out.append(f"(* {cn}.__init__: positional parameters, keyword-only parameters, defaults of the optional ones *)")
        out.append(f"Definition {cn}_init_positional : list string := [{'; '.join(_cc_q(x.arg) for x in a.args[1:])}].")
        out.append(f"Definition {cn}_init_kwonly : list string := [{'; '.join(_cc_q(x.arg) for x in a.kwonlyargs)}].")
        for name, d in pairs:
            out.append(f"Definition {cn}_default_{name} : aexp := {_cc_exp(f'{cn}.__init__ default {name}', d, [])}.")
        record("__init__ (signature, defaults)", init[0])
        # LinearLateral: the mask buffer and the masked setters, as functions over the numeric signature
        if cn == "LinearLateral":
            regs = [st for st in ast.walk(init[0]) if isinstance(st, ast.Call) and ast.unparse(st.func) == "self.register_buffer"
                    and st.args and isinstance(st.args[0], ast.Constant) and st.args[0].value == "mask"]
            if len(regs) != 1 or len(regs[0].args) != 2:
                raise TranslationError("LinearLateral.__init__: mask buffer registration not found")
            e = regs[0].args[1]
            ok = (isinstance(e, ast.BinOp) and isinstance(e.op, ast.Sub) and isinstance(e.left, ast.Constant) and e.left.value == 1
                  and not isinstance(e.left.value, bool)
                  and isinstance(e.right, ast.Call) and ast.unparse(e.right.func) == "torch.eye" and len(e.right.args) == 1
                  and not e.right.keywords and ast.unparse(e.right.args[0]) == "size")
            if not ok:
                raise TranslationError(f"LinearLateral mask expression {ast.unparse(e)} is not `1 - torch.eye(size)`")
            out.append("(* mask buffer: entry (i, j) of `1 - torch.eye(size)` *)")
            out.append("Definition LinearLateral_mask (N : Num) (i j : nat) : T N :=\n"
                       "  (sub N (one N) (if Nat.eqb i j then one N else zero N)).")
            out.append(f"Definition LinearLateral_mask_persistent : aexp := "
                       f"{_cc_exp('LinearLateral mask', [k.value for k in regs[0].keywords if k.arg == 'persistent'][0], [])}.")
            for pn in ("weight", "delay"):
                sets = [f for f in fdefs if f.name == pn and f"{pn}.setter" in _cc_deco(f)]
                gets = [f for f in fdefs if f.name == pn and "property" in _cc_deco(f)]
                if len(sets) != 1 or len(gets) != 1:
                    raise TranslationError(f"LinearLateral.{pn}: getter / setter not found")
                body = _nc_strip(sets[0].body)
                if len(body) != 1 or not isinstance(body[0], ast.Expr) or not isinstance(body[0].value, ast.Call):
                    raise TranslationError(f"LinearLateral.{pn} setter: unexpected body")
                call = body[0].value
                if ast.unparse(call.func) != f"WeightBiasDelayMixin.{pn}.fset" or len(call.args) != 2 \
                        or ast.unparse(call.args[0]) != "self" or call.keywords:
                    raise TranslationError(f"LinearLateral.{pn} setter: does not delegate to WeightBiasDelayMixin.{pn}.fset(self, ...)")
                v = call.args[1]
                if not (isinstance(v, ast.BinOp) and isinstance(v.op, ast.Mult) and ast.unparse(v.left) == "value"
                        and ast.unparse(v.right) == "self.mask"):
                    raise TranslationError(f"LinearLateral.{pn} setter: assigned value {ast.unparse(v)} is not `value * self.mask`")
                out.append(f"(* {pn} setter: WeightBiasDelayMixin.{pn}.fset(self, value * self.mask), element-wise *)")
                out.append(f"Definition LinearLateral_{pn}_set (N : Num) (value : T N) (self_mask : T N) : T N :=\n"
                           f"  (mul N value self_mask).")
                gb = _cc_block(f"LinearLateral.{pn} getter", gets[0].body, [])
                out.append(f"Definition LinearLateral_{pn}_get : list astmt :=\n    {gb}.")
                record(f"{pn} (getter, setter)", sets[0])
        out.append("")
    return "\n".join(out), man


SPECIAL = {"Conv": translate_conv_outsize, "ConnectionClasses": translate_connection_classes, "SpikeMath": translate_spikemath,
           "Constraints": translate_constraints, "NeuronClasses": translate_neuron_classes,
           "SynapseClasses": translate_synapse_classes, "ReducerClasses": translate_reducer_classes}


def generate(outdir: str, modules: list[str] | None = None, repo: str = REPO):
    """Translate the requested modules; returns (manifest, errors)."""
    os.makedirs(outdir, exist_ok=True)
    manifest, errors = [], {}
    for m in (modules or (list(MODULES) + list(SPECIAL))):
        try:
            if m in SPECIAL:
                t2, m2 = SPECIAL[m](repo)
                txt = t2 if t2.startswith("(* GENERATED") else \
                    ("(* GENERATED by tools/translate.py -- do not edit *)\nFrom Coq Require Import ZArith Bool.\n"
                     "From Inferno Require Import Base.Num.\n\n" + t2)
                man = m2 if isinstance(m2, list) else [m2]
            else:
                txt, man = translate_module(m, repo)
            if m == "Infra":
                t2, m2 = translate_recordsz(repo)
                txt += "\n" + t2
                man.append(m2)
        except (TranslationError, SyntaxError, OSError) as ex:
            errors[m] = f"{type(ex).__name__}: {ex}"
            continue
        p = os.path.join(outdir, m + ".v")
        old = open(p).read() if os.path.exists(p) else None
        if old != txt:
            with open(p, "w") as fh:
                fh.write(txt)
        manifest += man
    return manifest, errors


if __name__ == "__main__":
    out = sys.argv[1] if len(sys.argv) > 1 else os.path.join(os.path.dirname(__file__), "..", "coq", "Gen")
    man, errs = generate(out, sys.argv[2:] or None)
    json.dump(man, open(os.path.join(out, "manifest.json"), "w"), indent=1)
    for m, e in errs.items():
        print(f"TRANSLATION FAILED {m}: {e}")
    print(f"{len(man)} functions translated, {len(errs)} modules failed")
    sys.exit(1 if errs else 0)
