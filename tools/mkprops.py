#!/usr/bin/env python3
"""Developer tool (not used by the checks): create obligation files coq/Props/<PID>/<thm>.v.
Each file restates one theorem in full (the statement is printed by Coq from the proof development once,
then committed - later edits of the proof files cannot weaken it silently), closes it by reference,
and prints its assumptions.

usage: mkprops.py PID "<imports>" Module.Path thm1 thm2 ...
"""
import os, re, subprocess, sys
pid, imports, modpath = sys.argv[1], sys.argv[2], sys.argv[3]
names = sys.argv[4:]
COQ = os.path.join(os.path.dirname(os.path.abspath(__file__)), "..", "coq")
os.makedirs(os.path.join(COQ, "Props", pid), exist_ok=True)
def attempt(nm, extra):
    src = f"{imports}\nSet Printing Width 100.\nSet Printing Depth 1000.\n{extra}Check @{nm}.\n"
    p = f"/tmp/_mk_{os.getpid()}.v"
    open(p, "w").write(src)
    r = subprocess.run(["coqc", "-Q", COQ, "Inferno", p], capture_output=True, text=True)
    if r.returncode:
        print(nm, "FAILED", r.stderr[-500:]); return True
    out = r.stdout
    i = out.index(":")
    ty = out[i + 1:].rstrip()
    ty = re.sub(r"\n     ", "\n", ty)
    body = (f"(* Obligation {pid}/{nm}.  Statement as printed by Coq from {modpath}; proof by reference.\n"
            f"   This file contains nothing else, so the statement cannot be weakened quietly. *)\n"
            f"{imports}\n"
            f"Theorem {nm} :{ty}.\nProof. exact (@{modpath}.{nm}). Qed.\nPrint Assumptions {nm}.\n")
    f = os.path.join(COQ, "Props", pid, nm + ".v")
    open(f, "w").write(body)
    r = subprocess.run(["coqc", "-Q", COQ, "Inferno", f], capture_output=True, text=True)
    if r.returncode and not extra:
        return False
    print(nm, "ok" + (" (explicit implicits)" if extra else "") if r.returncode == 0 else "REPARSE FAILED: " + r.stderr[-600:])
    for ext in (".v", ".vo", ".glob", ".vok", ".vos"):
        try: os.remove(p[:-2] + ext)
        except OSError: pass
    return True


for nm in names:
    if not attempt(nm, ""):
        attempt(nm, "Set Printing Implicit.\n")
