#!/bin/bash
# usage: tools/run_seeds.sh [pattern]   -- run every kept seeded change against its property's quick check (scratch copies),
# and record the outcome in seeded/<id>/meta.json under "final_rerun". Developer tool; takes a few hours for all seeds.
cd /verif
for d in seeded/${1:-*}; do
  id=$(basename $d); pid=${id%%-*}
  out=$(TAIL=3 tools/mutcheck.sh $d/patch.diff $pid 2>&1 | grep -v "^KNOWN")
  ex=$(echo "$out" | grep -o "exit=[0-9]*" | tail -1)
  line=$(echo "$out" | grep "quick:" | tail -1)
  python3 - "$d/meta.json" "$ex" "$line" <<'PY'
import json,sys,time
p,ex,line=sys.argv[1:4]
m=json.load(open(p)); m["final_rerun"]={"exit":ex,"summary":line,"when":time.strftime("%Y-%m-%d %H:%M")}
json.dump(m,open(p,"w"),indent=1)
PY
  echo "$id $ex $line"
done
