#!/bin/bash
# usage: tools/soak.sh "<seed> <seed> ..." [PID...]   -- false-alarm soak: run the quick checks against /repo's HEAD (a scratch
# worktree, unpatched) with other generator seeds (VERIF_SEED) than the registered default, in a scratch copy of /verif.
# Every line must say exit=0: a non-zero exit here is either a genuine defect of the unchanged code or a false alarm of the check.
set -u
SEEDS=$1; shift
PIDS=${*:-C01 C02 C03 C04 C05 C06 C07 C08 C09 C10 C11 C12 C13 C14 C15 C16 C17 C18 C19 C20}
D=$(mktemp -d /tmp/soak.XXXXXX)
git -C /repo worktree add --detach "$D/repo" HEAD >/dev/null 2>&1 || { echo "worktree failed"; exit 2; }
mkdir -p "$D/verif" && git -C /verif archive HEAD | tar -x -C "$D/verif"   # the committed machinery, not work in progress
( cd "$D/verif" && INFERNO_REPO="$D/repo" /venv/bin/python tools/check.py --setup >/dev/null 2>&1 ) || { echo "setup failed"; }
for S in $SEEDS; do
  for P in $PIDS; do
    out=$( cd "$D/verif" && VERIF_SEED=$S INFERNO_REPO="$D/repo" timeout 3600 /venv/bin/python tools/check.py "$P" --tier ${TIER:-quick} 2>&1 ); r=$?
    echo "seed=$S $P exit=$r $(echo "$out" | grep "${TIER:-quick}:" | tail -1)"
    [ $r -ne 0 ] && { echo "$out" | grep -v "^KNOWN" | tail -15; mkdir -p /verif/build/soak; cp -r "$D/verif/replays" "/verif/build/soak/replays_${S}_${P}" 2>/dev/null; }
  done
done
git -C /repo worktree remove --force "$D/repo" >/dev/null 2>&1
rm -rf "$D"
