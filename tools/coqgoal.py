#!/usr/bin/env python3
"""usage: coqgoal.py file.v LINE [section-name] -- print the proof state just before LINE (1-based)"""
import sys, subprocess, os, re
f, n = sys.argv[1], int(sys.argv[2])
lines = open(f).read().split("\n")[: n - 1]
txt = "\n".join(lines) + "\nShow.\n"
p = "/tmp/_goal_%d.v" % os.getpid()
open(p, "w").write(txt)
r = subprocess.run(["coqc", "-Q", "/verif/coq", "Inferno", p], capture_output=True, text=True)
out = r.stdout + r.stderr
print(out[-6000:])
for ext in (".v", ".vo", ".glob", ".vok", ".vos"):
    try: os.remove(p[:-2] + ext)
    except OSError: pass
