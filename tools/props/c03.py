"""C03 - neuron step contract (threshold, reset, absolute refractory period, spike flag):
case generator, Coq rendering, correspondence (model in Coq vs the real classes) and the direct oracle."""
from __future__ import annotations
import copy, glob, json, math, os, random
from collections import Counter
from fractions import Fraction
import framework as F

ID = "C03"
GEN = ["NeuronDynamics", "NeuronAdaptation", "NeuronApply", "NeuronClasses"]
LEVEL = "proof"
TECHNIQUE = ("Coq proof over the reals about the kernels translated from neuron_dynamics.py / neuron_adaptation.py on every run: "
             "case-complete characterisation of both thresholding kernels against a three-case spec, refractory-window induction over "
             "arbitrary input/threshold/lock histories lifted by a simulation theorem to whole populations (all 8 classes, any batch, "
             "adaptation on/off), invariants over arbitrary operation sequences, ODE-exactness of the linear integrator, adaptation "
             "closed forms; class wiring (which kernel with which arguments, refrac_lock, order of state updates, adaptation guard, clear, "
             "spike) re-translated from the eight classes' methods on every run and proved equal to the model (54 tie obligations, one proof file per class); "
             "broadcasting / batch reduction tied by differential correspondence (vm_compute vs the real classes)")
LEVEL_TEXT = ("Machine-checked proof (Coq 8.16, real-number reading of the generated kernels; 52 theorems + non-vacuity + 54 model = generated-code equalities) that one step spikes "
              "exactly when the cell is out of its refractory period and the integrated voltage reaches the (adapted) threshold; that a spike "
              "resets voltage (constant or linear reset) and refractory time in the same step; that for EVERY input/threshold/lock history no "
              "further spike occurs - and with locking the voltage does not move - before step t + max(1, ceil(refrac_t/dt)), that the "
              "remaining time counts down exactly, and that the cell is free again exactly at that step (tightness, minimum inter-spike "
              "interval); that the remaining refractory time stays in [0, refrac_t] and the spike attribute equals the returned tensor after "
              "every forward of every operation sequence (forward/clear/train) when refrac_t > 0, with a refutation witness and a general "
              "all-True theorem for refrac_t = 0 (known finding); all lifted from one cell to the whole-population model of the eight "
              "classes by a simulation theorem. Integration kernels: documented formulas, the linear one is the exact ODE solution "
              "(semigroup, n-step closed form, first-spike time under constant drive, no spike for sub-threshold steady states), the others "
              "are Euler steps. Adaptation kernels: frozen in the refractory period, documented updates otherwise, sum-over-spikes closed "
              "form, column-level batch-mean form. The class wiring is tied to the source twice: apply_adaptive_currents/_thresholds and, for "
              "each of the eight classes, _integrate_v, the forward step of one cell (thresholding kernel, every argument, refrac_lock, "
              "values left in voltage/refrac), the per-element adaptation update (reading the NEW refrac/voltage) and its guard, clear "
              "and spike are GENERATED from the methods' source on every run (Gen/NeuronApply.v, Gen/NeuronClasses.v) and proved equal "
              "to the model for every numeric instance (tie_* obligations, incl. the assembled column step of each class); the lifting "
              "to batch/neuron/adaptation axes and the batch mean are hand-modelled and tied by the differential correspondence check; "
              "a Python restatement of the property is the direct oracle / failing-input search.")
LEVEL_NOTE = ("Trusted: Coq kernel; translator for the 5 dynamics + 3 adaptation kernels, the 2 apply_adaptive_* reductions (torch.sum over "
              "the last axis read as tsum over one neuron's K values) and the pattern-checked extractor of the eight classes' "
              "_integrate_v / forward / clear / spike (fail-closed on any other statement shape; self.<attr> reads become parameters, "
              "state assignments are tracked) - all re-run every check, generated kernels are also run against the real functions "
              "through the correspondence; in the hand-written model C03/Neuron.v only the tensor-axis lifting (map2 over the batch, "
              "map3/map4 over K, batch mean of the adaptation setters = torch.mean over dim 0), the constructor domains (ctor_ok), the "
              "initial state, the external state writes (setters, in-place edit, load_state_dict) and the train flag remain validated by "
              "correspondence only (generator coverage); torch element-wise / broadcasting semantics modelled by their meaning. Axioms: standard-library reals "
              "(+ Classical_Prop.classic through Flocq/Coquelicot). Theorems are exact-arithmetic (R) statements; binary64 rounding is "
              "not proved (the oracle checks the window with ceil computed on the exact ratio of the two doubles minus 1e-9, and tolerates "
              "1e-9-relative ambiguity at the threshold except on exactly representable boundary cases). NOT covered: dt setter, "
              "state_dict, batch_reduction other than torch.mean, float32, malformed input shapes (the model truncates, torch raises or "
              "broadcasts). Expected known finding: spike attribute with refrac_t = 0 (signature kind=spike_attr_refrac0).")
TRUSTED = ["tools/translate.py NeuronClasses extractor: reading of the method bodies of linear.py / nonlinear.py / mixins.py per element "
           "(one neuron, one batch sample, one adaptation index); broadcasting over batch / neuron / K axes and the batch reduction in "
           "the adaptation setters are NOT generated (hand-written in C03/Neuron.v, validated by the correspondence)"]
HEADER = ("From Coq Require Import List ZArith Bool PrimFloat.\n"
          "From Inferno Require Import Base.Num Base.NumF C03.Neuron C03.NeuronExec.\n"
          "Import ListNotations.\nOpen Scope float_scope.\n")
IMPL = os.path.join(F.VERIF, "tools", "impl", "c03_impl.py")

NAMES = ["LIF", "ALIF", "GLIF1", "GLIF2", "QIF", "Izhikevich", "EIF", "AdEx"]
LINEAR, QUAD, EXPO = (0, 1, 2, 3), (4, 5), (6, 7)
THRESH_ADAPT, CUR_ADAPT = (1, 3), (5, 7)
SHAPES = [[1], [2], [3], [2, 2], [4]]
PKEYS = ["step_time", "rest_v", "reset_v", "reset_v_add", "reset_v_mul", "thresh_v", "refrac_t", "time_constant",
         "resistance", "crit_v", "affinity", "rheobase_v", "sharpness"]
LKEYS = ["tc_adaptation", "adapt_vc_coupling", "adapt_increment"]


def nel(shape):
    n = 1
    for s in shape:
        n *= s
    return n


# ------------------------------------------------------------------ generator
def gen_params(rng, cls, exact):
    p = {}
    if exact:
        dt = rng.choice([1.0, 0.5, 0.25])
        p["step_time"] = dt
        p["time_constant"] = dt * rng.choice([2, 4])
        p["rest_v"] = -4.0
        p["reset_v"] = rng.choice([-6.0, -4.0, -5.5])
        p["thresh_v"] = rng.choice([2.0, 4.0])
        p["resistance"] = rng.choice([1.0, 2.0, 0.5, -1.0])
        p["crit_v"] = rng.choice([-2.0, -3.0, p["thresh_v"]])
        p["affinity"] = rng.choice([0.5, 1.0, 0.25])
        p["rheobase_v"] = rng.choice([-2.0, 0.0])
        p["sharpness"] = rng.choice([1.0, 2.0])
        p["reset_v_add"] = rng.choice([0.0, 2.0, -1.0])
        p["reset_v_mul"] = rng.choice([0.0, 0.5, 1.0, -0.5])
        K = rng.choice([1, 2])
        p["tc_adaptation"] = [rng.choice([2.0, 4.0, 0.5]) for _ in range(K)]
        p["adapt_vc_coupling"] = [rng.choice([0.0, 0.5, -0.25]) for _ in range(K)]
        p["adapt_increment"] = [rng.choice([0.0, 1.0, 0.5, -0.5]) for _ in range(K)]
    else:
        dt = rng.choice([1.0, 0.5, 0.1, 1.3, 0.25])
        p["step_time"] = dt
        p["time_constant"] = rng.choice([20.0, 10.3, 5.0, 2 * dt, 0.7])
        p["rest_v"] = rng.choice([-60.0, -60.1, -70.3, 0.0])
        p["thresh_v"] = p["rest_v"] + rng.choice([10.0, 9.7, 15.2, 1.0])
        p["reset_v"] = rng.choice([p["rest_v"] - 5.0, p["rest_v"] - 0.3, p["rest_v"], p["rest_v"] + 0.4])
        p["resistance"] = rng.choice([1.0, 1.0, 0.7, 2.5, -1.0])
        span = p["thresh_v"] - p["rest_v"]
        p["crit_v"] = rng.choice([p["rest_v"] + 0.5 * span, p["rest_v"] + 0.33 * span, p["thresh_v"]])
        p["affinity"] = rng.choice([0.04, 0.1, 0.5])
        p["rheobase_v"] = rng.choice([p["rest_v"] + 0.5 * span, p["rest_v"] + 0.8 * span, p["thresh_v"]])
        p["sharpness"] = rng.choice([1.0, 2.0, 0.7])
        p["reset_v_add"] = rng.choice([0.0, 5.0, -3.1, 0.3])
        p["reset_v_mul"] = rng.choice([0.0, 0.5, 1.0, -0.2, 1.5])
        K = rng.choice([1, 2])
        if cls == 3:
            p["tc_adaptation"] = [rng.choice([0.1, 0.03, 1.0, 0.5]) for _ in range(K)]     # rate constants
        else:
            p["tc_adaptation"] = [rng.choice([10.0, 5.5, 100.0, dt]) for _ in range(K)]
        p["adapt_vc_coupling"] = [rng.choice([0.0, 0.2, -0.1, 1.0]) for _ in range(K)]
        p["adapt_increment"] = [rng.choice([0.0, 1.0, 2.3, -0.5, 5.0]) for _ in range(K)]
    dt = p["step_time"]
    p["refrac_t"] = rng.choice([0.0, dt / 2, dt, 2 * dt, 2.5 * dt, 3 * dt, 5 * dt, 0.37, 4.2 * dt])
    if cls not in THRESH_ADAPT + CUR_ADAPT:
        p["tc_adaptation"], p["adapt_vc_coupling"], p["adapt_increment"] = [], [], []
    if cls not in CUR_ADAPT:
        p["adapt_vc_coupling"] = []
    return p


def one_step_current(p, cls, v, target):
    """input current for which one integration step from voltage v lands (in exact arithmetic) on `target`;
    for the linear integrator the fixed point v = rest + R*I is used (v must equal target)"""
    R = p["resistance"]
    k = p["step_time"] / p["time_constant"]
    if cls in LINEAR:
        return (target - p["rest_v"]) / R
    if cls in QUAD:
        f = p["affinity"] * (v - p["rest_v"]) * (v - p["crit_v"])
    else:
        try:
            f = -(v - p["rest_v"]) + p["sharpness"] * math.exp((v - p["rheobase_v"]) / p["sharpness"])
        except OverflowError:
            f = math.inf
    return ((target - v) / k - f) / R


def gen_case(rng: random.Random, kind: str):
    cls = rng.randrange(8)
    exact = kind == "exact"
    p = gen_params(rng, cls, exact)
    shape = rng.choice(SHAPES)
    n = nel(shape)
    B = rng.choice([1, 1, 2, 3])
    case = {"cls": cls, "p": p, "shape": shape, "batch": B, "v0": None, "ops": [], "exact": exact, "kind": kind}
    if kind == "malformed":
        # leave the documented domain of exactly one hyperparameter: the constructor must reject it
        bad = rng.choice(["step_time", "refrac_t", "time_constant", "resistance", "rest_v", "reset_v", "adapt_tc",
                          "crit", "aff"])
        if bad == "step_time":
            p["step_time"] = rng.choice([0.0, -1.0])
        elif bad == "refrac_t":
            p["refrac_t"] = -0.5
        elif bad == "time_constant":
            p["time_constant"] = rng.choice([0.0, -2.0])
        elif bad == "resistance":
            p["resistance"] = 0.0
        elif bad == "rest_v":
            p["rest_v"] = p["thresh_v"] + rng.choice([0.0, 1.0])
        elif bad == "reset_v":
            p["reset_v"] = p["thresh_v"] + rng.choice([0.0, 1.0])
        elif bad == "adapt_tc" and p["tc_adaptation"]:
            p["tc_adaptation"][-1] = rng.choice([0.0, -1.0])
        elif bad == "crit":
            p["crit_v"] = p["thresh_v"] + 1.0
            p["rheobase_v"] = p["thresh_v"] + 1.0
        elif bad == "aff":
            p["affinity"] = 0.0
            p["sharpness"] = 0.0
    lock0 = rng.random() < 0.7
    adapt0 = rng.choice([True, True, False, None])
    steps = rng.randint(4, 45)
    dt, tau, R = p["step_time"], p["time_constant"], p["resistance"]
    span = p["thresh_v"] - p["rest_v"]
    i_ss = span / R if R else 1.0                    # steady state of the linear model reaches the threshold
    i_1s = i_ss * (tau / dt if dt > 0 and tau > 0 else 1.0)   # one Euler step from rest reaches it
    profiles = [[rng.choice(["zero", "supra", "supra", "random", "huge", "neg", "near", "mixed", "mixed"])
                 for _ in range(B)] for _ in range(n)]
    if exact:
        # step 0: voltages assigned through the setter so that the first integration lands exactly on, just below
        # and just above the threshold (all values small dyadic rationals: every evaluation order is exact)
        if cls in LINEAR:
            v0 = [[p["thresh_v"] for _ in range(B)] for _ in range(n)]
        elif cls in QUAD:
            v0 = [[rng.choice([p["rest_v"], p["rest_v"] + 1.0, -1.0]) for _ in range(B)] for _ in range(n)]
        else:
            v0 = [[p["rheobase_v"] for _ in range(B)] for _ in range(n)]     # exp(0) = 1 exactly
        case["v0"] = v0
        xs = []
        for i in range(n):
            row = []
            for b in range(B):
                eps = rng.choice([0.0, 0.0, 0.0, -2.0 ** -10, 2.0 ** -10, -0.5, 0.25])
                if cls in LINEAR:
                    # fixed point: v0 - rest - R*I = 0 exactly when eps = 0; otherwise the decay is inexact, and a
                    # perturbation of the current moves the voltage away from the threshold by eps*R*(1-decay)
                    row.append(one_step_current(p, cls, v0[i][b], p["thresh_v"]) + (eps if eps in (0.0, -0.5, 0.25) else 0.0))
                else:
                    row.append(one_step_current(p, cls, v0[i][b], p["thresh_v"]) + eps)
            xs.append(row)
        case["ops"].append(["train", False])          # adaptation off for the exact first step unless asked
        case["ops"].append(["fwd", False, lock0, xs])
        steps = rng.randint(2, 12)
    for t in range(steps):
        u = rng.random()
        if u < 0.04:
            case["ops"].append(["clear", rng.random() < 0.5])
            continue
        if u < 0.08:
            case["ops"].append(["train", rng.random() < 0.5])
            continue
        if u < 0.17 and kind != "malformed":
            case["ops"].append(gen_state_op(rng, case))
            continue
        lock = lock0 if rng.random() < 0.9 else (not lock0)
        adapt = adapt0 if rng.random() < 0.85 else rng.choice([True, False, None])
        xs = []
        for i in range(n):
            row = []
            for b in range(B):
                pr = profiles[i][b]
                if pr == "mixed":
                    pr = rng.choice(["zero", "supra", "random", "huge", "neg", "near"])
                if exact:
                    row.append(rng.randint(-80, 160) / 4.0)
                elif pr == "zero":
                    row.append(0.0)
                elif pr == "supra":
                    row.append(rng.choice([i_ss, i_1s]) * rng.uniform(1.2, 6.0))
                elif pr == "random":
                    row.append(rng.choice([i_ss, i_1s]) * rng.gauss(0.5, 1.5))
                elif pr == "huge":
                    row.append(rng.choice([-1, 1, 1]) * 10.0 ** rng.randint(4, 12) * rng.uniform(1, 9))
                elif pr == "neg":
                    row.append(-abs(i_ss) * rng.uniform(0.1, 20.0) * (1 if R > 0 else -1))
                else:  # near-threshold drive
                    row.append(rng.choice([i_ss, i_1s]) * (1.0 + rng.choice([-1, 1]) * 10.0 ** rng.randint(-9, -3)))
            xs.append(row)
        case["ops"].append(["fwd", adapt, lock, xs])
    return case


def rand_mat(rng, rows, cols, choices):
    return [[rng.choice(choices) for _ in range(cols)] for _ in range(rows)]


def refrac_choices(p):
    R, dt = p["refrac_t"], p["step_time"]
    return [0.0, 0.0, R, R / 2] + ([dt] if dt <= R else [])


def gen_state_op(rng, case, only=None):
    """state written from outside between two steps: public setters, in-place edit of the adaptation tensor,
    load_state_dict from a twin"""
    p, cls, B = case["p"], case["cls"], case["batch"]
    n = nel(case["shape"])
    K = len(p["adapt_increment"]) if cls in THRESH_ADAPT + CUR_ADAPT else 0
    kinds = ["set_v", "set_r", "load", "load"] + (["set_adapt", "add_adapt", "add_adapt"] if K else [])
    k = only or rng.choice(kinds)
    span = p["thresh_v"] - p["rest_v"]
    vch = [p["rest_v"], p["rest_v"] + 0.4 * span, p["rest_v"] - 0.3 * span, p["thresh_v"] - 0.01 * span, p["reset_v"]]
    ach = [0.0, 1.5, 4.0, -2.0, 8.0, 0.25]
    if k == "set_v":
        return ["set_v", rand_mat(rng, n, B, vch)]
    if k == "set_r":
        return ["set_r", rand_mat(rng, n, B, refrac_choices(p))]
    if k == "set_adapt":
        return ["set_adapt", rand_mat(rng, n, K, ach)]
    if k == "add_adapt":
        return ["add_adapt", rand_mat(rng, n, K, [-3.0, 2.5, 6.0, 0.5])]
    return ["load", rand_mat(rng, n, B, vch), rand_mat(rng, n, B, refrac_choices(p)),
            rand_mat(rng, n, K, ach) if K else [[] for _ in range(n)]]


def gen_statemix(rng: random.Random):
    """adaptive classes; adaptation frozen (eval mode / adapt=False) for a quiet step, then the adaptation state is
    replaced from outside (in-place edit, load_state_dict, setter) and the next step is driven so that the
    integrated voltage lands half-way between the threshold before and after the change (for current adaptations:
    the adapted input lands on either side of the rheobase current): the step must use the values stored NOW."""
    cls = rng.choice([1, 1, 3, 3, 5, 7])
    p = gen_params(rng, cls, False)
    if p["resistance"] < 0:
        p["resistance"] = -p["resistance"]
    shape = rng.choice(SHAPES)
    n = nel(shape)
    B = rng.choice([1, 2, 3])
    K = len(p["adapt_increment"])
    case = {"cls": cls, "p": p, "shape": shape, "batch": B, "v0": None, "ops": [], "exact": False, "kind": "statemix"}
    ops = case["ops"]
    lock = rng.random() < 0.7
    zeros = [[0.0] * B for _ in range(n)]
    frozen_by = rng.choice(["eval", "adapt_false", "eval_none"])
    if frozen_by != "adapt_false":
        ops.append(["train", False])
    a_flag = {"eval": None, "adapt_false": False, "eval_none": None}[frozen_by]
    if rng.random() < 0.4:      # some learning first
        ops.append(["train", True])
        span = p["thresh_v"] - p["rest_v"]
        for _ in range(rng.randint(1, 3)):
            ops.append(["fwd", True, lock, [[span / p["resistance"] * p["time_constant"] / p["step_time"] * 2.0] * B for _ in range(n)]])
        if frozen_by != "adapt_false":
            ops.append(["train", False])
    cur_ad = None   # unknown after learning; the probe below works with an explicit replacement of the state
    for rep in range(rng.randint(1, 3)):
        for _ in range(rng.randint(1, 2)):
            ops.append(["fwd", a_flag, lock, zeros])                      # quiet step(s) with frozen adaptations
        how = rng.choice(["load", "load", "add_adapt", "add_adapt", "set_adapt"])
        total = rng.choice([8.0, 6.0, -4.0, 12.0, -6.0])
        if how == "add_adapt":
            if cur_ad is None:   # make the stored values known first (through the setter), take a quiet step, then edit in place
                cur_ad = [[0.0] * K for _ in range(n)]
                ops.append(["set_adapt", [list(r) for r in cur_ad]])
                ops.append(["fwd", a_flag, lock, zeros])
            delta = [[total / K] * K for _ in range(n)]
            ops.append(["add_adapt", delta])
            before = [sum(r) for r in cur_ad]
            cur_ad = [[a + d for a, d in zip(ra, rd)] for ra, rd in zip(cur_ad, delta)]
        else:
            before = [sum(r) for r in cur_ad] if cur_ad is not None else [0.0] * n
            new = [[(b_ + total) / K] * K for b_ in before]
            if how == "load":
                ops.append(["load", [[p["rest_v"]] * B for _ in range(n)], zeros, new])
            else:
                ops.append(["set_adapt", new])
            cur_ad = new
        after = [sum(r) for r in cur_ad]
        # probe step
        R, dt, tau = p["resistance"], p["step_time"], p["time_constant"]
        if cls in THRESH_ADAPT:
            tgt = [p["thresh_v"] + (b_ + a_) / 2 for b_, a_ in zip(before, after)]
            ops.append(["set_v", [[t_] * B for t_ in tgt]])
            ops.append(["set_r", zeros])
            ops.append(["fwd", a_flag, lock, [[(t_ - p["rest_v"]) / R] * B for t_ in tgt]])
        else:
            ops.append(["set_v", [[p["rest_v"]] * B for _ in range(n)]])
            ops.append(["set_r", zeros])
            i_star = one_step_current(p, cls, p["rest_v"], p["thresh_v"])
            ops.append(["fwd", a_flag, lock, [[i_star + (b_ + a_) / 2] * B for b_, a_ in zip(before, after)]])
        if rng.random() < 0.5:
            ops.append(["train", True])
            ops.append(["fwd", None, lock, zeros])
            cur_ad = None
            if frozen_by != "adapt_false":
                ops.append(["train", False])
    return case


def gen_cases(rng, n):
    out = []
    for i in range(n):
        if i % 6 == 4:
            out.append(gen_statemix(rng))
            continue
        kind = "malformed" if i % 12 == 11 else ("exact" if i % 4 == 1 else "random")
        out.append(gen_case(rng, kind))
    return out


def small_scope_cases():
    """thorough tier: every class x refrac_t in {0, dt/2, dt, 2dt, 2.5dt} x lock x adapt, constant strong drive and a
    drive switched off/on (validation of the model only; the theorems are unbounded)"""
    cases = []
    rng = random.Random(7)
    for cls in range(8):
        for dt in (1.0, 0.1):
            for mult in (0.0, 0.5, 1.0, 2.0, 2.5):
                for lock in (True, False):
                    for adapt in (True, False):
                        p = gen_params(rng, cls, False)
                        p["step_time"] = dt
                        p["refrac_t"] = mult * dt
                        if cls not in THRESH_ADAPT + CUR_ADAPT:
                            pass
                        elif cls != 3 and dt in p["tc_adaptation"]:
                            pass
                        span = p["thresh_v"] - p["rest_v"]
                        i1 = span / p["resistance"] * p["time_constant"] / dt * 3.0
                        ops = [["fwd", adapt, lock, [[i1 if (t % 9) < 6 else 0.0, i1 * 0.01]]] for t in range(14)]
                        cases.append({"cls": cls, "p": p, "shape": [1], "batch": 2, "v0": None, "ops": ops,
                                      "exact": False, "kind": "scope"})
    return cases


# ------------------------------------------------------------------ rendering to Coq
def q_fl(xs):
    return F.coq_list([F.coq_float(float(x)) for x in xs])


def q_mat(m):
    return F.coq_list([q_fl(r) for r in m])


def q_op(op):
    if op[0] == "fwd":
        a = "None" if op[1] is None else f"(Some {F.coq_bool(op[1])})"
        return f"Fwd {a} {F.coq_bool(op[2])} {q_mat(op[3])}"
    if op[0] == "clear":
        return f"Clr {F.coq_bool(op[1])}"
    if op[0] == "train":
        return f"Trn {F.coq_bool(op[1])}"
    if op[0] == "set_adapt":
        return f"SetA {q_mat(op[1])}"
    if op[0] == "add_adapt":
        return f"AddA {q_mat(op[1])}"
    if op[0] == "set_v":
        return f"SetV {q_mat(op[1])}"
    if op[0] == "set_r":
        return f"SetR {q_mat(op[1])}"
    if op[0] == "load":
        return f"Load {q_mat(op[1])} {q_mat(op[2])} {q_mat(op[3])}"
    raise AssertionError(op)


def q_case(case):
    p = case["p"]
    ps = " ".join(F.coq_float(float(p[k])) for k in PKEYS) + " " + " ".join(q_fl(p[k]) for k in LKEYS)
    v0 = "None" if case.get("v0") is None else f"(Some {q_mat(case['v0'])})"
    return (f"run_case {case['cls']}%Z (mkP {ps}) {nel(case['shape'])}%nat {case['batch']}%nat {v0} "
            f"{F.coq_list([q_op(o) for o in case['ops']])}")


# ------------------------------------------------------------------ correspondence
def compare(case, ri, tm):
    """impl result vs model tree; returns None or a description of the first difference"""
    if isinstance(tm, Exception):
        return {"what": "model evaluation failed", "detail": str(tm)[:600]}
    if "ctor_error" in ri:
        if tm == [1]:
            return None
        return {"what": "constructor rejected hyperparameters the model accepts", "impl": ri["ctor_error"]}
    if tm == [1]:
        return {"what": "model says the constructor rejects these hyperparameters, the implementation accepted them"}
    mt = tm[1]
    it = ri["trace"]
    if len(mt) != len(it):
        return {"what": "trace length", "impl": len(it), "model": len(mt)}
    names = ["returned spikes", "spike attribute", "voltage", "refrac", "adaptation"]
    for k, (a, b) in enumerate(zip(it, mt)):
        if a[0] != 0:
            return {"what": "implementation raised", "step": k, "op": case["ops"][k][:3], "impl": a[1:]}
        for j in range(5):
            x, y = a[1 + j], b[j]
            if j < 2:
                if j == 1 and x != y and case["p"]["refrac_t"] == 0.0 and a[1] and x == a[1][0]:
                    continue     # known finding repaired upstream: the attribute satisfies the property itself
                if x != y:
                    return {"what": names[j], "step": k, "op": case["ops"][k][:3], "impl": x, "model": y}
            else:
                if len(x) != len(y) or any(len(r) != len(s) for r, s in zip(x, y)):
                    return {"what": names[j] + " shape", "step": k, "impl": x, "model": y}
                for i, (r, s) in enumerate(zip(x, y)):
                    for b_, (u, w) in enumerate(zip(r, s)):
                        fu, fw = F.dec_float(u), F.dec_float(w)
                        if not F.close(fu, fw):
                            return {"what": names[j], "step": k, "op": case["ops"][k][:3], "neuron": i, "index": b_,
                                    "impl": fu, "model": fw}
    return None


# ------------------------------------------------------------------ direct oracle (the property itself)
def _exp(x):
    try:
        return math.exp(x)
    except OverflowError:
        return math.inf


def integrate(p, cls, v, cur):
    """the documented update equations (class docstrings)"""
    dt, tau, R, rest = p["step_time"], p["time_constant"], p["resistance"], p["rest_v"]
    if cls in LINEAR:
        return (v - rest - R * cur) * _exp(-dt / tau) + rest + R * cur
    if cls in QUAD:
        return dt / tau * (p["affinity"] * (v - rest) * (v - p["crit_v"]) + R * cur) + v
    return dt / tau * (-(v - rest) + p["sharpness"] * _exp((v - p["rheobase_v"]) / p["sharpness"]) + R * cur) + v


def window(p):
    """number of steps between a spike and the first step at which the neuron may spike again:
    max(1, ceil(refrac_t / dt)) on the exact ratio of the two doubles; `lo` forgives 1e-9 of rounding"""
    ratio = Fraction(p["refrac_t"]) / Fraction(p["step_time"])
    return max(1, math.ceil(ratio)), max(1, math.ceil(ratio - Fraction(1, 10 ** 9)))


def oracle_case(case, ri):
    """Evaluate the property statement on the implementation's trace.  Returns a list of failures
    (first of each kind): {kind, step, neuron, batch, expected, got}."""
    if "ctor_error" in ri:
        return []
    p, cls, B = case["p"], case["cls"], case["batch"]
    n = nel(case["shape"])
    K = len(p["adapt_increment"]) if cls in THRESH_ADAPT + CUR_ADAPT else 0
    dt, R_t = p["step_time"], p["refrac_t"]
    W, W_lo = window(p)
    fails = {}

    def fail(kind, **kw):
        if kind not in fails:
            fails[kind] = dict(kind=kind, **kw)

    v = [[p["rest_v"]] * B for _ in range(n)] if case.get("v0") is None else [list(r) for r in case["v0"]]
    r = [[0.0] * B for _ in range(n)]
    ad = [[0.0] * K for _ in range(n)]
    last = [[None] * B for _ in range(n)]     # (forward-step index of the last spike, voltage right after it, all-locked-since)
    training = True
    t = 0                                     # forward steps since construction / clear
    first_fwd = True
    for k, (op, st) in enumerate(zip(case["ops"], ri["trace"])):
        if st[0] != 0:
            fail("raised", step=k, got=st[1:])
            break
        ret, attr = (st[1][0] if st[1] else None), st[2]
        nv = [[F.dec_float(x) for x in row] for row in st[3]]
        nr = [[F.dec_float(x) for x in row] for row in st[4]]
        nad = [[F.dec_float(x) for x in row] for row in st[5]]
        if op[0] == "train":
            training = op[1]
            if nv != v and not any(x != x for row in nv for x in row):
                fail("train_changed_state", step=k)
            continue
        if op[0] == "clear":
            for i in range(n):
                for b in range(B):
                    if nv[i][b] != p["rest_v"] or nr[i][b] != 0.0:
                        fail("clear", step=k, neuron=i, batch=b, got=[nv[i][b], nr[i][b]])
                    last[i][b] = None
                exp_ad = ad[i] if op[1] else [0.0] * K
                if K and any(not F.close(a, e) for a, e in zip(nad[i], exp_ad)):
                    fail("clear_adaptation", step=k, neuron=i, got=nad[i], expected=exp_ad)
            v, r, ad = nv, nr, (nad if K else ad)
            continue
        if op[0] in ("set_adapt", "add_adapt", "set_v", "set_r", "load"):
            # state written from outside: check the write took effect, then CONTINUE FROM THE VALUES ACTUALLY STORED
            # (the next step's threshold / adapted input is computed from them)
            exp_v, exp_r, exp_ad = v, r, ad
            if op[0] == "set_adapt":
                exp_ad = op[1]
            elif op[0] == "add_adapt":
                exp_ad = [[a + d for a, d in zip(ra, rd)] for ra, rd in zip(ad, op[1])]
            elif op[0] == "set_v":
                exp_v = op[1]
            elif op[0] == "set_r":
                exp_r = op[1]
            else:
                exp_v, exp_r = op[1], op[2]
                exp_ad = op[3] if K else ad
            def same(a_, b_):
                return len(a_) == len(b_) and all(len(x_) == len(y_) and all(F.close(p_, q_) or (p_ != p_ and q_ != q_)
                                                  for p_, q_ in zip(x_, y_)) for x_, y_ in zip(a_, b_))
            if not same(nv, exp_v):
                fail("state_write_voltage", step=k, op=op[0], expected=exp_v, got=nv)
            if not same(nr, exp_r):
                fail("state_write_refrac", step=k, op=op[0], expected=exp_r, got=nr)
            if K and not same(nad, exp_ad):
                fail("state_write_adaptation", step=k, op=op[0], expected=exp_ad, got=nad)
            v, r = nv, nr
            if K:
                ad = nad
            for i in range(n):
                for b in range(B):
                    if op[0] in ("set_r", "load"):
                        last[i][b] = None          # the refractory state was overwritten: window tracking restarts
                    elif op[0] == "set_v" and last[i][b] is not None:
                        last[i][b] = (last[i][b][0], last[i][b][1], False)
            continue
        adapt, lock, xs = op[1], op[2], op[3]
        eff = adapt if adapt is not None else training
        strict = case.get("exact") and first_fwd
        first_fwd = False
        for i in range(n):
            sa = sum(ad[i]) if K else 0.0
            th = p["thresh_v"] + sa if cls in THRESH_ADAPT else p["thresh_v"]
            for b in range(B):
                cur = xs[i][b] - sa if cls in CUR_ADAPT else xs[i][b]
                v0_, r0 = v[i][b], r[i][b]
                spk = bool(ret[i][b])
                where = dict(step=k, neuron=i, batch=b)
                finite = math.isfinite(v0_)
                rdec = max(r0 - dt, 0.0)
                out = rdec == 0.0
                # (1) spike <=> out of the refractory period and integrated voltage reaches the threshold
                v_int = integrate(p, cls, v0_, cur) if out else None
                if out and finite and v_int == v_int:
                    margin = abs(v_int - th)
                    amb = (not strict) and margin <= 1e-9 * max(1.0, abs(th), abs(v_int))
                    if not amb and spk != (v_int >= th):
                        fail("spike_iff", expected=(v_int >= th), got=spk, v_int=v_int, thresh=th, **where)
                elif not out and spk:
                    fail("spike_in_refractory", got=spk, refrac_before=r0, **where)
                # (2) a spike resets voltage and refractory time in the same step
                if spk:
                    if cls == 3:
                        if finite and out:
                            e = p["rest_v"] + p["reset_v_mul"] * (v_int - p["rest_v"]) - p["reset_v_add"]
                            if not F.close(nv[i][b], e):
                                fail("spike_resets", expected=e, got=nv[i][b], **where)
                    elif nv[i][b] != p["reset_v"]:
                        fail("spike_resets", expected=p["reset_v"], got=nv[i][b], **where)
                    if nr[i][b] != R_t:
                        fail("spike_sets_refrac", expected=R_t, got=nr[i][b], **where)
                else:
                    if not F.close(nr[i][b], rdec):
                        fail("refrac_decrement", expected=rdec, got=nr[i][b], **where)
                    if finite:
                        if out:
                            e = v_int
                        elif lock:
                            e = v0_
                        else:
                            e = integrate(p, cls, v0_, 0.0)
                        if e == e and not (F.close(nv[i][b], e) if (out or not lock) else nv[i][b] == e):
                            fail("voltage_lock" if (not out and lock) else "voltage_update", expected=e, got=nv[i][b], **where)
                # (3) remaining refractory time never negative (nor above the refractory period)
                if not (nr[i][b] >= 0.0):
                    fail("refrac_negative", got=nr[i][b], **where)
                # (4) silence (and, with locking, constant voltage) for the whole refractory window
                if last[i][b] is not None:
                    ts, vs, locked = last[i][b]
                    locked = locked and lock
                    last[i][b] = (ts, vs, locked)
                    if 1 <= t - ts < W_lo:
                        if spk:
                            fail("refractory_window", spike_at=ts, again_at=t, window=W, **where)
                        elif locked and nv[i][b] != vs and vs == vs:
                            fail("voltage_lock_window", spike_at=ts, now=t, expected=vs, got=nv[i][b], **where)
                if spk:
                    last[i][b] = (t, nv[i][b], True)
                # (5) spike attribute == spikes returned by the most recent step
                if bool(attr[i][b]) != spk:
                    fail("spike_attr_refrac0" if R_t == 0.0 else "spike_attr", expected=spk, got=bool(attr[i][b]),
                         refrac_t=R_t, **where)
            # (6) adaptation: documented update, frozen for samples in their refractory period, batch mean
            if K:
                for kk in range(K):
                    a = ad[i][kk]
                    if not eff:
                        if nad[i][kk] != a:
                            fail("adaptation_without_adapt", expected=a, got=nad[i][kk], step=k, neuron=i, index=kk)
                        continue
                    acc = []
                    for b in range(B):
                        frozen = lock and nr[i][b] > 0.0
                        spk = 1.0 if ret[i][b] else 0.0
                        if cls == 1:
                            u = a if frozen else a * _exp(-dt / p["tc_adaptation"][kk])
                        elif cls == 3:
                            u = a if frozen else a * _exp(-p["tc_adaptation"][kk] * dt)
                        else:
                            u = a if frozen else dt / p["tc_adaptation"][kk] * (
                                p["adapt_vc_coupling"][kk] * (nv[i][b] - p["rest_v"]) - a) + a
                        acc.append(u + p["adapt_increment"][kk] * spk)
                    e = sum(acc) / B
                    if e == e and math.isfinite(e) and not F.close(nad[i][kk], e, rel=1e-8, ab=1e-10):
                        fail("adaptation", expected=e, got=nad[i][kk], step=k, neuron=i, index=kk)
        v, r = nv, nr
        if K:
            ad = nad
        t += 1
    return list(fails.values())


def signature(f):
    return {"kind": f["kind"]}


def is_nontrivial(case, ri):
    if "trace" not in ri:
        return False
    nf = sum(1 for o in case["ops"] if o[0] == "fwd")
    spikes = sum(1 for st in ri["trace"] if st[0] == 0 and st[1] for row in st[1][0] for x in row if x)
    return nf >= 3 and spikes >= 1


def load_corpus():
    out = []
    for pth in sorted(glob.glob(os.path.join(F.VERIF, "corpus", ID, "*.json"))):
        out.append(json.load(open(pth)))
    return out


def run(ctx):
    rng = random.Random(ctx["seed"])
    n = 240 if ctx["tier"] == "quick" else 3000
    cases = load_corpus() + gen_cases(rng, n)
    if ctx["tier"] == "thorough":
        cases += small_scope_cases()
    impl = F.run_impl(IMPL, {"cases": cases})
    # the executable model lives in proof-free files: build it even when a proof file no longer compiles
    with F.BuildLock():
        ok_exec, mk_out = F.make(["C03/NeuronExec.vo"], timeout=600)
    model = F.eval_terms(ID, HEADER, [q_case(c) for c in cases], shard=max(8, min(40, len(cases) // 16 + 1)))
    mismatches, oracle_fail = [], []
    stats = Counter()
    for c, ri, tm in zip(cases, impl, model):
        d = compare(c, ri, tm)
        if d is not None:
            mismatches.append({"case": c, "detail": d})
        for f in oracle_case(c, ri):
            oracle_fail.append({"case": c, "detail": f, "signature": signature(f)})
        stats["ctor_rejected" if "ctor_error" in ri else "ran"] += 1
        if "trace" in ri:
            for st in ri["trace"]:
                if st[0] == 0 and st[1]:
                    for row in st[1][0]:
                        stats["cell_steps"] += len(row)
                        stats["spikes"] += sum(row)
    return {
        "evaluations": len(cases),
        "distinct_nontrivial": len({json.dumps(c, sort_keys=True) for c, ri in zip(cases, impl) if is_nontrivial(c, ri)}),
        "rule": "seeded operation sequences (forward with adapt in {True,False,None} and refrac_lock on/off, clear, train/eval, "
                "state written from outside between steps: voltage/refrac/adaptation setters, in-place adaptation edits, load_state_dict "
                "from a twin; every 6th case freezes the adaptations, replaces them from outside and probes half-way between the old and "
                "new threshold) on all "
                "8 neuron classes; refrac_t in {0, dt/2, dt, 2dt, 2.5dt, 3dt, 5dt, 4.2dt, 0.37}; dt in {1, .5, .25, .1, 1.3}; batch 1-3, "
                "5 shapes, K in {1,2}; drives zero/supra/random/huge/negative/near-threshold per cell; every 4th case dyadic with the "
                "first step exactly on / just off the threshold; every 12th case leaves one constructor domain; non-trivial = >=3 "
                "forward steps and >=1 spike; distinct by full case text"
                + ("; plus a class x refrac_t x lock x adapt grid" if ctx["tier"] == "thorough" else ""),
        "class_distribution": dict(Counter(NAMES[c["cls"]] for c in cases)),
        "kind_distribution": dict(Counter(c.get("kind", "corpus") for c in cases)),
        "refrac_over_dt_distribution": dict(Counter(
            (round(c["p"]["refrac_t"] / c["p"]["step_time"], 3) if c["p"]["step_time"] > 0 else "bad") for c in cases)),
        "counts": dict(stats),
        "oracle_failure_kinds": dict(Counter(f["detail"]["kind"] for f in oracle_fail)),
        "samples": [dict(c, ops=c["ops"][:3]) for c in cases[:2]],
        "mismatches": mismatches, "oracle_failures": oracle_fail,
        "traces_validated_against_impl": len(cases) - len(mismatches),
    }


# ------------------------------------------------------------------ minimise / replay
def _fails(case, kind=None):
    ri = F.run_impl(IMPL, {"cases": [case]})[0]
    fs = oracle_case(case, ri)
    if kind is not None:
        fs = [f for f in fs if f["kind"] == kind]
    return fs


def minimise(case):
    """truncate after the failing step, then restrict the population to the failing neuron (all batch samples are
    kept: they share the adaptation state)"""
    fs = _fails(case)
    if not fs:
        return case, None
    f = fs[0]
    kind = f["kind"]
    c = copy.deepcopy(case)
    c["ops"] = c["ops"][: f["step"] + 1]
    if "neuron" in f and nel(c["shape"]) > 1:
        i = f["neuron"]
        c2 = copy.deepcopy(c)
        c2["shape"] = [1]
        if c2.get("v0") is not None:
            c2["v0"] = [c2["v0"][i]]
        for o in c2["ops"]:
            if o[0] == "fwd":
                o[3] = [o[3][i]]
        if _fails(c2, kind):
            c = c2
    # drop leading operations while the failure persists
    changed = True
    while changed and len(c["ops"]) > 1:
        changed = False
        c2 = copy.deepcopy(c)
        c2["ops"] = c2["ops"][1:]
        if c2.get("v0") is None and _fails(c2, kind):
            c = c2
            changed = True
    fs = _fails(c, kind)
    return c, (fs[0] if fs else f)


def replay(case):
    fs = _fails(case)
    if not fs:
        return True, "replay: the implementation satisfies the neuron step contract on this case"
    return False, "replay: still failing: " + repr(fs)[:1500]
