"""C05 - connections compute their documented linear map (dense, direct, lateral, conv2d):
case generator, Coq rendering, correspondence (model run by vm_compute vs the real classes) and direct oracles."""
from __future__ import annotations
import glob, itertools, json, math, os, random
from collections import Counter
import framework as F

ID = "C05"
GEN = ["Conv", "ConnectionClasses"]
LEVEL = "proof"
TECHNIQUE = ("Coq proof over the reals about a nested-list model of LinearDense / LinearDirect / LinearLateral / Conv2D "
             "(F.linear, matmul, F.unfold, F.fold and the einops patterns modelled by their index maps), against independent "
             "specs (indexed finite sums, zero-padded cross-correlation); lateral diagonal invariant by induction over every "
             "assignment / update sequence; model tied to the code by a differential correspondence check, "
             "torch.nn.functional.conv2d and a pure-Python cross-correlation as independent oracles")
LEVEL_TEXT = ("Machine-checked proofs (Coq 8.16, real-number instance of the shared numeric signature) that the model of each "
              "connection's undelayed forward equals the documented map for ALL batch sizes, shapes, weights and inputs: "
              "x W^T + b (dense), x*w + b (direct), x (W masked off the diagonal)^T + b (lateral, for every history of weight / "
              "delay assignments and updater applications, together with the invariant that the diagonal of weight and delay "
              "is zero after every such history), and for Conv2D the zero-padded 2-D cross-correlation "
              "b_f + sum_{c,i,j} W[f,c,i,j] x[c, oh*s+i*d-p, ow*s+j*d-p] for every geometry with a non-empty output, the "
              "coded floating-point output-size formula being proved equal to floor((H+2p-d(k-1)-1)/s)+1; like_input after "
              "like_synaptic is the identity on every input position the connection reads (conv: wherever the fold count is "
              "non-zero, which is proved to be exactly the read positions); the receptive views are the stated index "
              "permutations and their shapes broadcast to B x weight-shape x L."
              " The four connection classes are re-translated from inferno/neural/connections/{linear,conv}.py on every run into "
              "Gen/ConnectionClasses.v (abstract syntax of forward / selector / like_* / *_receptive / inshape / outshape with their einops "
              "pattern strings, LinearLateral's mask and masked setters as numeric functions, constructor signatures and defaults) and "
              "tied to the model by 47 proved equalities (coq/C05/GenTie*.v): per method the generated term equals the structure the model "
              "implements written with the model's pattern constants, LinearLateral's mask / setters equal the model's mask_el / masked, and "
              "an evaluator that gives the abstract operations their model meaning runs the GENERATED undelayed forward of LinearDense, "
              "LinearDirect and Conv2D to exactly Conn.linear / Conn.direct_map / Conn.conv_map.")
LEVEL_NOTE = ("Trusted: Coq kernel; tools/translate.py (class extractor for the connection classes: pattern-checked, fails closed on any other "
              "statement / expression shape; its reading of the Python syntax, not of torch); the hand-written model coq/C05/Conn.v is "
              "tied to the code by the GenTie equalities for the decision structure, operators, operand order, pattern strings, mask, setters and "
              "defaults (syntactic for the einops patterns: their MEANING in the model - concat / chunk / axis swaps - is hand-written and "
              "validated by the correspondence only; the delayed branches are tied syntactically only) and otherwise by the correspondence check (bounded by generator coverage: H,W<=7 (9 thorough), kernel<=3, "
              "stride/dilation<=3, padding<=2, C,F<=3, B<=3); PyTorch's F.linear / matmul / F.unfold / F.fold / einops are modelled "
              "by their mathematical meaning, not verified; theorems are exact real arithmetic (floating-point rounding and "
              "inf/NaN not covered: assigning inf/NaN on the lateral diagonal yields NaN because the setter multiplies by the "
              "mask - recorded as nonfinite_assignment_probe in the evidence). Proved (27 obligations + nonvacuity): "
              "dense/direct/lateral forward specs with output shapes, lateral diagonal invariant and entry-wise weight/delay "
              "history specs over all operation sequences, forward-after-history, conv unfold index spec, cross-correlation "
              "theorem, output-size formula, output shape, totality on the whole valid geometry grid, like_input characterisation "
              "and round trip on exactly the read positions, receptive-view permutations and broadcast shapes, einsum (delayed) "
              "branch as a sum, and a witness that the constructor accepts H=W=1,k=3 (negative advertised output, forward raises; "
              "outside the property's quantifier). NOT proved: which currents the delays select (C06; only the all-delays-zero case "
              "is exercised, by correspondence), the selector property, like_bias (identity reshapes; correspondence only), "
              "constructor argument validation beyond positivity (correspondence only).")
TRUSTED = ["coq/C05/Conn.v: hand-written model of the four connection classes, the masked setters, Updater application and the "
           "reshaping helpers; validated against the real classes on every run by tools/props/c05.py; its forward structure, operators, "
           "pattern constants (coq/C05/ConnPatterns.v), mask and setters are additionally tied to Gen/ConnectionClasses.v (generated from the "
           "source on every run) by coq/C05/GenTie*.v",
           "meaning of the einops patterns and of F.linear / torch.matmul / F.unfold / F.fold in the model (hand-written; correspondence only)"]
ASSUMES = ["synapse current = like_synaptic(input) * (charge/dt) for the DeltaCurrent / DeltaPlusCurrent synapses used to drive "
           "the connections (checked exactly on every case)"]
HEADER = ("From Coq Require Import List ZArith Bool PrimFloat.\n"
          "From Inferno Require Import Base.Num Base.NumF C05.Conn C05.ConnExec.\n"
          "Import ListNotations.\nOpen Scope nat_scope.\n")
IMPL = os.path.join(F.VERIF, "tools", "impl", "c05_impl.py")
# observation (not judged): non-finite values assigned to the lateral diagonal; flip to report it as an oracle failure
REPORT_NONFINITE = False


# ------------------------------------------------------------------ generation
def prod(s):
    return math.prod(s)


def rval(rng):
    r = rng.random()
    if r < 0.1:
        return 0.0
    if r < 0.2:
        return rng.choice([1.0, -1.0, 0.5, -0.25, 2.0])
    return round(rng.uniform(-2, 2), 2)


def rvals(rng, n):
    return [rval(rng) for _ in range(n)]


def coded(n, m=64):
    """distinct-ish small dyadic values, used where the model only permutes / sums data"""
    return [((7 * k + 3) % m) / 4.0 - 3.0 for k in range(n)]


def rsyn(rng):
    if rng.random() < 0.7:
        return {"t": "dplus", "dt": 1.0}
    return {"t": "delta", "Q": rng.choice([1.0, 2.5, -0.5, 0.3]), "dt": rng.choice([1.0, 0.5, 1.3])}


def rshape(rng, maxel):
    while True:
        s = [rng.randint(1, 3) for _ in range(rng.randint(1, 3))]
        if prod(s) <= maxel:
            return s


def rx(rng, syn, n):
    if syn["t"] == "dplus":
        return rvals(rng, n)
    return [float(rng.random() < 0.5) for _ in range(n)]


def gen_dense(rng, malformed):
    ins, outs = rshape(rng, 8), rshape(rng, 6)
    B = rng.randint(1, 3)
    I, O = prod(ins), prod(outs)
    syn = rsyn(rng)
    bias = rng.random() < 0.6
    c = {"kind": "dense", "inshape": ins, "outshape": outs, "B": B, "bias": bias, "delay": rng.choice([None, None, 0.0, 2.0]),
         "syn": syn, "W": [rvals(rng, I) for _ in range(O)], "b": rvals(rng, O) if bias else None,
         "xshape": [B] + ins, "x": rx(rng, syn, B * I), "r3": coded(B * I * O), "lb": coded(O)}
    if malformed:
        m = rng.choice(["zero_in", "zero_out", "batch0", "xbatch", "xfeat"])
        if m == "zero_in":
            c["inshape"] = ins[:-1] + [0]
        elif m == "zero_out":
            c["outshape"] = [rng.choice([0, -1])] + outs[1:]
        elif m == "batch0":
            c["B"] = 0
        elif m == "xbatch":
            c["xshape"] = [B + 1] + ins
            c["x"] = rx(rng, syn, (B + 1) * I)
        else:
            c["xshape"] = [B] + ins + [2]
            c["x"] = rx(rng, syn, B * I * 2)
    elif rng.random() < 0.15:
        # a differently grouped input with the same number of features per batch element is accepted
        c["xshape"] = [B, I]
    return c


def gen_direct(rng, malformed):
    sh = rshape(rng, 10)
    B = rng.randint(1, 3)
    n = prod(sh)
    syn = rsyn(rng)
    bias = rng.random() < 0.6
    c = {"kind": "direct", "shape": sh, "B": B, "bias": bias, "delay": rng.choice([None, None, 0.0, 2.0]), "syn": syn,
         "W": rvals(rng, n), "b": rvals(rng, n) if bias else None, "xshape": [B] + sh, "x": rx(rng, syn, B * n),
         "r3": coded(B * n), "lb": coded(n)}
    if malformed:
        m = rng.choice(["zero", "batch0", "xbatch"])
        if m == "zero":
            c["shape"] = [0] + sh[1:]
        elif m == "batch0":
            c["B"] = -1
        else:
            c["xshape"] = [B + 2] + sh
            c["x"] = rx(rng, syn, (B + 2) * n)
    return c


def rmat(rng, n):
    return [rvals(rng, n) for _ in range(n)]


def rbval(rng, n):
    k = rng.choice(["mat", "mat", "mat", "scalar", "row", "col"])
    if k == "mat":
        m = rmat(rng, n)
        if rng.random() < 0.5:      # make sure the diagonal is attacked with non-zero values
            for i in range(n):
                m[i][i] = rng.choice([1.0, -3.5, 0.7, 100.0])
        return ["mat", m]
    if k == "scalar":
        return ["scalar", rng.choice([1.0, -2.0, 0.3])]
    return [k, [v if v != 0 else 1.5 for v in rvals(rng, n)]]


def gen_lateral(rng, malformed):
    sh = rng.choice([[1], [2], [3], [4], [2, 2], [1, 3], [5], [2, 1, 2]])
    n = prod(sh)
    B = rng.randint(1, 2)
    bias = rng.random() < 0.5
    delay = rng.choice([None, 0.0, 0.0, 3.0])
    syn = rsyn(rng)
    ops = []
    for _ in range(rng.randint(3, 10)):
        k = rng.choice(["setw", "setw", "setd", "setb", "upd", "upd", "fwd", "fwd"])
        if k in ("setw", "setd"):
            ops.append([k, rbval(rng, n)])
        elif k == "setb":
            ops.append(["setb", rvals(rng, n)])
        elif k == "upd":
            pw = [rmat(rng, n) for _ in range(rng.choice([0, 1, 1, 2]))]
            nw = [rmat(rng, n) for _ in range(rng.choice([0, 0, 1, 2]))]
            pd = [rmat(rng, n) for _ in range(rng.choice([0, 1]))] if delay is not None else []
            nd = [rmat(rng, n) for _ in range(rng.choice([0, 1]))] if delay is not None else []
            ops.append(["upd", pw, nw, pd, nd])
        else:
            if delay:   # a non-zero maximum delay switches forward to the delayed branch (C06); not driven here
                continue
            ops.append(["fwd", rx(rng, syn, B * n)])
    wi = rmat(rng, n)
    for i in range(n):
        wi[i][i] = rng.choice([1.0, 2.5, -1.0])
    c = {"kind": "lateral", "shape": sh, "B": B, "bias": bias, "delay": delay, "syn": syn, "winit": wi,
         "binit": rvals(rng, n) if bias else None,
         "dinit": ([[abs(v) for v in r] for r in rmat(rng, n)] if (delay is not None and rng.random() < 0.5) else None),
         "ops": ops}
    if malformed:
        c["shape"] = [0]
        c["ops"] = []
    return c


def out_size(size, p, d, k, s):
    return (size + 2 * p - d * (k - 1) - 1) // s + 1


def gen_conv(rng, malformed, big=False):
    hi = 9 if big else 7
    for _ in range(200):
        H, W = rng.randint(1, hi), rng.randint(1, hi)
        C, Fn = rng.choice([1, 1, 2, 2, 3]), rng.choice([1, 2, 2, 3])
        tup = rng.random() < 0.7
        if tup:
            k = [rng.randint(1, 3), rng.randint(1, 3)]
            s = [rng.randint(1, 3), rng.randint(1, 3)]
            p = [rng.randint(0, 2), rng.randint(0, 2)]
            d = [rng.randint(1, 3), rng.randint(1, 3)]
        else:
            k, s, p, d = [rng.randint(1, 3)] * 2, [rng.randint(1, 3)] * 2, [rng.randint(0, 2)] * 2, [rng.randint(1, 3)] * 2
        ho, wo = out_size(H, p[0], d[0], k[0], s[0]), out_size(W, p[1], d[1], k[1], s[1])
        if malformed or (ho >= 1 and wo >= 1 and C * k[0] * k[1] * ho * wo * Fn <= 900):
            break
    B = rng.randint(1, 2)
    syn = rsyn(rng)
    bias = rng.random() < 0.6
    N = C * k[0] * k[1]
    L = max(ho, 0) * max(wo, 0)
    c = {"kind": "conv", "H": H, "W": W, "C": C, "F": Fn, "k": k, "s": s, "p": p, "d": d, "tuple_geom": tup, "B": B,
         "bias": bias, "delay": rng.choice([None, None, 0.0]), "syn": syn,
         "Wt": [[[rvals(rng, k[1]) for _ in range(k[0])] for _ in range(C)] for _ in range(Fn)],
         "b": rvals(rng, Fn) if bias else None, "xshape": [B, C, H, W], "x": rx(rng, syn, B * C * H * W),
         "r3": coded(B * N * L, 16), "r4": coded(B * N * L * Fn), "lb": coded(Fn)}
    if malformed:
        m = rng.choice(["geom", "geom", "zero", "xbatch", "xchan", "neg_pad"])
        if m == "zero":
            c[rng.choice(["H", "W", "C", "F"])] = 0
        elif m == "neg_pad":
            c["p"] = [-1, -1] if not tup else [p[0], -1]
        elif m == "xbatch" and ho >= 1 and wo >= 1:
            c["xshape"] = [B + 1, C, H, W]
            c["x"] = rx(rng, syn, (B + 1) * C * H * W)
        elif m == "xchan" and ho >= 1 and wo >= 1:
            c["xshape"] = [B, C + 1, H, W]
            c["x"] = rx(rng, syn, B * (C + 1) * H * W)
    return c


def exhaustive_conv_geometries(rng, limit):
    """thorough tier: every (H, k, s, p, d) per axis for H<=6 (squared geometry, one channel / filter) that gives a
    non-empty output, sub-sampled to `limit`"""
    geos = [(h, k, s, p, d) for h in range(1, 7) for k in (1, 2, 3) for s in (1, 2, 3) for p in (0, 1, 2) for d in (1, 2, 3)
            if out_size(h, p, d, k, s) >= 1]
    rng.shuffle(geos)
    cases = []
    for (h, k, s, p, d), (w, k2, s2, p2, d2) in zip(geos[:limit], reversed(geos[:limit])):
        ho, wo = out_size(h, p, d, k, s), out_size(w, p2, d2, k2, s2)
        N, L = k * k2, ho * wo
        cases.append({"kind": "conv", "H": h, "W": w, "C": 1, "F": 1, "k": [k, k2], "s": [s, s2], "p": [p, p2], "d": [d, d2],
                      "tuple_geom": True, "B": 1, "bias": False, "delay": None, "syn": {"t": "dplus", "dt": 1.0},
                      "Wt": [[[rvals(rng, k2) for _ in range(k)]]], "b": None, "xshape": [1, 1, h, w],
                      "x": rvals(rng, h * w), "r3": coded(N * L, 16), "r4": coded(N * L), "lb": coded(1)})
    return cases


# ------------------------------------------------------------------ sequences: forward / re-parameterise / forward ...
def f32(v):
    import struct
    return struct.unpack("f", struct.pack("f", v))[0]


def seq_dims(c):
    """(number of weights, number of biases, inputs per batch element)"""
    k = c["conn"]
    if k == "dense":
        return prod(c["inshape"]) * prod(c["outshape"]), prod(c["outshape"]), prod(c["inshape"])
    if k == "direct":
        return prod(c["shape"]), prod(c["shape"]), prod(c["shape"])
    if k == "lateral":
        return prod(c["shape"]) ** 2, prod(c["shape"]), prod(c["shape"])
    return c["F"] * c["C"] * c["k"][0] * c["k"][1], c["F"], c["C"] * c["H"] * c["W"]


def gen_seq(rng, conn):
    """a connection that is stepped, re-parameterised through one of the public routes, stepped again, ... (3-6 rounds)"""
    syn = rsyn(rng)
    B = rng.randint(1, 2)
    bias = rng.random() < 0.7
    c = {"kind": "seq", "conn": conn, "B": B, "bias": bias, "delay": rng.choice([None, 0.0, 0.0]), "syn": syn}
    if conn == "dense":
        c["inshape"], c["outshape"] = rshape(rng, 6), rshape(rng, 4)
        c["xshape"] = [B] + c["inshape"]
    elif conn == "direct":
        c["shape"] = rshape(rng, 8)
        c["xshape"] = [B] + c["shape"]
    elif conn == "lateral":
        c["shape"] = rng.choice([[2], [3], [2, 2], [1, 3]])
        c["xshape"] = [B] + c["shape"]
    else:
        g = gen_conv(rng, False)
        while g["C"] * g["H"] * g["W"] > 60:
            g = gen_conv(rng, False)
        for key in ("H", "W", "C", "F", "k", "s", "p", "d"):
            c[key] = g[key]
        c["xshape"] = [B, c["C"], c["H"], c["W"]]
    nw, nb, nx = seq_dims(c)
    c["Wf"] = rvals(rng, nw)
    c["b"] = rvals(rng, nb) if bias else None
    routes = ["set", "set", "upd", "upd", "inplace_add", "inplace_copy", "data_index", "load", "to", "none"]
    rounds = [{"op": ["none"], "x": rx(rng, syn, B * nx)}]
    for _ in range(rng.randint(2, 5)):
        r = rng.choice(routes)
        tgt = rng.choice(["weight", "weight", "bias"]) if bias else "weight"
        n = nw if tgt == "weight" else nb
        if r == "set":
            t2 = rng.choice([tgt, tgt, "delay"]) if c["delay"] is not None else tgt
            vals = [abs(v) for v in rvals(rng, nw)] if t2 == "delay" else rvals(rng, n)
            op = ["set", t2, vals]
        elif r == "upd":
            pos = rvals(rng, n) if rng.random() < 0.8 else None
            neg = rvals(rng, n) if (pos is None or rng.random() < 0.5) else None
            op = ["upd", tgt, pos, neg]
        elif r in ("inplace_add", "inplace_copy"):
            op = [r, tgt, rvals(rng, n)]
        elif r == "data_index":
            op = ["data_index", tgt, rng.randrange(n), rval(rng) or 1.5]
        elif r == "load":
            op = ["load", rvals(rng, nw), rvals(rng, nb) if bias else None]
        elif r == "to":
            op = ["to", rng.choice(["f64", "cpu", "double", "f32"])]
        else:
            op = ["none"]
        rounds.append({"op": op, "x": rx(rng, syn, B * nx)})
    c["rounds"] = rounds
    return c


def seq_expected(c):
    """The parameter values each route must leave behind, round by round (plain Python state machine, independent of
    the Coq model): [(weight, bias, delay, weight_op, remask, bias_op)]; the last three drive the model."""
    lat = c["conn"] == "lateral"
    n = prod(c["shape"]) if lat else 0

    def mask(v):
        return [x * (0.0 if (i // n) == (i % n) else 1.0) for i, x in enumerate(v)] if lat else list(v)
    nw = seq_dims(c)[0]
    w = mask(c["Wf"])
    b = None if c["b"] is None else list(c["b"])
    d = None if c["delay"] is None else [0.0] * nw
    out = []
    for rd in c["rounds"]:
        op = rd["op"]
        k = op[0]
        wop, mk, bop = ["keep"], False, ["keep"]
        if k == "set":
            if op[1] == "weight":
                w = mask(op[2]); wop, mk = ["set", op[2]], lat
            elif op[1] == "bias":
                b = list(op[2]); bop = ["set", op[2]]
            else:
                d = mask(op[2])
        elif k == "upd":
            pos, neg = op[2], op[3]
            u = [(0.0 if pos is None else pos[i]) - (0.0 if neg is None else neg[i]) for i in range(len(pos or neg))]
            if op[1] == "weight":
                w = mask([a + x for a, x in zip(w, u)]); wop = ["add", u]
            else:
                b = [a + x for a, x in zip(b, u)]; bop = ["add", u]
            # Updatable.update re-assigns EVERY updatable parameter through its setter: lateral weight / delay are re-masked
            if lat:
                w = mask(w); mk = True
                d = None if d is None else mask(d)
        elif k == "inplace_add":
            if op[1] == "weight":
                w = [a + x for a, x in zip(w, op[2])]; wop = ["add", op[2]]
            else:
                b = [a + x for a, x in zip(b, op[2])]; bop = ["add", op[2]]
        elif k == "inplace_copy":
            if op[1] == "weight":
                w = list(op[2]); wop = ["set", op[2]]
            else:
                b = list(op[2]); bop = ["set", op[2]]
        elif k == "data_index":
            if op[1] == "weight":
                w = list(w); w[op[2]] = op[3]; wop = ["set", w]
            else:
                b = list(b); b[op[2]] = op[3]; bop = ["set", b]
        elif k == "load":
            w = mask(op[1]); wop = ["set", w]         # the twin's constructor already masked its weights
            if b is not None:
                b = list(op[2]); bop = ["set", b]
            d = None if d is None else [0.0] * nw
        elif k == "to" and op[1] == "f32":
            w = [f32(v) for v in w]; wop = ["set", w]
            if b is not None:
                b = [f32(v) for v in b]; bop = ["set", b]
            d = None if d is None else [f32(v) for v in d]
        out.append((list(w), None if b is None else list(b), None if d is None else list(d), wop, mk, bop))
    return out


def gen_cases(rng, n, big=False):
    cases = []
    for i in range(n):
        mal = (i % 8 == 7)
        r = i % 10
        if r in (1, 3, 7, 9):
            # sequences (every connection kind; Conv2D twice as often)
            cases.append(gen_seq(rng, {1: ("dense", "direct")[(i // 10) % 2], 3: "lateral", 7: "conv", 9: "conv"}[r]))
        elif r < 2:
            cases.append(gen_dense(rng, mal))
        elif r < 4:
            cases.append(gen_direct(rng, mal))
        elif r < 6:
            cases.append(gen_lateral(rng, mal))
        else:
            cases.append(gen_conv(rng, mal, big))
    return cases


# ------------------------------------------------------------------ effective input (what the synapse turns the input into)
def scale(case):
    s = case["syn"]
    return 1.0 if s["t"] == "dplus" else s["Q"] / s["dt"]


def eff(case, x):
    k = scale(case)
    return [v * k for v in x]


# ------------------------------------------------------------------ rendering to Coq
def qf(v):
    return F.coq_float(float(v))


def ql(vs):
    return F.coq_list([qf(v) for v in vs])


def ql2(m):
    return F.coq_list([ql(r) for r in m])


def ql4(w):
    return F.coq_list([F.coq_list([ql2(c) for c in f]) for f in w])


def qz(zs):
    return F.coq_list([F.coq_Z(z) for z in zs])


def qn(ns):
    return F.coq_list([f"{int(n)}" for n in ns])


def qopt(x):
    return "None" if x is None else f"(Some {x})"


def q_bval(v):
    k = v[0]
    if k == "mat":
        return f"(VMat FN {ql2(v[1])})"
    if k == "scalar":
        return f"(VScalar FN {qf(v[1])})"
    if k == "row":
        return f"(VRow FN {ql(v[1])})"
    return f"(VCol FN {ql(v[1])})"


def uses_delayed_branch(c, im):
    """LinearDense with a non-zero maximum delay runs the einsum branch on the delay-selected currents"""
    return c["kind"] == "dense" and bool(c["delay"]) and im is not None and im.get("ok") == 1 and len(im["syncur_shape"]) == 3


def q_pop(o):
    if o[0] == "keep":
        return "PKeep FN"
    return f"({'PSet' if o[0] == 'set' else 'PAdd'} FN {ql(o[1])})"


def q_seq(c):
    exp = seq_expected(c)
    rounds = F.coq_list([f"({q_pop(e[3])}, {F.coq_bool(e[4])}, {q_pop(e[5])}, {qn(c['xshape'])}, {ql(eff(c, rd['x']))})"
                         for rd, e in zip(c["rounds"], exp)])
    lat = c["conn"] == "lateral"
    w0 = c["Wf"]
    if lat:
        n = prod(c["shape"])
        w0 = [x * (0.0 if (i // n) == (i % n) else 1.0) for i, x in enumerate(w0)]
    b0 = qopt(None if c["b"] is None else ql(c["b"]))
    k = c["conn"]
    if k == "dense":
        return f"seq_dense {qz(c['inshape'])} {qz(c['outshape'])} {F.coq_Z(c['B'])} {ql(w0)} {b0} {rounds}"
    if k == "direct":
        return f"seq_direct {qz(c['shape'])} {F.coq_Z(c['B'])} {ql(w0)} {b0} {rounds}"
    if k == "lateral":
        return f"seq_lateral {qz(c['shape'])} {F.coq_Z(c['B'])} {ql(w0)} {b0} {rounds}"
    g = "(mkG " + " ".join(F.coq_Z(z) for z in [c["H"], c["W"], c["C"], c["F"], c["k"][0], c["k"][1], c["s"][0], c["s"][1],
                                                c["p"][0], c["p"][1], c["d"][0], c["d"][1]]) + ")"
    return f"seq_conv {g} {F.coq_Z(c['B'])} {ql(w0)} {b0} {rounds}"


def q_case(c, im=None):
    k = c["kind"]
    if k == "seq":
        return q_seq(c)
    if k == "dense":
        t = (f"dense_case {qz(c['inshape'])} {qz(c['outshape'])} {F.coq_Z(c['B'])} {ql2(c['W'])} "
             f"{qopt(None if c['b'] is None else ql(c['b']))} {qn(c['xshape'])} {ql(eff(c, c['x']))} {ql(c['r3'])}")
        if uses_delayed_branch(c, im):
            B, I, O = im["syncur_shape"]
            t = (f"Nd [{t}; dense_delayed_case {B} {I} {O} {ql2(c['W'])} {qopt(None if c['b'] is None else ql(c['b']))} "
                 f"{ql(im['syncur'])}]")
        return t
    if k == "direct":
        return (f"direct_case {qz(c['shape'])} {F.coq_Z(c['B'])} {ql(c['W'])} {qopt(None if c['b'] is None else ql(c['b']))} "
                f"{qn(c['xshape'])} {ql(eff(c, c['x']))}")
    if k == "lateral":
        ops = []
        for op in c["ops"]:
            if op[0] == "setw":
                ops.append(f"OpSetW FN {q_bval(op[1])}")
            elif op[0] == "setd":
                ops.append(f"OpSetD FN {q_bval(op[1])}")
            elif op[0] == "setb":
                ops.append(f"OpSetB FN {ql(op[1])}")
            elif op[0] == "upd":
                ops.append("OpUpd FN " + " ".join(F.coq_list([ql2(m) for m in part]) for part in op[1:5]))
            else:
                ops.append(f"OpFwd FN (@mkT FN {qn([c['B']] + c['shape'])} {ql(eff(c, op[1]))})")
        return (f"lateral_case {qz(c['shape'])} {F.coq_Z(c['B'])} {ql2(c['winit'])} {F.coq_bool(c['delay'] is not None)} "
                f"{qopt(None if c['dinit'] is None else ql2(c['dinit']))} {qopt(None if c['binit'] is None else ql(c['binit']))} "
                f"{F.coq_list(ops)}")
    if k == "conv":
        g = "(mkG " + " ".join(F.coq_Z(z) for z in [c["H"], c["W"], c["C"], c["F"], c["k"][0], c["k"][1], c["s"][0], c["s"][1],
                                                    c["p"][0], c["p"][1], c["d"][0], c["d"][1]]) + ")"
        return (f"conv_case {g} {F.coq_Z(c['B'])} {ql4(c['Wt'])} {qopt(None if c['b'] is None else ql(c['b']))} "
                f"{qn(c['xshape'])} {ql(eff(c, c['x']))} {ql(c['r3'])} {ql(c['r4'])}")
    raise AssertionError(k)


# ------------------------------------------------------------------ comparison helpers
def fl(tree):
    return [F.dec_float(t) for t in tree]


def same_floats(a, b):
    """a: python floats / None (impl), b: python floats (model)"""
    if len(a) != len(b):
        return f"length {len(a)} vs {len(b)}"
    for i, (x, y) in enumerate(zip(a, b)):
        x = math.nan if x is None else x
        if not F.close(x, y):
            return f"element {i}: impl {x!r} model {y!r}"
    return None


def exact(a, b):
    return [None if v is None else float(v) for v in a] == [None if v is None else float(v) for v in b]


def opt_shape(t):
    return None if t == [] else t[0]


# ------------------------------------------------------------------ correspondence
def compare(c, im, tm):
    """returns None or a description of the first disagreement between implementation and model"""
    if im.get("ok") == -1:
        return {"harness": im.get("msg")}
    if c["kind"] == "seq":
        return compare_seq(c, im, tm)
    if uses_delayed_branch(c, im):
        tm, td = tm
        d = same_floats(im["out"], fl(td))
        if d is not None:
            return {"what": "delayed (einsum) branch on the delay-selected currents", "detail": d}
    if tm[0] == 1:   # model says error
        stage, code = tm[1], tm[2]
        if im["ok"] != 0:
            return {"model": ["error", stage, code], "impl": "succeeded"}
        istage = 0 if im["stage"] == "ctor" else 1
        if istage != stage or im["err"] != code:
            return {"model": ["error", stage, code], "impl": [im["stage"], im["err"], im.get("msg")]}
        if c["kind"] == "conv" and stage == 1 and im.get("outshape") is not None and im["outshape"] != tm[3]:
            return {"what": "advertised outshape", "impl": im["outshape"], "model": tm[3]}
        return None
    if im["ok"] != 1:
        return {"model": "succeeded", "impl": [im.get("stage"), im.get("err"), im.get("msg")]}
    k = c["kind"]

    def chk(what, a, b):
        return None if a == b else {"what": what, "impl": a, "model": b}

    def chkf(what, a, b):
        d = same_floats(a, fl(b))
        return None if d is None else {"what": what, "detail": d}
    if k == "dense":
        _, ins, outs, out, ls, li, pre, post, bc, pre3s, pre3 = tm
        post_pre = None if bc == [] else bc[0]
        checks = [chk("inshape", im["inshape"], ins), chk("outshape", im["outshape"], outs),
                  chk("out shape", im["out_shape"], out[0]), chkf("forward", im["out"], out[1]),
                  chk("like_synaptic shape", im["ls_shape"], ls), chk("like_input shape", im["li_shape"], li),
                  chk("presyn shape", im["pre_shape"], pre), chk("postsyn shape", im["post_shape"], post),
                  chk("post*pre broadcast shape", im["bc_shape"], post_pre),
                  chk("presyn3 shape", im["pre3_shape"], pre3s), chkf("presyn3", im["pre3"], pre3)]
    elif k == "direct":
        _, sh, out, ls, li, pre, post, bc, pre3s = tm
        checks = [chk("inshape", im["inshape"], sh), chk("outshape", im["outshape"], sh),
                  chk("out shape", im["out_shape"], out[0]), chkf("forward", im["out"], out[1]),
                  chk("like_synaptic shape", im["ls_shape"], ls), chk("like_input shape", im["li_shape"], li),
                  chk("presyn shape", im["pre_shape"], pre), chk("postsyn shape", im["post_shape"], post),
                  chk("post*pre broadcast shape", im["bc_shape"], None if bc == [] else bc[0]),
                  chk("presyn3 shape", im["pre3_shape"], pre3s)]
    elif k == "lateral":
        _, init, steps = tm

        def lat(what, snap, t):
            w, d, b = t
            r = [chkf(what + " weight", snap["w"], w)]
            if (snap["d"] is None) != (d == []):
                r.append({"what": what + " delay presence", "impl": snap["d"], "model": d})
            elif d != []:
                r.append(chkf(what + " delay", snap["d"], d[0]))
            if (snap["b"] is None) != (b == []):
                r.append({"what": what + " bias presence"})
            elif b != []:
                r.append(chkf(what + " bias", snap["b"], b[0]))
            return r
        checks = lat("init", im["init"], init)
        if len(steps) != len(im["steps"]):
            checks.append({"what": "number of steps"})
        for j, (st, tmj) in enumerate(zip(im["steps"], steps)):
            o, snap = tmj
            if st.get("ok") != 1:
                checks.append({"what": f"step {j} raised in the implementation", "impl": st})
                continue
            checks += lat(f"step {j} ({c['ops'][j][0]})", st, snap)
            if c["ops"][j][0] == "fwd":
                if o[0] != 0:
                    checks.append({"what": f"step {j} forward", "model": o})
                else:
                    checks.append(chk(f"step {j} out shape", st["out_shape"], o[1][0]))
                    checks.append(chkf(f"step {j} forward", st["out"], o[1][1]))
    else:
        _, oshape, out, cur, li, li2, pre, post, bc, pre4s, pre4 = tm
        checks = [chk("outshape", im["outshape"], oshape), chk("out shape", im["out_shape"], [c["B"]] + oshape),
                  chkf("forward", im["out"], out), chkf("like_synaptic / synapse current (unfold)", im["cur"], cur),
                  chkf("like_input(synapse current)", im["li_cur"], li), chkf("like_input(data)", im["li2"], li2),
                  chk("presyn shape", im["pre_shape"], pre), chk("postsyn shape", im["post_shape"], post),
                  chk("post*pre broadcast shape", im["bc_shape"], None if bc == [] else bc[0]),
                  chk("presyn4 shape", im["pre4_shape"], pre4s), chkf("presyn4", im["pre4"], pre4)]
    for d in checks:
        if d is not None:
            return d
    return None


def compare_seq(c, im, tm):
    if im.get("ok") != 1:
        return {"model": "constructed", "impl": [im.get("stage"), im.get("err"), im.get("msg")]}
    if len(tm) != len(im["rounds"]):
        return {"what": "number of rounds"}
    for j, (st, t) in enumerate(zip(im["rounds"], tm)):
        w, b, o = t
        tag = f"round {j} ({c['rounds'][j]['op'][0]})"
        if st.get("ok") != 1:
            return {"what": tag + " raised in the implementation", "impl": [st.get("stage"), st.get("msg")]}
        d = same_floats(st["w"], fl(w))
        if d is not None:
            return {"what": tag + " weight", "detail": d}
        if (st["b"] is None) != (b == []):
            return {"what": tag + " bias presence"}
        if b != []:
            d = same_floats(st["b"], fl(b[0]))
            if d is not None:
                return {"what": tag + " bias", "detail": d}
        if o[0] != 0:
            return {"what": tag + " forward", "model": o}
        if st["out_shape"] != o[1][0]:
            return {"what": tag + " out shape", "impl": st["out_shape"], "model": o[1][0]}
        d = same_floats(st["out"], fl(o[1][1]))
        if d is not None:
            return {"what": tag + " forward", "detail": d}
    return None


# ------------------------------------------------------------------ direct oracle (the property statement, on the implementation)
def approx(a, b):
    if a is None or b is None:
        return False
    return F.close(a, b, rel=1e-9, ab=1e-9)


def fail(kind, what, **kw):
    return {"detail": dict(what=what, **kw), "signature": {"kind": kind, "what": what}}


def valid(c):
    """is the case inside the property's quantifier (positive sizes, matching input, non-empty conv output)?"""
    k = c["kind"]
    if c["B"] <= 0:
        return False
    if k == "seq":
        return True          # generated inside the domain only
    if k == "dense":
        ins, outs = c["inshape"], c["outshape"]
        return (all(v > 0 for v in ins + outs) and c["xshape"][0] == c["B"] and prod(c["xshape"][1:]) == prod(ins))
    if k == "direct":
        return all(v > 0 for v in c["shape"]) and c["xshape"][0] == c["B"] and prod(c["xshape"][1:]) == prod(c["shape"])
    if k == "lateral":
        return all(v > 0 for v in c["shape"])
    if min(c["H"], c["W"], c["C"], c["F"], *c["k"], *c["s"], *c["d"]) <= 0 or min(c["p"]) < 0:
        return False
    ho = out_size(c["H"], c["p"][0], c["d"][0], c["k"][0], c["s"][0])
    wo = out_size(c["W"], c["p"][1], c["d"][1], c["k"][1], c["s"][1])
    return ho >= 1 and wo >= 1 and c["xshape"] == [c["B"], c["C"], c["H"], c["W"]]


def oracle(c, im):
    """None, or {detail, signature}.  Independent of the Coq model: plain sums with math.fsum over the implementation's
    own weight / current read-backs."""
    if im.get("ok") != 1:
        if im.get("ok") == 0 and valid(c):
            return fail(c["kind"], "raised on a valid configuration", stage=im.get("stage"), msg=im.get("msg"))
        return None        # genuine error paths are judged by the correspondence, not by the property
    if c["kind"] == "seq":
        return oracle_seq(c, im)
    k = c["kind"]
    if k in ("dense", "direct"):
        ins = c["inshape"] if k == "dense" else c["shape"]
        outs = c["outshape"] if k == "dense" else c["shape"]
        B, I, O = c["B"], prod(ins), prod(outs)
        x = eff(c, c["x"])
        if not exact(im["cur"], x) or im["cur_shape"] != [B, I]:
            return fail(k, "synapse current is not the flattened (scaled) input")
        if im["out_shape"] != [B] + outs or im["boutshape"] != [B] + outs or im["binshape"] != [B] + ins:
            return fail(k, "output not reshaped to the advertised shape", got=im["out_shape"], want=[B] + outs)
        W, b = c["W"], c["b"]
        for r in range(B):
            for o in range(O):
                if k == "dense":
                    want = math.fsum(x[r * I + i] * W[o][i] for i in range(I)) + (b[o] if b else 0.0)
                else:
                    want = x[r * I + o] * W[o] + (b[o] if b else 0.0)
                if not approx(im["out"][r * O + o], want):
                    return fail(k, "forward is not the documented linear map", batch=r, out=o, got=im["out"][r * O + o], want=want)
        # reshaping helpers
        if im["ls_shape"] != [B, I] or not exact(im["ls"], [float(v) for v in c["x"]]):
            return fail(k, "like_synaptic is not the row-major flattening")
        if im["li_shape"] != [B] + ins or not exact(im["li"], [float(v) for v in c["x"]]):
            return fail(k, "like_input(like_synaptic(x)) != x")
        wshape = [O, I] if k == "dense" else [O]
        if im["w_shape"] != wshape:
            return fail(k, "weight shape", got=im["w_shape"])
        want_bc = [B] + wshape + [1]
        if im["bc_shape"] != want_bc:
            return fail(k, "receptive views do not broadcast to B x weight-shape x 1", got=im["bc_shape"], want=want_bc)
        if k == "dense":
            # presyn view of B x I x O data: element [b, o, i, 0] is the presynaptic value of synapse (o, i)
            r3 = c["r3"]
            for r in range(B):
                for o in range(O):
                    for i in range(I):
                        if im["pre3"][(r * O + o) * I + i] != r3[(r * I + i) * O + o]:
                            return fail(k, "presyn_receptive does not line inputs up with weight[o, i]")
            if not exact(im["pre"], x) or not exact(im["post"], im["out"]):
                return fail(k, "receptive views change the data")
            if im["lb_shape"] != [O] or not exact(im["lb"], c["lb"]):
                return fail(k, "like_bias")
        return None
    if k == "lateral":
        n, B = prod(c["shape"]), c["B"]
        W = [[0.0 if i == j else c["winit"][i][j] for j in range(n)] for i in range(n)]
        snaps = [("init", None, im["init"])] + [(f"step {j}", op, st) for j, (op, st) in enumerate(zip(c["ops"], im["steps"]))]
        bcur = c["binit"]

        def expand(v):
            if v[0] == "mat":
                return v[1]
            if v[0] == "scalar":
                return [[v[1]] * n for _ in range(n)]
            if v[0] == "row":
                return [list(v[1]) for _ in range(n)]
            return [[v[1][i]] * n for i in range(n)]
        D = None
        if c["delay"] is not None:
            D = [[0.0] * n for _ in range(n)] if c["dinit"] is None else \
                [[0.0 if i == j else c["dinit"][i][j] for j in range(n)] for i in range(n)]
        for name, op, st in snaps:
            if op is not None and st.get("ok") != 1:
                return fail(k, "operation raised", step=name, impl=st)
            if op is not None:
                if op[0] == "setw":
                    W = expand(op[1])
                elif op[0] == "setd" and D is not None:
                    D = expand(op[1])
                elif op[0] == "setb" and bcur is not None:
                    bcur = op[1]
                elif op[0] == "upd":
                    W = [[W[i][j] + math.fsum(p[i][j] for p in op[1]) - math.fsum(q[i][j] for q in op[2]) for j in range(n)] for i in range(n)]
                    if D is not None:
                        D = [[D[i][j] + math.fsum(p[i][j] for p in op[3]) - math.fsum(q[i][j] for q in op[4]) for j in range(n)] for i in range(n)]
            for nm, got, ref in (("weight", st["w"], W), ("delay", st["d"], D)):
                if ref is None:
                    if got is not None:
                        return fail(k, nm + " exists without a delay parameter", step=name)
                    continue
                if (st["w_shape"] if nm == "weight" else st["d_shape"]) != [n, n]:
                    return fail(k, nm + " shape", step=name)
                for i in range(n):
                    if got[i * n + i] != 0.0:
                        return fail(k, f"nonzero self-{nm}", step=name, index=i, got=got[i * n + i])
                    for j in range(n):
                        if i != j and not approx(got[i * n + j], ref[i][j]):
                            return fail(k, f"off-diagonal {nm} differs from what was assigned", step=name, i=i, j=j,
                                        got=got[i * n + j], want=ref[i][j])
            if op is not None and op[0] == "fwd":
                x = eff(c, op[1])
                if st["out_shape"] != [B] + c["shape"]:
                    return fail(k, "output not reshaped to the advertised shape", step=name)
                for r in range(B):
                    for o in range(n):
                        want = math.fsum(x[r * n + i] * W[o][i] for i in range(n) if i != o) + (bcur[o] if bcur else 0.0)
                        if not approx(st["out"][r * n + o], want):
                            return fail(k, "forward is not x (W masked off the diagonal)^T + b", step=name, batch=r, out=o,
                                        got=st["out"][r * n + o], want=want)
        return None
    # conv
    H, W_, C, Fn, B = c["H"], c["W"], c["C"], c["F"], c["B"]
    (kh, kw), (sh, sw), (ph, pw), (dh, dw) = c["k"], c["s"], c["p"], c["d"]
    ho, wo = out_size(H, ph, dh, kh, sh), out_size(W_, pw, dw, kw, sw)
    if im["outshape"] != [Fn, ho, wo] or im["out_shape"] != [B, Fn, ho, wo] or im["inshape"] != [C, H, W_]:
        return fail(k, "advertised / actual output shape is not (F, floor((H+2p-d(k-1)-1)/s)+1, ...)", got=im["out_shape"],
                    want=[B, Fn, ho, wo])
    if im["ref_shape"] != im["out_shape"]:
        return fail(k, "shape differs from torch.nn.functional.conv2d", got=im["out_shape"], ref=im["ref_shape"])
    for j, (a, r) in enumerate(zip(im["out"], im["ref"])):
        if not approx(a, r):
            return fail(k, "forward differs from torch.nn.functional.conv2d", index=j, got=a, ref=r)
    x = eff(c, c["x"])

    def xat(b, ch, r, s):
        return x[((b * C + ch) * H + r) * W_ + s] if 0 <= r < H and 0 <= s < W_ else 0.0
    Wt, bias = c["Wt"], c["b"]
    read = set()
    for b in range(B):
        for f in range(Fn):
            for oh in range(ho):
                for ow in range(wo):
                    want = math.fsum(Wt[f][ch][i][j] * xat(b, ch, oh * sh + i * dh - ph, ow * sw + j * dw - pw)
                                     for ch in range(C) for i in range(kh) for j in range(kw)) + (bias[f] if bias else 0.0)
                    got = im["out"][((b * Fn + f) * ho + oh) * wo + ow]
                    if not approx(got, want):
                        return fail(k, "forward is not the zero-padded cross-correlation", b=b, f=f, oh=oh, ow=ow, got=got, want=want)
    for oh in range(ho):
        for ow in range(wo):
            for i in range(kh):
                for j in range(kw):
                    r, s = oh * sh + i * dh - ph, ow * sw + j * dw - pw
                    if 0 <= r < H and 0 <= s < W_:
                        read.add((r, s))
    # like_synaptic: row (c,i,j), column (oh,ow) holds the input element the weight [., c, i, j] multiplies at (oh, ow)
    N, L = C * kh * kw, ho * wo
    if im["cur_shape"] != [B, N, L]:
        return fail(k, "synaptic layout shape", got=im["cur_shape"])
    for b in range(B):
        for ch in range(C):
            for i in range(kh):
                for j in range(kw):
                    for oh in range(ho):
                        for ow in range(wo):
                            got = im["cur"][(b * N + (ch * kh + i) * kw + j) * L + oh * wo + ow]
                            if got != xat(b, ch, oh * sh + i * dh - ph, ow * sw + j * dw - pw):
                                return fail(k, "like_synaptic / presyn receptive layout", b=b, c=ch, i=i, j=j, oh=oh, ow=ow)
    # round trip on every position the connection reads; unread positions are 0/0
    xin = [float(v) for v in c["x"]]
    if im["li_shape"] != [B, C, H, W_]:
        return fail(k, "like_input shape", got=im["li_shape"])
    for b in range(B):
        for ch in range(C):
            for r in range(H):
                for s in range(W_):
                    got = im["li"][((b * C + ch) * H + r) * W_ + s]
                    if (r, s) in read:
                        if not approx(got, xin[((b * C + ch) * H + r) * W_ + s]):
                            return fail(k, "like_input(like_synaptic(x)) != x on a position the connection reads", b=b, c=ch, r=r, s=s,
                                        got=got, want=xin[((b * C + ch) * H + r) * W_ + s])
    if im["w_shape"] != [Fn, C, kh, kw] or im["bc_shape"] != [B, Fn, C, kh, kw, L]:
        return fail(k, "receptive views do not broadcast to B x weight-shape x L", got=im["bc_shape"])
    if not exact(im["pre"], im["cur"]) or not exact(im["post"], im["out"]):
        return fail(k, "receptive views change the data")
    r4 = c["r4"]
    for b in range(B):
        for f in range(Fn):
            for nidx in range(N):
                for l in range(L):
                    if im["pre4"][((b * Fn + f) * N + nidx) * L + l] != r4[((b * N + nidx) * L + l) * Fn + f]:
                        return fail(k, "presyn_receptive (per-filter data) does not line up with weight[f, c, i, j]")
    if im["lb_shape"] != [Fn] or not exact(im["lb"], c["lb"]):
        return fail(k, "like_bias")
    return None


def linear_map(c, w, b, x):
    """the documented map of connection c["conn"] with flat parameters w, b applied to the flat effective input x (pure Python)"""
    k, B = c["conn"], c["B"]
    if k in ("dense", "lateral"):
        I = prod(c["inshape"]) if k == "dense" else prod(c["shape"])
        O = prod(c["outshape"]) if k == "dense" else I
        return [math.fsum(x[r * I + i] * w[o * I + i] for i in range(I)) + (b[o] if b else 0.0) for r in range(B) for o in range(O)]
    if k == "direct":
        n = prod(c["shape"])
        return [x[r * n + o] * w[o] + (b[o] if b else 0.0) for r in range(B) for o in range(n)]
    H, W_, C, Fn = c["H"], c["W"], c["C"], c["F"]
    (kh, kw), (sh, sw), (ph, pw), (dh, dw) = c["k"], c["s"], c["p"], c["d"]
    ho, wo = out_size(H, ph, dh, kh, sh), out_size(W_, pw, dw, kw, sw)

    def xat(r_, ch, r, s_):
        return x[((r_ * C + ch) * H + r) * W_ + s_] if 0 <= r < H and 0 <= s_ < W_ else 0.0
    return [math.fsum(w[((f * C + ch) * kh + i) * kw + j] * xat(r, ch, oh * sh + i * dh - ph, ow * sw + j * dw - pw)
                      for ch in range(C) for i in range(kh) for j in range(kw)) + (b[f] if b else 0.0)
            for r in range(B) for f in range(Fn) for oh in range(ho) for ow in range(wo)]


def oracle_seq(c, im):
    """every step must be the documented linear map of the synapse current WITH THE PARAMETER VALUES THE CONNECTION REPORTS
    AT THAT MOMENT, and every public re-parameterisation route must leave behind the values it was given"""
    k = "seq-" + c["conn"]
    exp = seq_expected(c)
    lat = c["conn"] == "lateral"
    n = prod(c["shape"]) if lat else 0
    for j, (rd, st, e) in enumerate(zip(c["rounds"], im["rounds"], exp)):
        route = rd["op"][0] + ("" if len(rd["op"]) < 2 or not isinstance(rd["op"][1], str) else ":" + rd["op"][1])
        if st.get("ok") != 1:
            return fail(k, "raised on a valid configuration", round=j, route=route, stage=st.get("stage"), msg=st.get("msg"))
        x = eff(c, rd["x"])
        if c["conn"] != "conv" and not exact(st["cur"], x):
            return fail(k, "synapse current is not the flattened (scaled) input", round=j, route=route)
        want = linear_map(c, st["w"], st["b"], x)
        if len(want) != len(st["out"]):
            return fail(k, "output size", round=j, route=route)
        for i, (a, r) in enumerate(zip(st["out"], want)):
            if not approx(a, r):
                return fail(k, "forward is not the documented map of the parameters the connection reports", round=j, route=route,
                            index=i, got=a, want=r)
        if c["conn"] == "conv":
            for i, (a, r) in enumerate(zip(st["out"], st["ref"])):
                if not approx(a, r):
                    return fail(k, "forward differs from torch.nn.functional.conv2d with the reported weight", round=j, route=route,
                                index=i, got=a, ref=r)
        if st["w_after"] != st["w"]:
            return fail(k, "forward changed the weight", round=j, route=route)
        ew, eb, ed = e[0], e[1], e[2]
        for nm, got, ref in (("weight", st["w"], ew), ("bias", st["b"], eb), ("delay", st["d"], ed)):
            if (got is None) != (ref is None):
                return fail(k, nm + " presence", round=j, route=route)
            if ref is None:
                continue
            if len(got) != len(ref) or any(not approx(a, r) for a, r in zip(got, ref)):
                return fail(k, f"{nm} after a re-parameterisation is not what the route was given", round=j, route=route,
                            got=got[:8], want=ref[:8])
        if lat:
            # masked routes (constructor, setter, updater, twin's constructor): exactly no self-weight; delays only ever
            # change through masked routes here.  In-place writes bypass the mask by design (the getter hands out the Parameter).
            op = rd["op"]
            if j == 0 or op[0] in ("upd", "load") or (op[0] == "set" and op[1] == "weight"):
                if any(st["w"][i * n + i] != 0.0 for i in range(n)):
                    return fail(k, "nonzero self-weight", round=j, route=route)
            if st["d"] is not None and any(st["d"][i * n + i] != 0.0 for i in range(n)):
                return fail(k, "nonzero self-delay", round=j, route=route)
    return None


def nontrivial(c):
    if c["kind"] == "seq":
        return len(c["rounds"]) >= 3
    if c["kind"] == "lateral":
        return len(c["ops"]) >= 3
    if c["kind"] == "conv":
        return prod(c["k"]) * c["C"] >= 2
    return prod(c["inshape"] if c["kind"] == "dense" else c["shape"]) >= 2


def nonfinite_probe():
    c = {"kind": "lateral", "shape": [2], "B": 1, "bias": False, "delay": None, "syn": {"t": "dplus", "dt": 1.0},
         "winit": [[1.0, 2.0], [3.0, 4.0]], "binit": None, "dinit": None,
         "ops": [["setw", ["mat", [[math.inf, 1.0], [1.0, math.inf]]]]]}
    r = F.run_impl(IMPL, {"cases": [c]})[0]
    w = r["steps"][0]["w"]
    return c, {"assigned": "inf on the diagonal", "weight_after": w, "diag_is_nan": w[0] is None and w[3] is None}


def load_corpus():
    out = []
    for p in sorted(glob.glob(os.path.join(F.VERIF, "corpus", ID, "*.json"))):
        out.append(json.load(open(p)))
    return out


def run(ctx):
    rng = random.Random(ctx["seed"])
    quick = ctx["tier"] == "quick"
    cases = load_corpus() + gen_cases(rng, 300 if quick else 3000, big=not quick)
    if not quick:
        cases += exhaustive_conv_geometries(rng, 1200)
    impl = F.run_impl(IMPL, {"cases": cases})
    model = F.eval_terms(ID, HEADER, [q_case(c, im) for c, im in zip(cases, impl)], shard=(20 if quick else 60))
    mismatches, oracle_fail = [], []
    for c, im, tm in zip(cases, impl, model):
        if isinstance(tm, Exception):
            mismatches.append({"case": c, "detail": str(tm)})
            continue
        d = compare(c, im, tm)
        if d is not None:
            mismatches.append({"case": c, "detail": d})
        o = oracle(c, im)
        if o is not None:
            oracle_fail.append({"case": c, "detail": o["detail"], "signature": o["signature"]})
    pc, probe = nonfinite_probe()
    if REPORT_NONFINITE and probe["diag_is_nan"]:
        oracle_fail.append({"case": pc, "detail": probe, "signature": {"kind": "lateral", "what": "nonfinite self-weight"}})
    convs = [c for c in cases if c["kind"] == "conv"]
    return {
        "evaluations": len(cases),
        "distinct_nontrivial": len({json.dumps(c, sort_keys=True) for c in cases if nontrivial(c)}),
        "rule": "40% of the cases are SEQUENCES on one connection (dense / direct / lateral 10% each... conv 20%): forward, then 2-5 rounds of "
                "[re-parameterise through a public route - weight/bias/delay property setter, Updater application, in-place add_/copy_/"
                "element write, load_state_dict from a twin, .to(float64|cpu|float32 and back), or nothing - then forward], the oracle "
                "computing the documented map from the parameter values the connection REPORTS at that moment and checking that each "
                "route left behind the values it was given; the rest single-step cases: LinearDense, 20% LinearDirect, 20% LinearLateral operation sequences (3-10 ops: "
                "masked weight/delay assignments incl. broadcast values, bias assignment, updater application with 0-2 positive/negative "
                "parts, forward), 40% Conv2D geometries (H,W<=7 quick / 9 thorough, kernel<=3, stride<=3, padding<=2, dilation<=3, C,F<=3, "
                "int or tuple arguments); every 8th case malformed (non-positive sizes, wrong batch / channel count, empty conv output); "
                "DeltaPlusCurrent (real-valued input) or DeltaCurrent (spikes, charge/dt scaling) synapses; non-trivial = >=2 inputs per output "
                "/ >=3 lateral ops; distinct by full case text"
                + ("" if quick else "; plus 1200 conv cases sweeping every per-axis (H<=6,k,s,p,d) geometry with non-empty output"),
        "kind_distribution": dict(Counter(c["kind"] for c in cases)),
        "error_distribution": dict(Counter(f"{i.get('stage')}:{i.get('err')}" for i in impl if i.get("ok") == 0)),
        "lateral_op_distribution": dict(Counter(o[0] for c in cases if c["kind"] == "lateral" for o in c["ops"])),
        "conv_geometry_distribution": {
            "stride": dict(Counter(str(c["s"]) for c in convs).most_common(5)),
            "dilation>1": sum(1 for c in convs if max(c["d"]) > 1), "padding>0": sum(1 for c in convs if max(c["p"]) > 0),
            "non_divisible_stride": sum(1 for c in convs if any((sz + 2 * p - d * (k - 1) - 1) % s for sz, p, d, k, s in
                                                                 zip((c["H"], c["W"]), c["p"], c["d"], c["k"], c["s"])))},
        "sequence_route_distribution": dict(Counter(
            rd["op"][0] + (":" + rd["op"][1] if len(rd["op"]) > 1 and isinstance(rd["op"][1], str) else "")
            for c in cases if c["kind"] == "seq" for rd in c["rounds"])),
        "sequence_conn_distribution": dict(Counter(c["conn"] for c in cases if c["kind"] == "seq")),
        "nonfinite_assignment_probe": probe,
        "samples": [{k: v for k, v in c.items() if k not in ("r3", "r4", "lb")} for c in cases[:2]],
        "mismatches": mismatches, "oracle_failures": oracle_fail,
        "traces_validated_against_impl": len(cases) - len(mismatches),
    }


def minimise(case):
    """shrink a failing case against implementation + oracle: drop lateral ops / shrink nothing else (cases are already small)"""
    def bad(c):
        im = F.run_impl(IMPL, {"cases": [c]})[0]
        return oracle(c, im)
    d = bad(case)
    if d is None:
        return case, None
    if case["kind"] == "seq":
        rounds = list(case["rounds"])
        i = 1
        while i < len(rounds):
            cand = dict(case, rounds=rounds[:i] + rounds[i + 1:])
            d2 = bad(cand)
            if d2 is not None:
                rounds, d = cand["rounds"], d2
            else:
                i += 1
        case = dict(case, rounds=rounds)
    if case["kind"] == "lateral":
        ops = list(case["ops"])
        i = 0
        while i < len(ops):
            cand = dict(case, ops=ops[:i] + ops[i + 1:])
            d2 = bad(cand)
            if d2 is not None:
                ops, d = cand["ops"], d2
            else:
                i += 1
        case = dict(case, ops=ops)
    return case, d["detail"]


def replay(case):
    im = F.run_impl(IMPL, {"cases": [case]})[0]
    o = oracle(case, im)
    if o is None:
        return True, "replay: the implementation satisfies the property on this case"
    return False, "replay: still failing: " + repr(o["detail"])[:1500]
