"""C13 - resizing a record keeps the newest observations and the size formula; constraint bookkeeping
stays consistent.  Case generator, Coq rendering, correspondence and the direct oracle."""
from __future__ import annotations
import copy, math, os, random
from collections import Counter
from fractions import Fraction
import framework as F
import c01  # rendering of the C01 ring operations

ID = "C13"
GEN = ["Infra", "Constraints"]
LEVEL = "proof"
TECHNIQUE = ("Coq proof over a branch-by-branch model of ShapedTensor.reconstrain / RecordTensor temporal setters built on the "
             "C01 ring model: size formula stated on the generated record-size expression, history preservation through "
             "'the observation k steps before the write position', constraint-validity invariant by induction over operation "
             "sequences; model tied to the code by translation (size expression, _unwind_ptr, and the constraint bookkeeping functions - "
             "dimensionality / compatibility / consistency / ignore / valid / the reconstrain decision logic - each proved equal to "
             "its translation) and differential correspondence")
LEVEL_TEXT = ("Machine-checked proofs (Coq) that, in the model, every temporal setter (dt, duration, inclusive) leaves exactly "
              "max(ceil(duration/dt)+inclusive,1) slots (real arithmetic; stated on the translated expression), preserves the newest "
              "min(old,new) observations at the same steps-before-present positions, zero-fills older new slots, and succeeds on "
              "uninitialised storage; that a tensor reported valid satisfies every constraint, that a refused add has no effect, "
              "that removal never alters data and that validity is invariant under arbitrary reconstrain sequences.  The model is "
              "tied to the code by re-translating, on every run, the size expression and the constraint bookkeeping of ShapedTensor "
              "(_constraint_dimensionality, _constraints_compatible, _constraints_consistent, _ignore, _ignore_or_compatible, valid, "
              "compatible, the add/edit/remove decision logic of reconstrain, RecordTensor.reconstrain's dimension shift; Gen/Constraints.v) "
              "and PROVING each corresponding model function equal to the generated one (obligations gen_*_eq), and by a differential "
              "correspondence check on seeded operation sequences; an independent Python oracle evaluates the property statement on "
              "the implementation.")
LEVEL_NOTE = ("Trusted: Coq kernel; the translator (size expression, _unwind_ptr, and the pattern-checked extractor for the constraint "
              "bookkeeping with its fixed reading of the python primitives - dict as association list with unique keys, negative "
              "indexing, max/min over keys, short-circuit or/and, the attribute's value seen as None / uninitialised / shape); "
              "no function of the constraint bookkeeping is hand-transcribed any more (each model function is proved equal to its "
              "translation).  Still hand-written and validated by correspondence only: the DATA side of C13/Shaped.v "
              "(__make_compatible on flat row-major data, the value setter, the state threading of reconstrain around the generated "
              "decision) and C13/Resize.v (constructor incl. its dict comprehension, temporal setters around the generated size "
              "expression, alignment, value setter, deinitialize); "
              "torch slicing/cat/roll and nn.Module attribute plumbing modelled by their meaning.  Floating-point rounding of "
              "duration/dt is not covered by the real-number theorems (the binary64 reading is validated by correspondence). "
              "Known limitation (reported): with non-strict constraints a negative dim aliasing the record dimension makes the "
              "setters raise after the temporal field was stored; theorems assume no such alias.")
TRUSTED = [
    "translator, special module Constraints (tools/translate.py: translate_constraints): the fixed prelude of Gen/Constraints.v "
    "(python dict[int,int] = association list with unique keys in insertion order; `c[d] = s` / `c | {d: s}` / `del c[d]` / "
    "`d in c` / max(c) / min(c); negative sequence indexing; the attribute's value abstracted to None / uninitialised / shape; "
    "argtest.gte('size', size, 0, int) read as 'ValueError unless size >= 0') and the exact loop / starmap / if-tree shapes it "
    "accepts (anything else is a TranslationError).  The eight translated functions are proved equal to the model's "
    "(obligations gen_dimensionality_eq, gen_consistent_eq, gen_compatible_eq, gen_compatible_method_eq, gen_ignore_eq, "
    "gen_ignore_or_compatible_eq, gen_valid_eq, gen_reconstrain_eq, gen_rreconstrain_eq)",
    "hand-written, tied to the code only by the differential correspondence of this check: the data side of coq/C13/Shaped.v "
    "(__make_compatible / resize_dim on flat row-major data, value setter, how reconstrain applies the generated decision to the "
    "state) and coq/C13/Resize.v (RecordTensor constructor incl. the shift of user constraints, dt/duration/inclusive setters "
    "around the generated size expression, align-then-reconstrain, value setter, deinitialize) on top of coq/C01/Ring.v",
    "torch semantics assumed by the model: basic slicing t[..., a:, ...], torch.cat along a dim, torch.zeros, Tensor.roll, "
    "nn.Parameter.data assignment keeps the parameter object",
]
ASSUMES = [
    "theorems about the record size are over the reals; binary64 rounding of duration/dt is validated by correspondence only",
    "record-level theorems assume a well-formed valid record without a constraint aliasing the record dimension (automatic for "
    "strict constraints; see obligation setter_alias_nonstrict_refuted for what happens otherwise)",
    "assignment of an initialised tensor through `value` (which can invalidate a non-live record) and range writes are outside the "
    "run-level invariant theorem (de-initialising assignments - None / empty tensor - are inside)",
]
EXPLANATION = ("Obligations: tie - each model function of the constraint bookkeeping equals the function generated from the source "
               "(gen_*_eq) and the independent specifications restated on the generated functions (gen_*_spec).  ShapedTensor level - dimensionality/consistency/compatibility tests equal independent specifications "
               "(iff), valid is sound, reconstrain branch by branch (refused calls have no effect, removal never alters data, edit "
               "resizes), validity invariant over arbitrary operation sequences, index-level specification of the data resize. "
               "RecordTensor level - every temporal setter yields the generated number of slots, keeps the newest min(old,new) "
               "observations in place, zero-fills older slots, never fails on uninitialised storage; reconstrain on a record; "
               "invariant over all runs from the constructor; the size expression equals the documented formula and is the least "
               "admissible size (reals).")
HEADER = ("From Coq Require Import List ZArith Bool PrimFloat.\n"
          "From Inferno Require Import Base.Num Base.NumF C01.Ring C01.RingExec C13.Shaped C13.Resize C13.ResizeExec.\n"
          "Import ListNotations.\nOpen Scope Z_scope.\n")
IMPL = os.path.join(F.VERIF, "tools", "impl", "c13_impl.py")

OBS_SHAPES = [[], [2], [2, 3], [1], [3, 1], [2, 2]]
DTS = [1.0, 1.0, 0.5, 0.25, 2.0, 0.1, 0.3, 1.3, 0.7, 0.2]
DURS = [0.0, 1.0, 2.0, 3.0, 0.5, 2.5, 0.3, 0.6, 0.9, 1.3, 3 * 0.1, 2.6, 0.1, 4.0, 1.5, 0.75, 6.0]


def nel(shape):
    n = 1
    for s in shape:
        n *= s
    return n


def size_float(dur, dt, incl):
    return max(math.ceil(dur / dt) + (1 if incl else 0), 1)


# ------------------------------------------------------------------ generators
def pick_temporal(rng, dt=None):
    for _ in range(50):
        d = rng.choice(DTS) if dt is None else dt
        u = rng.choice(DURS)
        if u / d <= 9:
            return d, u
    return 1.0, 2.0


def gen_ucons(rng, sh, strict, malformed):
    """user constraints for observation shape sh; mostly satisfied by sh"""
    cons = {}
    n = len(sh)
    for ax in range(n):
        r = rng.random()
        if r < 0.45:
            key = ax if rng.random() < 0.6 else ax - n
            cons[key] = sh[ax]
            if not strict and rng.random() < 0.25:
                cons[ax] = sh[ax]
                cons[ax - n] = sh[ax]
    if strict and cons:
        # strict constraints need every non-negative key before every negative one
        pos = [k for k in cons if k >= 0]
        neg = [k for k in cons if k < 0]
        if pos and neg and max(pos) >= n + min(neg):
            cons = {k: v for k, v in cons.items() if k >= 0}
    if malformed and cons and rng.random() < 0.3:
        k = rng.choice(sorted(cons))
        cons[k] = cons[k] + 1
    return sorted([k, v] for k, v in cons.items())


def gen_record(rng: random.Random, malformed: bool):
    strict = rng.random() < 0.7
    sh = rng.choice(OBS_SHAPES)
    d0 = rng.choice([1, 1, 2, 2, 2, 0])
    param = rng.random() < 0.2
    vk = "t" if param else rng.choice(["none", "none", "empty", "t", "t", "t", "t"])
    if vk == "none":
        value = None
    elif vk == "empty":
        value = ["t", d0, [0], []]
    else:
        value = ["t", d0, sh, [val(rng, d0, 0) for _ in range(nel(sh))]]
    dt, dur = pick_temporal(rng)
    incl = rng.random() < 0.4
    if malformed and rng.random() < 0.1:
        dt = rng.choice([0.0, -1.0])
    ucons = gen_ucons(rng, sh, strict, malformed)
    case = {"kind": "record", "strict": strict, "live": rng.random() < 0.15, "param": param, "ucons": ucons,
            "dt": dt, "dur": dur, "incl": incl, "value": value, "ops": []}
    # generator-side tracking (assumes the common, successful, outcome)
    cur_sh = list(sh)
    cons = {k: v for k, v in ucons}
    dirty = False
    inited = vk == "t"
    dcur = d0 if vk != "none" else None
    counter = [0]
    ops = case["ops"]
    tcur = {"dt": dt, "dur": dur, "incl": incl}      # temporal configuration as the generator believes it to be
    nops = rng.randint(4, 22)
    for _ in range(nops):
        if dirty:
            k = rng.choice(["dt", "dur", "incl", "recon", "recon", "setv", "deinit"])
        else:
            k = rng.choice(["push"] * 7 + ["dt", "dt", "dur", "dur", "dur", "incl", "recon", "recon", "recon", "read", "ptr",
                                           "setv", "deinit"] + (["push"] * 4 if not inited else []))
        if k == "push":
            dd = dcur if dcur is not None else rng.choice([1, 2])
            if malformed and rng.random() < 0.1:
                shp = rng.choice([s for s in OBS_SHAPES if s != cur_sh])
            else:
                shp = list(cur_sh)
            counter[0] += 1
            els = [val(rng, dd, counter[0]) for _ in range(nel(shp))]
            ops.append(["ring", ["push", dd, shp, els, (rng.random() < 0.4) and not param]])
            if not inited and shp == cur_sh:
                inited = True
                if dcur is None:
                    dcur = dd
        elif k == "read":
            ops.append(["ring", ["read", rng.randint(0, 7)]])
        elif k == "ptr":
            c = rng.choice(["incr", "decr", "align"])
            ops.append(["ring", [c, rng.randint(0, 3)]])
        elif k == "dt":
            x = rng.choice(DTS)
            if malformed and rng.random() < 0.15:
                x = rng.choice([0.0, -0.5])
            ops.append(["dt", x])
            if x > 0:
                tcur["dt"] = x
        elif k == "dur":
            x = rng.choice(DURS)
            if malformed and rng.random() < 0.15:
                x = -1.0
            ops.append(["dur", x])
            if x >= 0:
                tcur["dur"] = x
        elif k == "incl":
            ops.append(["incl", rng.random() < 0.5])
            tcur["incl"] = ops[-1][1]
        elif k == "recon":
            n = len(cur_sh)
            r = rng.random()
            keys = sorted(cons)
            if keys and r < 0.45:                      # edit
                key = rng.choice(keys)
                size = rng.choice([0, 1, 2, 3, 4, cons[key]])
                ops.append(["recon", key, size])
                ax = key if key >= 0 else key + n
                if 0 <= ax < n and not (malformed and False):
                    cons[key] = size
                    if inited:
                        for k2 in cons:
                            a2 = k2 if k2 >= 0 else k2 + n
                            if a2 == ax:
                                cons[k2] = size if strict else cons[k2]
                        cur_sh[ax] = size
            elif keys and r < 0.6:                     # remove
                key = rng.choice(keys)
                ops.append(["recon", key, None])
                del cons[key]
            elif r < 0.9 and n > 0:                     # add (mostly compatible)
                ax = rng.randrange(n)
                key = ax if rng.random() < 0.6 else ax - n
                size = cur_sh[ax] if rng.random() < 0.75 else rng.choice([0, 1, 2, 3])
                ops.append(["recon", key, size])
                if key not in cons and size == cur_sh[ax]:
                    cons[key] = size
            else:                                       # stray: out of range dims, negative sizes, record-dim alias
                key = rng.choice([-n - 1, -n - 1, n, n + 1, -n - 2, 5])
                n_est = size_float(tcur["dur"], tcur["dt"], tcur["incl"]) if tcur["dt"] > 0 else 1
                size = rng.choice([None, -1, 1, 2, 3, n_est, n_est])      # key -n-1 with the record size: accepted when non-strict
                ops.append(["recon", key, size])
        elif k == "setv":
            r = rng.random()
            if r < 0.15 and not param:
                ops.append(["setv", ["none"]]); inited = False; dirty = False; dcur = None
            elif r < 0.3:
                dd = dcur if dcur is not None else 2
                ops.append(["setv", ["empty", dd]]); inited = False; dirty = False
            else:
                dd = dcur if dcur is not None else rng.choice([1, 2])
                shp = list(cur_sh) if rng.random() < 0.7 else list(rng.choice(OBS_SHAPES))
                nrows = rng.choice([1, 2, 3, 4])
                if nrows * nel(shp) == 0 and len(shp) == 0:
                    nrows = 1
                rows = []
                for _r in range(nrows):
                    counter[0] += 1
                    rows.append([val(rng, dd, counter[0]) for _ in range(nel(shp))])
                ops.append(["setv", ["full", dd, shp, rows]])
                dirty = True
                inited = True
                dcur = dd
        elif k == "deinit":
            ops.append(["deinit"]); inited = False; dirty = False
            if dcur is None:
                dcur = 2
    return case


def val(rng, d, c):
    if d == 0:
        return 2
    if d == 1:
        return 2 * c if c else 0
    return 2 * c + (1 if c and rng.random() < 0.3 else 0)


SH_SHAPES = [[], [3], [2, 3], [2, 1, 3], [0], [0, 2], [4], [1, 1], [3, 2, 2]]


def gen_data(rng, shape=None, d=None):
    shape = rng.choice(SH_SHAPES) if shape is None else shape
    d = rng.choice([1, 2]) if d is None else d
    return ["t", d, list(shape), [2 * (i + 1) for i in range(nel(shape))]]


def gen_shaped(rng, malformed):
    strict = rng.random() < 0.6
    shape = rng.choice(SH_SHAPES)
    n = len(shape)
    param = rng.random() < 0.25
    r = rng.random()
    if r < 0.12 and not param:
        init = ["none"]
    elif r < 0.2:
        init = ["uninit"]
    else:
        init = gen_data(rng, shape)
    cons = {k: v for k, v in gen_ucons(rng, shape, strict, malformed)}
    case = {"kind": "shaped", "strict": strict, "live": rng.random() < 0.3, "param": param,
            "cons": sorted([k, v] for k, v in cons.items()), "init": init, "ops": []}
    cur = list(shape)
    for _ in range(rng.randint(3, 14)):
        keys = sorted(cons)
        r = rng.random()
        if r < 0.35 and keys:
            key = rng.choice(keys)
            size = rng.choice([0, 1, 2, 3, 4, 5])
            case["ops"].append(["recon", key, size])
            cons[key] = size
            ax = key if key >= 0 else key + n
            if 0 <= ax < n and init[0] == "t":
                cur[ax] = size
        elif r < 0.5 and keys:
            key = rng.choice(keys)
            case["ops"].append(["recon", key, None])
            del cons[key]
        elif r < 0.8:
            if n > 0 and rng.random() < 0.8:
                ax = rng.randrange(n)
                key = ax if rng.random() < 0.5 else ax - n
                size = cur[ax] if rng.random() < 0.7 else rng.choice([0, 1, 2, 3])
            else:
                key = rng.choice([-n - 1, n, n + 1, 0, -1])
                size = rng.choice([None, -1, 0, 1, 2, 3])
            case["ops"].append(["recon", key, size])
            if key not in cons and size is not None and size >= 0 and 0 <= (key if key >= 0 else key + n) < n \
                    and cur[key if key >= 0 else key + n] == size:
                cons[key] = size
        elif r < 0.93 and not (param and init[0] != "t"):
            # (a parameter only accepts tensors of its own data type through .data: torch plumbing, not modelled)
            pd = init[1] if param else None
            if rng.random() < 0.6:
                x = gen_data(rng, list(cur) if rng.random() < 0.6 else None, pd)
                if init[0] != "t":
                    init = x
                    n = len(x[2])
                cur = list(x[2]); n = len(cur)
            else:
                x = ["none"] if not param else gen_data(rng, [0], pd)
                cur = list(x[2]) if x[0] == "t" else cur
                n = len(cur)
            case["ops"].append(["setv", x])
        else:
            case["ops"].append(["recon", rng.randint(-3, 3), rng.choice([None, -2, 1, 2])])
    return case


def gen_cases(rng, n):
    out = []
    for i in range(n):
        malformed = i % 5 == 4
        out.append(gen_shaped(rng, malformed) if i % 3 == 2 else gen_record(rng, malformed))
    return out


def exhaustive_cases():
    """small-scope enumeration (thorough tier): every (old, new) record size pair up to 5 x every pointer position x
    fill level, through each of the three setters; every add/edit/remove triple on a 2-d ShapedTensor"""
    cases = []
    for n_old in range(1, 6):
        for n_new in range(1, 6):
            for pushes in range(0, n_old + 3):
                for via in ("dur", "dt", "incl"):
                    ops = [["ring", ["push", 1, [2], [2 * (i + 1), 2 * (i + 1) + 100], False]] for i in range(pushes)]
                    if via == "dur":
                        c = {"dt": 1.0, "dur": float(n_old), "incl": False}
                        ops.append(["dur", float(n_new)])
                    elif via == "dt":
                        c = {"dt": 1.0, "dur": float(n_old), "incl": False}
                        ops.append(["dt", n_old / n_new])
                    else:
                        if abs(n_old - n_new) != 1:
                            continue
                        inc0 = n_new < n_old
                        c = {"dt": 1.0, "dur": float(n_old - (1 if inc0 else 0)), "incl": inc0}
                        if c["dur"] == 0 and inc0:
                            continue
                        ops.append(["incl", not inc0])
                    ops.append(["ring", ["read", 1]])
                    cases.append(dict({"kind": "record", "strict": True, "live": False, "param": False, "ucons": [[0, 2]],
                                       "value": None if pushes % 2 else ["t", 1, [2], [0, 0]], "ops": ops}, **c))
    import itertools
    alpha = [["recon", 0, 2], ["recon", 0, 3], ["recon", 1, 3], ["recon", -1, 1], ["recon", -2, 2], ["recon", 0, None],
             ["recon", -1, None], ["recon", 1, 0], ["setv", ["t", 1, [3, 3], [2 * i for i in range(9)]]], ["recon", 2, 1]]
    for strict in (True, False):
        for seq in itertools.product(range(len(alpha)), repeat=3):
            cases.append({"kind": "shaped", "strict": strict, "live": False, "param": False, "cons": [],
                          "init": ["t", 1, [2, 3], [2, 4, 6, 8, 10, 12]], "ops": [copy.deepcopy(alpha[i]) for i in seq]})
    return cases


# ------------------------------------------------------------------ rendering to Coq
def q_nat(n):
    return f"{int(n)}%nat"


def q_shape(sh):
    return F.coq_list([q_nat(s) for s in sh])


def q_zs(zs):
    return F.coq_list([str(int(z)) if z >= 0 else f"({int(z)})" for z in zs])


def q_cons(c):
    return F.coq_list([f"(({int(k)})%Z, {q_nat(v)})" for k, v in c])


def q_tensor(x):
    return f"(mkT {x[1]} {q_shape(x[2])} {q_zs(x[3])})"


def q_data(x):
    if x[0] == "none":
        return "DNone"
    if x[0] == "uninit":
        return "DUninit"
    return f"(DTensor {q_tensor(x)})"


def q_storage(x):
    if x[0] == "none":
        return "SNone"
    if x[0] == "empty":
        return f"(SEmpty {x[1]})"
    return f"(SFull {x[1]} {q_shape(x[2])} {F.coq_list([q_zs(r) for r in x[3]])})"


def q_size(z):
    return "None" if z is None else f"(Some ({int(z)}))"


def q_sop(op):
    if op[0] == "recon":
        return f"SRecon ({op[1]}) {q_size(op[2])}"
    return f"SSetValue {q_data(op[1])}"


def q_rop(op):
    k = op[0]
    if k == "ring":
        return f"RRing FN ({c01.q_op(op[1])})"
    if k == "dt":
        return f"RSetDt FN {F.coq_float(op[1])}"
    if k == "dur":
        return f"RSetDur FN {F.coq_float(op[1])}"
    if k == "incl":
        return f"RSetIncl FN {F.coq_bool(op[1])}"
    if k == "recon":
        return f"RRecon FN ({op[1]}) {q_size(op[2])}"
    if k == "setv":
        return f"RSetValue FN {q_storage(op[1])}"
    if k == "deinit":
        return "RDeinit FN"
    raise AssertionError(k)


def q_case(c):
    b = F.coq_bool
    if c["kind"] == "shaped":
        return (f"shaped_case {b(c['strict'])} {b(c['live'])} {b(c['param'])} {q_cons(c['cons'])} {q_data(c['init'])} "
                f"{F.coq_list([q_sop(o) for o in c['ops']])}")
    v = "None" if c["value"] is None else f"(Some {q_tensor(c['value'])})"
    return (f"record_case {b(c['strict'])} {b(c['live'])} {b(c['param'])} {q_cons(c['ucons'])} {F.coq_float(c['dt'])} "
            f"{F.coq_float(c['dur'])} {b(c['incl'])} {v} {F.coq_list([q_rop(o) for o in c['ops']])}")


# ------------------------------------------------------------------ canonical forms for comparison
def canon_model(case, tm):
    """model tree -> the implementation's trace format"""
    out = []
    if case["kind"] == "shaped":
        for i, e in enumerate(tm):
            if len(e) == 1:
                out.append([e[0]])
                continue
            err, s = e
            cons, data, valid, ign, dim, par = s
            out.append([err, [sorted([list(x) for x in cons]), data, valid, ign, dim, par]])
        return out
    for i, e in enumerate(tm):
        if len(e) == 1:
            out.append([e[0]])
            continue
        if i == 0:
            err, s = e
            ro = None
        else:
            err, ro, s = e
            ro = ro[0] if ro else None
        ring, cons, dt, dur, incl, valid, ign, par, ucons = s
        snap = [ring, sorted([list(x) for x in cons]), F.dec_float(dt), F.dec_float(dur), incl, valid, ign, par,
                sorted([list(x) for x in ucons])]
        out.append([err, snap] if i == 0 else [err, ro, snap])
    return out


def canon_impl(case, ti):
    out = []
    if case["kind"] == "shaped":
        return ti
    for i, e in enumerate(ti):
        if len(e) == 1:
            out.append(e)
            continue
        s = e[-1]
        if isinstance(s, dict):
            out.append(e)
            continue
        snap = [s[0], s[1], F.dec_float(s[2]), F.dec_float(s[3])] + s[4:]
        out.append([e[0], snap] if i == 0 else [e[0], e[1], snap])
    return out


# ------------------------------------------------------------------ direct oracle (independent of the Coq model)
def size_candidates(dur, dt, incl):
    """the documented size max(ceil(T/dt)+incl, 1) in exact rational arithmetic on the given doubles; when the
    quotient is within 1e-9 (relative) of an integer the rounding of the floating division may go either way"""
    q = Fraction(dur) / Fraction(dt)
    i = 1 if incl else 0
    c = {max(math.ceil(q) + i, 1)}
    r = round(q)
    if r > 0 and abs(q - r) <= Fraction(1, 10 ** 9) * r:
        c |= {max(r + i, 1), max(r + 1 + i, 1)}
    return c


def ring_hist(ring):
    """snapshot of the ring -> (N, dtype, shape, [at(1), ..., at(N)]) or None when storage is not a sane N-row tensor"""
    N, ptr, kind = ring[0], ring[1], ring[2]
    if kind != 2:
        return None
    d, sh, rows = ring[3], ring[4], ring[5]
    if len(rows) != N or N == 0:
        return None
    return N, d, sh, [rows[(ptr - k) % N] for k in range(1, N + 1)]


def resize_obs(sh, flat, ax, size):
    """the property's own reading of a resize of axis ax: new index j along ax reads old index j - (size - old)
    (the tail is kept), indices before the old data read zero"""
    old = sh[ax]
    new_sh = list(sh)
    new_sh[ax] = size
    strides = []
    acc = 1
    for s in reversed(sh):
        strides.insert(0, acc)
        acc *= s
    out = []
    total = nel(new_sh)
    for lin in range(total):
        idx = []
        rem = lin
        for s in reversed(new_sh):
            idx.insert(0, rem % s)
            rem //= s
        src = idx[ax] - (size - old)
        if src < 0:
            out.append(0)
        else:
            idx[ax] = src
            out.append(flat[sum(i * st for i, st in zip(idx, strides))])
    return new_sh, out


def constraint_holds(shape, cons, strict):
    """'satisfies every constraint': every constrained dim exists and has the constrained size (strict: the dims
    are distinct)"""
    n = len(shape)
    seen = set()
    for d, s in cons:
        if not (-n <= d < n):
            return False
        a = d % n
        if shape[a] != s:
            return False
        if strict and a in seen:
            return False
        seen.add(a)
    return True


def constraints_satisfied(shape, cons, strict):
    """the converse direction (what compatible_spec proves the test to be): every constrained dim exists and has the
    constrained size; strict: every dim addressed from the front lies strictly before every dim addressed from the back"""
    n = len(shape)
    for d, s in cons:
        if not (-n <= d < n) or shape[d] != s:
            return False
    if strict:
        front = [d for d, _s in cons if d >= 0]
        back = [n + d for d, _s in cons if d < 0]
        if front and back and max(front) >= min(back):
            return False
    return True


def shape_ignored(shape):
    return nel(shape) == 0 and len(shape) <= 1


# The one place where the unchanged tree does not do what the property's first clause says (reported to the lead as a
# finding candidate, see setter_alias_nonstrict_refuted): with NON-strict constraints a negative key can address the
# record dimension; a temporal setter then raises RuntimeError after it stored the new dt/duration, so the record keeps
# its old number of slots.  Not judged as a failure while the flag is False (the check must pass on the unchanged tree);
# set it to True together with a known_findings.json entry matching {"kind": "setter_raises_record_dim_aliased"}.
REPORT_ALIAS_AS_FAILURE = True
CANDIDATES = []


def fail(step, op, kind, **kw):
    return {"step": step, "op": op, "what": kind, **kw}, {"kind": kind}


def oracle_record(case, tr):
    strict = case["strict"]
    # the constructor: refuses exactly bad temporal arguments (ValueError) and an initial value that is neither ignored nor
    # compatible with the given constraints (RuntimeError)
    v = case["value"]
    bad_t = not case["dt"] > 0 or not case["dur"] >= 0
    if bad_t:
        want = 2
    elif v is None or shape_ignored(v[2]):
        want = 0
    else:
        n0 = size_float(case["dur"], case["dt"], case["incl"])
        raw = [[d + 1 if d >= 0 else d, s_] for d, s_ in case["ucons"]] + [[0, n0]]
        want = 0 if constraints_satisfied([n0] + list(v[2]), raw, strict) else 1
    got = tr[0][0] if len(tr[0]) == 1 else 0
    if got != want:
        return fail(-1, None, "constructor_accepts_incompatible" if got == 0 else "constructor_refuses_compatible",
                    error=got, expected=want)
    if len(tr[0]) == 1:
        return None
    prev = tr[0][1]
    for i, (op, ent) in enumerate(zip(case["ops"], tr[1:])):
        e, _out, cur = ent
        if isinstance(cur, dict):
            return fail(i, op, "state_unreadable", error=cur["snaperr"])
        pr, pcons, pdt, pdur, pincl, pvalid, pign, _, _ = prev
        cr, ccons, cdt, cdur, cincl, cvalid, cign, _, cucons = cur
        # RecordTensor.constraints: the record dimension hidden, non-negative dims shifted back
        if sorted(cucons) != sorted([(d - 1 if d >= 0 else d), s_] for d, s_ in ccons):
            return fail(i, op, "user_constraints_view", raw=ccons, view=cucons)
        ph, ch = ring_hist(pr), ring_hist(cr)
        k = op[0]
        # a tensor reported valid satisfies every constraint
        if cvalid and not cign and cr[2] == 2:
            shape = [len(cr[5])] + list(cr[4])
            if not constraint_holds(shape, ccons + [[0, cr[0]]], strict):
                return fail(i, op, "valid_unsound", shape=shape, constraints=ccons, recordsz=cr[0])
        if not cvalid and cr[2] == 2 and constraints_satisfied([len(cr[5])] + list(cr[4]), ccons + [[0, cr[0]]], strict):
            return fail(i, op, "valid_incomplete", shape=[len(cr[5])] + list(cr[4]), constraints=ccons, recordsz=cr[0])
        ndim = (1 + len(pr[4])) if pr[2] == 2 else None
        alias0 = ndim is not None and any(d < 0 and d + ndim == 0 for d, _s in pcons)
        if k in ("dt", "dur", "incl"):
            bad = (k == "dt" and not op[1] > 0) or (k == "dur" and not op[1] >= 0)
            if bad:
                if e != 2 or cur != prev:
                    return fail(i, op, "bad_temporal_argument_not_refused", error=e)
                prev = cur
                continue
            if e != 0:
                if pign:
                    return fail(i, op, "setter_raises_uninitialised", error=e)
                if pvalid and not alias0:
                    return fail(i, op, "setter_raises", error=e)
                if pvalid and alias0:
                    if REPORT_ALIAS_AS_FAILURE:
                        return fail(i, op, "setter_raises_record_dim_aliased", error=e, recordsz=cr[0],
                                    stored=[cdt, cdur, cincl])
                    CANDIDATES.append({"case": dict(case, ops=case["ops"][: i + 1]),
                                       "signature": {"kind": "setter_raises_record_dim_aliased"},
                                       "detail": {"step": i, "op": op, "error": e, "recordsz": cr[0],
                                                  "stored": [cdt, cdur, cincl]}})
                prev = cur
                continue
            ndt, ndur, nincl = (op[1] if k == "dt" else pdt), (op[1] if k == "dur" else pdur), (op[1] if k == "incl" else pincl)
            if (cdt, cdur, cincl) != (ndt, ndur, 1 if nincl else 0):
                return fail(i, op, "temporal_fields", got=[cdt, cdur, cincl])
            if cr[0] not in size_candidates(ndur, ndt, nincl):
                return fail(i, op, "size_formula", recordsz=cr[0], expected=sorted(size_candidates(ndur, ndt, nincl)))
            if ccons != pcons:
                return fail(i, op, "setter_changed_constraints")
            if pign:
                if not cign or cr[2:] != pr[2:]:
                    return fail(i, op, "setter_touched_uninitialised_storage")
            elif ph is not None and pvalid:
                if ch is None:
                    return fail(i, op, "storage_not_resized", recordsz=cr[0])
                N0, d0, sh0, h0 = ph
                N1, d1, sh1, h1 = ch
                if (d0, sh0) != (d1, sh1):
                    return fail(i, op, "dtype_or_shape_changed")
                for j in range(min(N0, N1)):
                    if h0[j] != h1[j]:
                        return fail(i, op, "newest_not_preserved", k=j + 1, before=h0[j], after=h1[j])
                for j in range(N0, N1):
                    if any(v != 0 for v in h1[j]):
                        return fail(i, op, "older_not_zero", k=j + 1, after=h1[j])
        elif k == "setv":
            # RecordTensor.value := v.  Refused only by ShapedTensor's setter (None over a parameter: RuntimeError; live
            # attribute and a tensor neither ignored nor compatible: ValueError), then nothing changes.  Accepted: the
            # storage is the assigned value; a de-initialising value (None / no elements and <= 1 dim) rewinds the pointer
            # to 0, any other value leaves it alone.  Slots, constraints and temporal configuration are never touched.
            v = op[1]
            ign = v[0] in ("none", "empty") or shape_ignored([len(v[3])] + list(v[2]))
            if e != 0:
                why_param = case["param"] and v[0] == "none" and e == 1
                why_live = case["live"] and not ign and e == 2 and not constraints_satisfied(
                    [len(v[3])] + list(v[2]), pcons + [[0, pr[0]]], strict)
                if not (why_param or why_live):
                    return fail(i, op, "value_assignment_raises", error=e)
                if cur != prev:
                    return fail(i, op, "refused_value_assignment_side_effect", error=e)
            else:
                if case["param"] and v[0] == "none":
                    return fail(i, op, "none_assigned_to_parameter")
                if case["live"] and not ign and not constraints_satisfied([len(v[3])] + list(v[2]), pcons + [[0, pr[0]]], strict):
                    return fail(i, op, "live_accepts_incompatible_value")
                if cr[0] != pr[0] or ccons != pcons or (cdt, cdur, cincl) != (pdt, pdur, pincl):
                    return fail(i, op, "value_assignment_changed_configuration")
                want_kind = {"none": 0, "empty": 1, "full": 1 if ign else 2}[v[0]]
                if cr[2] != want_kind or (want_kind == 2 and (cr[4] != list(v[2]) or cr[5] != [list(x) for x in v[3]])):
                    return fail(i, op, "value_not_stored", stored=cr[2:5])
                if cr[1] != (0 if ign else pr[1]):
                    return fail(i, op, "pointer_after_value_assignment", pointer=cr[1], before=pr[1], deinitialising=ign)
        elif k == "deinit":
            if e != 0 or cr[1] != 0 or cr[2] != 1 or cr[0] != pr[0] or ccons != pcons:
                return fail(i, op, "deinitialize", error=e, pointer=cr[1])
        elif k == "recon":
            key = op[1] + 1 if op[1] >= 0 else op[1]
            size = op[2]
            present = any(d == key for d, _s in pcons)
            same_obs = (cr[0] == pr[0]) and ((ph is None and (cr[2:] == pr[2:] or ch is None)) or (ph is not None and ch is not None and ph == ch))
            if ph is None and pr[2] != 2 and cr[2:] != pr[2:]:
                return fail(i, op, "reconstrain_touched_uninitialised_storage")
            if size is None:
                if not present:
                    if e != 2 or ccons != pcons or not same_obs:
                        return fail(i, op, "remove_unconstrained", error=e)
                else:
                    if pvalid and e != 0:
                        return fail(i, op, "remove_raises", error=e)
                    if sorted(ccons) != sorted(c for c in pcons if c[0] != key) or not same_obs:
                        return fail(i, op, "remove_alters_data")
            elif size < 0:
                if e != 2 or ccons != pcons or not same_obs:
                    return fail(i, op, "negative_size", error=e)
            elif not present:
                if e == 0:
                    if sorted(ccons) != sorted(pcons + [[key, size]]) or not same_obs:
                        return fail(i, op, "add_alters_data")
                else:
                    if ccons != pcons or not same_obs:
                        return fail(i, op, "refused_add_side_effect", error=e)
                    if ph is not None and e != (2 if pvalid else 1):
                        # documented: ValueError for a constraint the (valid) tensor does not satisfy, RuntimeError when
                        # the tensor had been invalidated before
                        return fail(i, op, "refused_add_exception_class", error=e, valid_before=pvalid)
                    if pvalid and ph is not None and constraints_satisfied(
                            [ph[0]] + list(ph[2]), pcons + [[0, pr[0]], [key, size]], strict):
                        return fail(i, op, "compatible_add_refused", error=e)
            else:
                if e != 0:
                    if ccons != pcons or not same_obs:
                        return fail(i, op, "refused_edit_side_effect", error=e)
                else:
                    if sorted(ccons) != sorted([c if c[0] != key else [key, size] for c in pcons]):
                        return fail(i, op, "edit_constraints")
                    if ph is not None and pvalid:
                        if ch is None or ch[0] != ph[0]:
                            return fail(i, op, "edit_changed_record")
                        ax = (key if key >= 0 else key + ndim) - 1
                        if ax >= 0:
                            for j in range(ph[0]):
                                nsh, exp = resize_obs(ph[2], ph[3][j], ax, size)
                                if ch[2] != nsh or ch[3][j] != exp:
                                    return fail(i, op, "edit_history", k=j + 1, expected=exp, got=ch[3][j])
            if pvalid and not cvalid and k == "recon":
                return fail(i, op, "reconstrain_invalidated")
        prev = cur
    return None


def oracle_shaped(case, tr):
    strict = case["strict"]
    init = case["init"]
    want = 0 if init[0] != "t" or shape_ignored(init[2]) or constraints_satisfied(init[2], case["cons"], strict) else 1
    got = tr[0][0] if len(tr[0]) == 1 else 0
    if got != want:
        return fail(-1, None, "constructor_accepts_incompatible" if got == 0 else "constructor_refuses_compatible",
                    error=got, expected=want)
    if len(tr[0]) == 1:
        return None
    prev = tr[0][1]
    if prev[2] and not prev[3] and prev[1][0] == 2 and not constraint_holds(prev[1][2], prev[0], strict):
        return fail(-1, None, "valid_unsound")
    for i, (op, (e, cur)) in enumerate(zip(case["ops"], tr[1:])):
        if isinstance(cur, dict):
            return fail(i, op, "state_unreadable", error=cur["snaperr"])
        pcons, pdata, pvalid, pign = prev[0], prev[1], prev[2], prev[3]
        ccons, cdata, cvalid, cign = cur[0], cur[1], cur[2], cur[3]
        if cvalid and not cign and cdata[0] == 2 and not constraint_holds(cdata[2], ccons, strict):
            return fail(i, op, "valid_unsound", shape=cdata[2], constraints=ccons)
        if not cvalid and (cdata[0] != 2 or shape_ignored(cdata[2]) or constraints_satisfied(cdata[2], ccons, strict)):
            return fail(i, op, "valid_incomplete", data=cdata[:3], constraints=ccons)
        if cdata[0] == 2 and bool(cign) != shape_ignored(cdata[2]):
            return fail(i, op, "ignored_flag", data=cdata[:3])
        if op[0] == "recon":
            key, size = op[1], op[2]
            present = any(d == key for d, _s in pcons)
            if size is None:
                if not present:
                    if e != 2 or cur[:2] != prev[:2]:
                        return fail(i, op, "remove_unconstrained", error=e)
                else:
                    if pvalid and e != 0:
                        return fail(i, op, "remove_raises", error=e)
                    if ccons != [c for c in pcons if c[0] != key] or cdata != pdata:
                        return fail(i, op, "remove_alters_data")
            elif size < 0:
                if e != 2 or cur[:2] != prev[:2]:
                    return fail(i, op, "negative_size", error=e)
            elif not present:
                if e == 0:
                    if ccons != sorted(pcons + [[key, size]]) or cdata != pdata:
                        return fail(i, op, "add_alters_data")
                elif cur[:2] != prev[:2]:
                    return fail(i, op, "refused_add_side_effect", error=e)
                elif pdata[0] == 2 and not pign and e != (2 if pvalid else 1):
                    return fail(i, op, "refused_add_exception_class", error=e, valid_before=pvalid)
                elif pvalid and pdata[0] == 2 and not pign and constraints_satisfied(pdata[2], pcons + [[key, size]], strict):
                    return fail(i, op, "compatible_add_refused", error=e)
            else:
                if e != 0:
                    if cur[:2] != prev[:2]:
                        return fail(i, op, "refused_edit_side_effect", error=e)
                else:
                    if ccons != sorted([c if c[0] != key else [key, size] for c in pcons]):
                        return fail(i, op, "edit_constraints")
                    if pdata[0] == 2 and not pign and pvalid:
                        n = len(pdata[2])
                        ax = key if key >= 0 else key + n
                        nsh, exp = resize_obs(pdata[2], pdata[3], ax, size)
                        if cdata[0] != 2 or cdata[1] != pdata[1] or cdata[2] != nsh or cdata[3] != exp:
                            return fail(i, op, "edit_data", expected=[nsh, exp], got=cdata)
                    elif pdata[0] != 2 and cdata != pdata:
                        return fail(i, op, "edit_touched_uninitialised")
            if pvalid and not cvalid:
                return fail(i, op, "reconstrain_invalidated")
        prev = cur
    return None


def oracle_case(case, tr):
    return oracle_shaped(case, tr) if case["kind"] == "shaped" else oracle_record(case, tr)


def is_nontrivial(case):
    kinds = {o[0] for o in case["ops"]}
    return len(case["ops"]) >= 3 and len(kinds - {"ring"}) >= 1


def load_corpus():
    import glob, json
    return [json.load(open(p)) for p in sorted(glob.glob(os.path.join(F.VERIF, "corpus", ID, "*.json")))]


def run(ctx):
    rng = random.Random(ctx["seed"])
    del CANDIDATES[:]
    n = 450 if ctx["tier"] == "quick" else 6000
    cases = load_corpus() + gen_cases(rng, n)
    exhaustive = ctx["tier"] == "thorough"
    if exhaustive:
        cases += exhaustive_cases()
    impl_raw = F.run_impl(IMPL, {"cases": cases})
    # the executable instance is no dependency of an obligation file: (re)build it against the current Gen/
    with F.BuildLock():
        ok, mkout = F.make(["C13/ResizeExec.vo"])
    mismatches, oracle_fail = [], []
    if not ok:
        mismatches.append({"case": None, "detail": "executable model C13/ResizeExec.v does not build: " + mkout[-1500:]})
    model = F.eval_terms(ID, HEADER, [q_case(c) for c in cases], shard=60)
    stats = Counter()
    for c, ti_raw, tm in zip(cases, impl_raw, model):
        ti = canon_impl(c, ti_raw)
        if isinstance(tm, Exception):
            mismatches.append({"case": c, "detail": str(tm)})
        else:
            tmc = canon_model(c, tm)
            if ti != tmc:
                j = next((k for k, (a, b) in enumerate(zip(ti, tmc)) if a != b), None)
                mismatches.append({"case": c, "detail": {
                    "first_diff_step": None if j is None else j - 1,
                    "op": c["ops"][j - 1] if j else None,
                    "impl": ti[j] if j is not None else len(ti), "model": tmc[j] if j is not None else len(tmc)}})
        o = oracle_case(c, ti)
        if o is not None:
            oracle_fail.append({"case": c, "detail": o[0], "signature": o[1]})
        # measured distributions
        if len(ti[0]) > 1:
            for op, ent in zip(c["ops"], ti[1:]):
                stats["op:" + op[0] + (":" + op[1][0] if op[0] == "ring" else "")] += 1
                if ent[0] != 0:
                    stats["err%s" % (ent[0] if isinstance(ent[0], int) else ent[0][0])] += 1
            if c["kind"] == "record":
                prev = ti[0][1]
                for op, ent in zip(c["ops"], ti[1:]):
                    cur = ent[2]
                    if isinstance(cur, dict):
                        break
                    if op[0] in ("dt", "dur", "incl") and ent[0] == 1 and prev[0][2] == 2 and \
                            any(d < 0 and d + 1 + len(prev[0][4]) == 0 for d, _s in prev[1]):
                        stats["setter_refused:record_dim_aliased"] += 1
                    if op[0] in ("dt", "dur", "incl") and ent[0] == 0:
                        a, b = prev[0][0], cur[0][0]
                        stats["resize:" + ("grow" if b > a else "shrink" if b < a else "noop") +
                              (":uninit" if prev[6] else "")] += 1
                    prev = cur
        else:
            stats["ctor_refused"] += 1
    return {
        "evaluations": len(cases),
        "distinct_nontrivial": len({repr(c) for c in cases if is_nontrivial(c)}),
        "rule": "seeded random operation sequences: 2/3 RecordTensor cases (4-22 ops: pushes, reads, pointer moves, dt/duration/"
                "inclusive assignments incl. non-representable ratios, reconstrain add/edit/remove on positive and negative dims, "
                "value assignment, deinitialize; strict and non-strict; buffer/parameter/None/empty storage) and 1/3 ShapedTensor "
                "cases (3-14 reconstrain / value-assignment ops, 9 shapes incl. empty and 0-sized); every 5th case from a malformed "
                "stream; non-trivial = >=3 ops with at least one resizing/constraint op; distinct by full case text"
                + ("; plus small-scope enumeration: all (old,new) sizes <=5 x fill levels x 3 setters, all depth-3 sequences "
                   "over a 10-op reconstrain alphabet (strict and non-strict)" if exhaustive else ""),
        "distribution": dict(stats),
        "finding_candidates_not_judged": {"setter_raises_record_dim_aliased": len(CANDIDATES),
                                          "example": CANDIDATES[0] if CANDIDATES else None},
        "samples": cases[:2],
        "mismatches": mismatches, "oracle_failures": oracle_fail,
        "traces_validated_against_impl": len(cases) - len(mismatches),
    }


def _check(case):
    ti = canon_impl(case, F.run_impl(IMPL, {"cases": [case]})[0])
    return oracle_case(case, ti)


def minimise(case, rounds=12):
    """drop operations (from the end first, then single ones) while the oracle still fails on the implementation"""
    d = _check(case)
    if d is None:
        return case, None
    case = dict(case, ops=case["ops"][: d[0]["step"] + 1])
    for _ in range(rounds):
        ops = case["ops"]
        cands = [dict(case, ops=ops[:j] + ops[j + 1:]) for j in range(len(ops) - 1)]
        if not cands:
            break
        trs = F.run_impl(IMPL, {"cases": cands})
        better = None
        for c, t in zip(cands, trs):
            if oracle_case(c, canon_impl(c, t)) is not None:
                better = c
                break
        if better is None:
            break
        case = better
    d = _check(case)
    return case, (d[0] if d else None)


def replay(case):
    d = _check(case)
    if d is None:
        return True, "replay: the implementation satisfies the C13 oracle on this case"
    return False, "replay: still failing: " + repr(d[0])[:1500]
