"""C14 - configuration-path independence: setters reach the same model as the constructor."""
from __future__ import annotations
import os, random
from collections import Counter
import concurrent.futures as cf
import framework as F
import c11

ID = "C14"
GEN = ["Infra"]
LEVEL = "proof"
TECHNIQUE = ("Coq proofs at five levels: (1) RecordTensor - any sequence of dt/duration/inclusive assignments on a reachable record "
             "(on top of the C13 model of the setters) equals the constructor for the final configuration, as a state once reset; "
             "(2) reducers with their record, decay, inplace flag, observations and clears; (3) connections forwarding to their "
             "synapse, synapse replacement; (4) batch size - reconstrain of dimension 0 of batched ShapedTensors / histories, then "
             "clear; (5) the size-only component model; all tied to the code by translation of the size expression and by "
             "correspondence runs of every model function (vm_compute, binary64) against the real objects after random setter "
             "sequences; relational setter-vs-constructor oracle on the real classes")
LEVEL_TEXT = ("Proved (33 obligations). RecordTensor level (every number type, axiom-free): record_setters_eq_ctor[_from] - after ANY "
              "sequence of dt / duration / inclusive assignments (refused values included) on a created or any reachable record, "
              "initialised or not, the reported configuration is the last accepted one, the slot count is the generated size "
              "expression, and the constructor called with that configuration succeeds and gives the same slots and constraints and, "
              "after reset, the SAME STATE (hypothesis: no non-strict constraint aliases the record dimension - C13 no_alias0; "
              "observation shape not (0,)). Batch size (axiom-free): nst_set_batch_ok / neuron_batch_clear_eq_ctor (ShapedTensor "
              "state: edit of the dim-0 constraint via __make_compatible, then clear = constructor state for any sequence of "
              "batch sizes), hist_set_batch_ok / hist_batch_clear_eq_ctor (a synapse history: align, edit of storage dim 1, then "
              "reset = the constructor's history: shape (b, *shape), slots, constraint, zero contents). Over the reals: "
              "syn_setters_clear_eq_ctor (synapse WITH contents: any dt / delay / batchsz / inplace sequence then clear = "
              "constructor then clear), red_setters_clear_eq_ctor (reducer with record, decay, inplace, _initial: any sequence "
              "of assignments, observations and clears then clear = constructor, exactly), red_reachable_consistent, "
              "conn_forwards / conn_setters_clear_eq_ctor / conn_setters_clear_eq_own_ctor (assigning through the connection = "
              "assigning DIRECTLY on the owned synapse (both routes are operations of the model, in any interleaving) = "
              "constructing with that configuration; the connection keeps no copy of dt / batch size / delay; replacement "
              "synapse reported back), frames "
              "(setter_frame, syn_setter_frame, red_setter_frame, conn_setter_frame), the size-only model (setters_eq_ctor, "
              "tred_setters_ok). Refuted variants of the three repaired setters: old_delay_setter_refuted, "
              "old_duration_setter_refuted (value stored in the step-time field, 0 refused), old_synapse_setter_refuted. "
              "Every model function is evaluated by vm_compute and compared with the real objects (record sizes, pointers, "
              "shapes, constraints, reported attributes, cleared contents) after random setter sequences. The behavioural half "
              "(same OUTPUTS from a cleared state; 8 neurons / 4 synapses / 4 connections / 6 reducers / bare records) is decided "
              "on the implementation by the relational oracle: setter path vs freshly constructed component, and by the "
              "ownership-chain oracle (Serial layer -> connection -> synapse + neuron: every attribute through every route, all "
              "getters of all objects after each assignment vs a fresh chain, then forward steps).")
LEVEL_NOTE = ("Trusted: Coq kernel + stdlib real axioms for the real-number theorems (reported; the RecordTensor and batch levels "
              "are closed under the global context); translator (record-size expression, 3 occurrences must agree); the C13 models "
              "C13/Shaped.v, C13/Resize.v and the C01 ring model (imported, proved about in C13/C01); hand-written models "
              "coq/C14/{Config,RecordCfg,Batch,Reducer,Conn}.v validated by correspondence; the relational harness "
              "tools/impl/c14_impl.py. NOT proved: equality of forward OUTPUTS after clear (follows from state equality only for "
              "the state that is modelled: histories, batched tensors, reported attributes - parameters, adaptations and the "
              "dynamics are not modelled; decided by the relational oracle); neurons' dt setters and dtype via .to() are exercised "
              "on the implementation only; reducer forward is modelled as a push of an arbitrary folded observation; "
              "Updatable.clear / layers are not modelled.")
IMPL = os.path.join(F.VERIF, "tools", "impl", "c14_impl.py")
HEADER = ("From Coq Require Import List ZArith Bool PrimFloat.\n"
          "From Inferno Require Import Base.Num Base.NumF C01.Ring C01.RingExec C13.Shaped C13.Resize C13.ResizeExec "
          "C14.Config C14.RecordCfg C14.Batch C14.Reducer C14.Conn C14.ConfigExec.\n"
          "Import ListNotations.\nOpen Scope Z_scope.\n")
REDUCERS = ["NearestTraceReducer", "CumulativeTraceReducer", "PassthroughReducer", "EventReducer", "EMAReducer", "CAReducer"]
DTS = [1.0, 0.5, 0.25, 1.3, 0.1, 2.0]


def gen_rel_cases(rng, n):
    cases = []
    for i in range(n):
        fam = ["neuron", "synapse", "connection", "reducer", "record"][i % 5]
        seed = rng.randrange(1 << 30)
        dt = rng.choice(DTS)
        dt2 = rng.choice([d for d in DTS if d != dt])
        warm = rng.choice([0, 0, 2, 5])
        if fam == "neuron":
            spec = {"cls": c11.NEURONS[(i // 5) % 8], "shape": rng.choice([[3], [2, 2]]), "dt": dt, "batch": rng.choice([1, 2])}
            target = {"dt": dt2, "batchsz": rng.choice([1, 2, 3])}
        elif fam == "synapse":
            k = rng.choice([0, 1, 3])
            spec = {"cls": c11.SYNAPSES[(i // 5) % 4], "shape": rng.choice([[3], [2, 2]]), "dt": dt, "batch": rng.choice([1, 2]),
                    "kw": {"delay": k * dt}}
            target = {"dt": dt2, "delay": rng.choice([0.0, dt2, 2.5 * dt2, 3 * dt2]), "batchsz": rng.choice([1, 2, 3]),
                      "inplace": rng.random() < 0.5}
        elif fam == "connection":
            cls = ["LinearDense", "LinearDirect", "LinearLateral", "Conv2D"][(i // 5) % 4]
            spec = dict(c11.conn_spec(rng, cls, dt, rng.choice([None, 2 * dt])), batch=rng.choice([1, 2]))
            target = {"dt": dt2, "batchsz": rng.choice([1, 2, 3])}
            if rng.random() < 0.5:
                target["synapse"] = {"cls": rng.choice(c11.SYNAPSES)}
        elif fam == "record":
            spec = {"cls": "RecordTensor", "dt": dt, "duration": rng.choice([0.0, dt, 2.5 * dt, 3 * dt]), "inclusive": rng.random() < 0.5,
                    "shape": rng.choice([[2], [2, 2]]), "dtype": rng.choice(["float", "bool", "int"]), "uninit": rng.random() < 0.2}
            target = {"dt": dt2, "duration": rng.choice([0.0, dt2, 2.5 * dt2, 4 * dt2]), "inclusive": not spec["inclusive"]}
        else:
            spec = {"cls": REDUCERS[(i // 5) % 6], "dt": dt, "duration": rng.choice([0.0, dt, 3 * dt]), "inplace": rng.random() < 0.5}
            target = {"dt": dt2, "duration": rng.choice([0.0, dt2, 2.5 * dt2]), "inplace": rng.random() < 0.5}
        attrs = list(target)
        rng.shuffle(attrs)
        keep = attrs[: rng.randint(1, len(attrs))]
        cases.append({"family": fam, "specA": spec, "target": {a: target[a] for a in keep}, "order": keep,
                      "T": rng.randint(12, 25), "seed": seed, "warm": warm})
    return cases


CONN_ROUTES = ["layer.connection", "layer.cell.connection", "layer.connections[name]"]
SYN_ROUTES = ["layer.synapse", "layer.connection.synapse", "layer.cell.connection.synapse"]
NEU_ROUTES = ["layer.neuron", "layer.cell.neuron", "layer.neurons[name]"]


def gen_chain_cases(rng, n):
    """Serial layer -> connection -> synapse (+ the layer's neuron): dt / batchsz through the connection AND directly on its
    synapse, delay / inplace on the synapse, dt / batchsz on the neuron, replacement synapses - every route, interleaved"""
    cases = []
    for i in range(n):
        dt = rng.choice(DTS)
        cls = ["LinearDense", "LinearDirect", "LinearLateral", "Conv2D"][i % 4]
        delayed = rng.random() < 0.65
        spec = {"conn": dict(c11.conn_spec(rng, cls, dt, 2 * dt if delayed else None), batch=rng.choice([1, 2])),
                "neuron": c11.NEURONS[(i // 4) % 8]}
        cur = {"dt": dt, "delay": 2 * dt if delayed else 0.0, "batch": spec["conn"]["batch"]}
        ops = []
        for _ in range(rng.randint(1, 7)):
            k = rng.choice(["dt", "batchsz", "batchsz", "batchsz", "delay", "inplace", "synapse", "ndt", "nbatchsz"])
            x = rng.choice(DTS)
            if k == "dt":
                v = rng.choice(BAD_DT) if rng.random() < 0.1 else x
                ops.append([rng.choice(CONN_ROUTES + SYN_ROUTES), "dt", v])
                cur["dt"] = v if v > 0 else cur["dt"]
            elif k == "batchsz":
                v = rng.choice([1, 2, 3, 4, 0])
                ops.append([rng.choice(CONN_ROUTES + SYN_ROUTES), "batchsz", v])
                cur["batch"] = v if v > 0 else cur["batch"]
            elif k == "delay":
                if not delayed:
                    continue
                v = -0.5 if rng.random() < 0.1 else rng.choice([0.0, x, 2.5 * x, 3 * x])
                ops.append([rng.choice(SYN_ROUTES), "delay", v])
                cur["delay"] = v if v >= 0 else cur["delay"]
            elif k == "inplace":
                ops.append([rng.choice(SYN_ROUTES), "inplace", rng.random() < 0.5])
            elif k == "synapse":
                v = {"cls": rng.choice(c11.SYNAPSES), "dt": cur["dt"] if rng.random() < 0.6 else x,
                     "delay": (cur["delay"] if rng.random() < 0.6 else rng.choice([0.0, 2 * x])) if delayed else 0.0,
                     "batch": cur["batch"] if rng.random() < 0.5 else rng.choice([1, 2, 3]), "inplace": rng.random() < 0.5}
                ops.append([rng.choice(CONN_ROUTES), "synapse", v])
                cur = {"dt": v["dt"], "delay": v["delay"], "batch": v["batch"]}
            elif k == "ndt":
                ops.append([rng.choice(NEU_ROUTES), "dt", x])
            else:
                ops.append([rng.choice(NEU_ROUTES), "batchsz", rng.choice([1, 2, 3, 4])])
        if not ops:
            ops.append([rng.choice(SYN_ROUTES), "batchsz", 3])
            cur["batch"] = 3
        if rng.random() < 0.8:      # let the neuron follow, so that the chain can be stepped
            ops.append([rng.choice(NEU_ROUTES), "batchsz", cur["batch"]])
        cases.append({"family": "chain", "spec": spec, "specA": {"cls": cls + "+" + spec["neuron"]}, "ops": ops,
                      "order": [o[1] for o in ops], "T": rng.randint(8, 16), "seed": rng.randrange(1 << 30),
                      "warm": rng.choice([0, 0, 3])})
    return cases


def gen_model_cases(rng, n):
    cases = []
    for i in range(n):
        dt = rng.choice(DTS)
        if i % 2 == 0:
            k = rng.choice([0, 1, 2, 4])
            ops = []
            for _ in range(rng.randint(1, 6)):
                a = rng.choice(["dt", "delay", "batchsz"])
                d = rng.choice(DTS)
                v = d if a == "dt" else (rng.choice([0.0, d, 2.5 * d, 3 * d, 3 * 0.1]) if a == "delay" else rng.choice([1, 2, 3, 5]))
                ops.append([a, v])
            cases.append({"family": "synapse_model",
                          "spec": {"cls": rng.choice(c11.SYNAPSES), "shape": [2], "dt": dt, "batch": rng.choice([1, 2]),
                                   "kw": {"delay": k * dt}}, "ops": ops})
        else:
            ops = []
            for _ in range(rng.randint(1, 5)):
                a = rng.choice(["dt", "duration"])
                d = rng.choice(DTS)
                ops.append([a, d if a == "dt" else rng.choice([0.0, d, 2.5 * d, 3 * d])])
            cases.append({"family": "tred_model",
                          "spec": {"cls": rng.choice(["NearestTraceReducer", "CumulativeTraceReducer"]), "dt": dt,
                                   "duration": rng.choice([0.0, dt, 3 * dt]), "tc": rng.choice([20.0, 7.5])}, "ops": ops})
    return cases


# ---- extended model families: RecordTensor level, reducers, synapses with contents, connections, neurons' batch size
SYN_DS = {"DeltaCurrent": [0], "DeltaPlusCurrent": [2, 0], "SingleExponentialCurrent": [2, 0],
          "DoubleExponentialCurrent": [2, 2, 0]}          # data types of the histories, attribute names sorted
NEURON_TENSORS = [("refrac_", 2, 0), ("voltage_", 2, -120)]   # (name, data type, fill in halves): rest_v = -60
BAD_DT = [0.0, -1.0]


def nel(sh):
    n = 1
    for x in sh:
        n *= x
    return n


def rand_els(rng, d, n, zero=False):
    if zero:
        return [0] * n
    if d == 0:
        return [rng.choice([0, 2]) for _ in range(n)]
    if d == 1:
        return [2 * rng.randint(-3, 3) for _ in range(n)]
    return [rng.randint(-6, 6) for _ in range(n)]


def gen_record_model(rng):
    dt = rng.choice(DTS)
    dur = rng.choice([0.0, dt, 2.5 * dt, 3 * dt, 0.3])
    d = rng.choice([0, 1, 2])
    shape = rng.choice([[2], [2, 2], [], [1, 3]])
    kind = rng.choice(["init", "init", "init", "none", "empty"])
    ucons = []
    if kind == "init":
        value = ["t", d, shape, rand_els(rng, d, nel(shape), zero=rng.random() < 0.5)]
        if shape and rng.random() < 0.4:
            ucons = [[0, shape[0]]] if rng.random() < 0.5 else [[-1, shape[-1]]]
    elif kind == "empty":
        value = ["t", d, [0], []]
    else:
        value = None
    ops = []
    for _ in range(rng.randint(1, 7)):
        k = rng.choice(["dt", "dt", "dur", "dur", "incl", "push"])
        if k == "dt":
            ops.append(["dt", rng.choice(BAD_DT) if rng.random() < 0.15 else rng.choice(DTS)])
        elif k == "dur":
            x = rng.choice(DTS)
            ops.append(["dur", -0.5 if rng.random() < 0.15 else rng.choice([0.0, x, 2.5 * x, 3 * x, 3 * 0.1])])
        elif k == "incl":
            ops.append(["incl", rng.random() < 0.5])
        else:
            od = d if rng.random() < 0.7 else rng.choice([0, 1, 2])
            osh = shape if rng.random() < 0.9 else [3]
            ops.append(["push", od, osh, rand_els(rng, od, nel(osh))])
    return {"family": "record_model", "strict": True, "ucons": ucons, "dt": dt, "dur": dur, "incl": rng.random() < 0.5,
            "value": value, "ops": ops}


def gen_red_model(rng, i):
    dt = rng.choice(DTS)
    cls = REDUCERS[i % len(REDUCERS)]
    spec = {"cls": cls, "dt": dt, "duration": rng.choice([0.0, dt, 3 * dt, 2.5 * dt]), "inclusive": rng.random() < 0.5,
            "inplace": rng.random() < 0.5, "tc": rng.choice([20.0, 7.5])}
    ops = []
    for _ in range(rng.randint(1, 7)):
        k = rng.choice(["dt", "dur", "inplace", "obs", "obs", "clear"])
        x = rng.choice(DTS)
        if k == "dt":
            ops.append(["dt", rng.choice(BAD_DT) if rng.random() < 0.15 else x])
        elif k == "dur":
            ops.append(["dur", -0.5 if rng.random() < 0.15 else rng.choice([0.0, x, 2.5 * x, 3 * x])])
        elif k == "inplace":
            ops.append(["inplace", rng.random() < 0.5])
        elif k == "obs":
            ops.append(["obs", [2, 3] if rng.random() < 0.9 else [4]])
        else:
            ops.append(["clear", rng.random() < 0.4])
    return {"family": "red_model", "spec": spec, "ops": ops}


def syn_ops(rng, n, steps=True):
    ops = []
    for _ in range(n):
        k = rng.choice(["dt", "delay", "batchsz", "batchsz", "inplace"] + (["step"] if steps else []))
        x = rng.choice(DTS)
        if k == "dt":
            ops.append(["dt", rng.choice(BAD_DT) if rng.random() < 0.15 else x])
        elif k == "delay":
            ops.append(["delay", -0.5 if rng.random() < 0.15 else rng.choice([0.0, x, 2.5 * x, 3 * x, 3 * 0.1])])
        elif k == "batchsz":
            ops.append(["batchsz", rng.choice([1, 2, 3, 5, 0, -2])])
        elif k == "inplace":
            ops.append(["inplace", rng.random() < 0.5])
        else:
            ops.append(["step"])
    return ops


def gen_scomp_model(rng, i):
    dt = rng.choice(DTS)
    spec = {"cls": c11.SYNAPSES[i % 4], "shape": rng.choice([[2], [2, 2]]), "dt": dt, "delay": rng.choice([0, 1, 3]) * dt,
            "batch": rng.choice([1, 2]), "inplace": rng.random() < 0.5}
    return {"family": "scomp_model", "spec": spec, "ops": syn_ops(rng, rng.randint(1, 6))}


def gen_conn_model(rng, i):
    dt = rng.choice(DTS)
    cls = ["LinearDense", "LinearDirect", "LinearLateral", "Conv2D"][i % 4]
    delay = rng.choice([None, 2 * dt])
    spec = dict(c11.conn_spec(rng, cls, dt, delay), batch=rng.choice([1, 2]))
    cur = {"dt": dt, "delay": 0.0 if delay is None else delay, "batch": spec["batch"]}
    ops = []
    for _ in range(rng.randint(1, 7)):
        k = rng.choice(["dt", "batchsz", "batchsz", "syn", "syn", "synapse", "step"])
        if k == "dt":
            v = rng.choice(BAD_DT) if rng.random() < 0.15 else rng.choice(DTS)
            ops.append(["dt", v])
            if v > 0:
                cur["dt"] = v
        elif k == "batchsz":
            v = rng.choice([1, 2, 3, 0])
            ops.append(["batchsz", v])
            if v > 0:
                cur["batch"] = v
        elif k == "syn":
            # the same attributes (and the synapse's own) assigned directly on the owned synapse
            o = syn_ops(rng, 1, steps=False)[0]
            ops.append(["syn"] + o)
            if o[0] == "dt" and o[1] > 0:
                cur["dt"] = o[1]
            elif o[0] == "delay" and o[1] >= 0:
                cur["delay"] = o[1]
            elif o[0] == "batchsz" and o[1] > 0:
                cur["batch"] = o[1]
        elif k == "synapse":
            if rng.random() < 0.7:
                o = ["synapse", rng.choice(c11.SYNAPSES), cur["dt"], cur["delay"], cur["batch"], rng.random() < 0.5]
            else:
                x = rng.choice(DTS)
                o = ["synapse", rng.choice(c11.SYNAPSES), rng.choice([x, 0.0]), rng.choice([0.0, 2 * x, -1.0]),
                     rng.choice([1, 2, 0]), rng.random() < 0.5]
            ops.append(o)
            if o[2] > 0 and o[3] >= 0 and o[4] > 0:
                cur = {"dt": o[2], "delay": o[3], "batch": o[4]}
        else:
            ops.append(["step"])
    return {"family": "conn_model", "spec": spec, "ops": ops}


def gen_neuron_model(rng, i):
    spec = {"cls": c11.NEURONS[i % 8], "shape": rng.choice([[3], [2, 2]]), "dt": rng.choice(DTS), "batch": rng.choice([1, 2])}
    ops = [rng.choice([1, 2, 3, 5, 0, -1, "step", "step"]) for _ in range(rng.randint(1, 6))]
    return {"family": "neuron_model", "spec": spec, "ops": ops}


def gen_ext_model_cases(rng, n):
    out = []
    for i in range(n):
        k = i % 5
        out.append([gen_record_model(rng), gen_red_model(rng, i // 5), gen_scomp_model(rng, i // 5), gen_conn_model(rng, i // 5),
                    gen_neuron_model(rng, i // 5)][k])
    return out


def q_nat(n):
    return f"{int(n)}%nat"


def q_shape(sh):
    return F.coq_list([q_nat(x) for x in sh])


def q_zs(zs):
    return F.coq_list([str(int(z)) if z >= 0 else f"({int(z)})" for z in zs])


def q_sop(o):
    fl = F.coq_float
    return {"dt": lambda: f"SDt FN {fl(o[1])}", "delay": lambda: f"SDelay FN {fl(o[1])}",
            "batchsz": lambda: f"SBatch FN ({int(o[1])})", "inplace": lambda: f"SInplace FN {F.coq_bool(o[1])}"}[o[0]]()


def q_model(c, r=None):
    fl = F.coq_float
    fam = c["family"]
    if fam == "synapse_model":
        s = c["spec"]
        nrec = {"DeltaCurrent": 1, "DeltaPlusCurrent": 2, "SingleExponentialCurrent": 2, "DoubleExponentialCurrent": 3}[s["cls"]]
        ops = []
        for a, v in c["ops"]:
            ops.append({"dt": f"SetDt FN {fl(v)}", "delay": f"SetDelay FN {fl(v)}", "batchsz": f"SetBatch FN ({int(v)})%Z"}[a])
        return f"run_comp {nrec}%nat {fl(s['dt'])} {fl(s['kw']['delay'])} ({s['batch']})%Z {F.coq_list(ops)}"
    if fam == "tred_model":
        s = c["spec"]
        ops = [(f"TDt {fl(v)}" if a == "dt" else f"TDur {fl(v)}") for a, v in c["ops"]]
        return f"run_tred {fl(s['dt'])} {fl(s['tc'])} {fl(s['duration'])} false {F.coq_list(ops)}"
    if fam == "record_model":
        v = "None" if c["value"] is None else f"(Some (mkT {c['value'][1]} {q_shape(c['value'][2])} {q_zs(c['value'][3])}))"
        ops = []
        for o in c["ops"]:
            if o[0] == "push":
                ops.append(f"XPush (mkObs {o[1]} {q_shape(o[2])} {q_zs(o[3])})")
            else:
                ops.append("XSet (" + {"dt": lambda: f"RDt FN {fl(o[1])}", "dur": lambda: f"RDur FN {fl(o[1])}",
                                       "incl": lambda: f"RIncl FN {F.coq_bool(o[1])}"}[o[0]]() + ")")
        ucons = F.coq_list([f"(({int(k)})%Z, {q_nat(v_)})" for k, v_ in c["ucons"]])
        return (f"run_record {F.coq_bool(c['strict'])} {ucons} {fl(c['dt'])} {fl(c['dur'])} {F.coq_bool(c['incl'])} {v} "
                f"{F.coq_list(ops)}")
    if fam == "red_model":
        s = c["spec"]
        ops = []
        for o in c["ops"]:
            if o[0] == "obs":
                ops.append(f"RdObserve FN (mkObs 2 {q_shape(o[1])} {q_zs([0] * nel(o[1]))})")
            elif o[0] == "clear":
                ops.append(f"RdClear FN {F.coq_bool(o[1])}")
            else:
                ops.append({"dt": lambda: f"RdDt FN {fl(o[1])}", "dur": lambda: f"RdDur FN {fl(o[1])}",
                            "inplace": lambda: f"RdInplace FN {F.coq_bool(o[1])}"}[o[0]]())
        return (f"run_red {fl(s['dt'])} {fl(s['duration'])} {F.coq_bool(s['inclusive'])} {F.coq_bool(s['inplace'])} "
                f"{fl(s['tc'])} {F.coq_list(ops)}")
    if fam == "scomp_model":
        s = c["spec"]
        ops = [q_sop(o) for o in c["ops"] if o[0] != "step"]
        return (f"run_syn {q_zs(SYN_DS[s['cls']])} {q_shape(s['shape'])} {fl(s['dt'])} {fl(s['delay'])} ({s['batch']}) "
                f"{F.coq_bool(s['inplace'])} {F.coq_list(ops)}")
    if fam == "conn_model":
        s = c["spec"]
        ops = []
        for o in c["ops"]:
            if o[0] == "dt":
                ops.append(f"KDt FN {fl(o[1])}")
            elif o[0] == "batchsz":
                ops.append(f"KBatch FN ({int(o[1])})")
            elif o[0] == "syn":
                ops.append(f"KOnSyn FN ({q_sop(o[1:])})")
            elif o[0] == "synapse":
                ops.append(f"KSyn FN {q_zs(SYN_DS[o[1]])} {fl(o[2])} {fl(o[3])} ({int(o[4])}) {F.coq_bool(o[5])}")
        delay = "None" if s["delay"] is None else f"(Some {fl(s['delay'])})"
        return (f"run_conn {q_zs(SYN_DS[s['synapse']['cls']])} {q_shape(r['obs']['shp'])} {fl(s['dt'])} {delay} ({s['batch']}) "
                f"false {F.coq_list(ops)}")
    if fam == "neuron_model":
        s = c["spec"]
        specs = F.coq_list([f"({d}, ({f}))" for _, d, f in NEURON_TENSORS])
        vs = F.coq_list([f"({int(v)})" for v in c["ops"] if v != "step"])
        return f"run_neuron {specs} {q_shape(s['shape'])} ({s['batch']}) {vs}"
    raise ValueError(fam)


def dec_rec(t):
    ring, cons, dt, dur, incl, valid, ign, par, ucons = t
    return [ring, sorted(list(x) for x in cons), F.dec_float(dt), F.dec_float(dur), incl, valid, ign, par,
            sorted(list(x) for x in ucons)]


def dec_rec_shape(t):
    n, p, kind, ucons, dt, dur, incl = t
    return [n, p, kind, sorted(list(x) for x in ucons), F.dec_float(dt), F.dec_float(dur), incl]


def noptr(snap):
    return [snap[0], None] + list(snap[2:])


def dec_scomp(t, full):
    dt, dl, b, ip, hs = t
    return [F.dec_float(dt), F.dec_float(dl), b, ip, [dec_rec(h) if full else dec_rec_shape(h) for h in hs]]


def scomp_noptr(s):
    return s[:4] + [[noptr(h) for h in s[4]]]


def dec_red(t):
    dt, dur, incl, ip, decay, initial, rec = t
    return [F.dec_float(dt), F.dec_float(dur), incl, ip, F.dec_float(decay), initial, dec_rec_shape(rec)]


def red_eq(m, i, what):
    """model reducer snapshot vs implementation's (decay compared numerically, only where the class has one)"""
    if m[:4] + m[5:] != i[:4] + i[5:]:
        return f"{what}: model {m} vs implementation {i}"
    if i[4] is not None and not F.close(m[4], i[4]):
        return f"{what}: decay model {m[4]} vs implementation {i[4]}"
    return None


def dec_conn(t, full):
    dt, b, dby, syn, stray = t
    return [F.dec_float(dt), b, F.dec_float(dby[0]) if dby else None, dec_scomp(syn, full), stray]


def dec_nstate(t):
    b, ts = t
    return [b, [[sorted(list(x) for x in cons), data, valid, ign, dim, par] for cons, data, valid, ign, dim, par in ts]]


def nstate_noflat(n):
    return [n[0], [[t[0], t[1][:3]] + t[2:] for t in n[1]]]


def first_diff(pairs):
    for what, m, i in pairs:
        if m != i:
            return f"{what}: model {m} vs implementation {i}"
    return None


def cmp_model(c, obs, tree):
    fam = c["family"]
    if fam == "synapse_model":
        dt, dl, b, recs, bdim = tree
        exp = {"dt": F.dec_float(dt), "delay": F.dec_float(dl), "batch": b, "recs": recs}
        got = {k: obs[k] for k in exp}
        if len(got["recs"]) != len(exp["recs"]):
            return f"model has {len(exp['recs'])} histories, implementation {len(got['recs'])}"
        return None if got == exp else f"model {exp} vs implementation {got}"
    if fam == "tred_model":
        dt, decay, size, dur = tree
        exp = {"dt": F.dec_float(dt), "size": size, "dur": F.dec_float(dur)}
        got = {k: obs[k] for k in exp}
        if got != exp:
            return f"model {exp} vs implementation {got}"
        return None if F.close(F.dec_float(decay), obs["decay"]) else f"decay: model {F.dec_float(decay)} vs implementation {obs['decay']}"
    if tree[0] != 0:
        return f"the model's constructor refused the configuration: {tree}"
    if fam == "record_model":
        _, r0, tr, cfg, cleared, fresh = tree
        if fresh[0] != 0:
            return f"model: constructor refused the final configuration {fresh}"
        if len(tr) != len(obs["trace"]):
            return "trace lengths differ"
        pairs = [("created", dec_rec(r0), obs["init"])]
        pairs += [(f"after op {k} {c['ops'][k][:2]}", dec_rec(m), i) for k, (m, i) in enumerate(zip(tr, obs["trace"]))]
        pairs += [("reported configuration vs expected", [F.dec_float(cfg[0]), F.dec_float(cfg[1]), cfg[2]], obs["reported"]),
                  ("after reset", dec_rec(cleared), obs["cleared"]),
                  ("fresh record", dec_rec(fresh[1]), obs["fresh"]),
                  ("fresh record after reset", dec_rec(fresh[2]), obs["fresh_cleared"]),
                  ("setter path after reset vs fresh record after reset (implementation)", obs["cleared"], obs["fresh_cleared"]),
                  ("setter path after reset vs fresh record after reset (model)", dec_rec(cleared), dec_rec(fresh[2]))]
        return first_diff(pairs)
    if fam == "red_model":
        _, r0, tr, cfg, cleared, fresh = tree
        if fresh[0] != 0:
            return f"model: constructor refused the final configuration {fresh}"
        if len(tr) != len(obs["trace"]):
            return "trace lengths differ"
        d = red_eq(dec_red(r0), obs["init"], "constructed")
        for k, (m, i) in enumerate(zip(tr, obs["trace"])):
            d = d or red_eq(dec_red(m), i, f"after op {k} {c['ops'][k]}")
        d = d or first_diff([("reported vs expected", [F.dec_float(cfg[0]), F.dec_float(cfg[1]), cfg[2]], obs["reported"])])
        d = d or red_eq(dec_red(cleared), obs["cleared"], "after clear")
        d = d or red_eq(dec_red(fresh[1]), obs["fresh"], "fresh reducer")
        d = d or first_diff([("setter path cleared vs fresh (model)", dec_red(cleared), dec_red(fresh[1])),
                             ("setter path cleared vs fresh (implementation)", obs["cleared"], obs["fresh"])])
        return d
    if fam == "scomp_model":
        _, c0, tr, cfg, cleared, fresh = tree
        if fresh[0] != 0:
            return f"model: constructor refused the final configuration {fresh}"
        ops = [o for o in c["ops"] if o[0] != "step"]
        if len(tr) != len(obs["trace"]):
            return "trace lengths differ"
        pairs = [("constructed", dec_scomp(c0, True), obs["init"])]
        pairs += [(f"after op {k} {ops[k]}", scomp_noptr(dec_scomp(m, False)), scomp_noptr(i))
                  for k, (m, i) in enumerate(zip(tr, obs["trace"]))]
        pairs += [("reported vs expected", [F.dec_float(cfg[0]), F.dec_float(cfg[1]), cfg[2], cfg[3]], obs["reported"]),
                  ("after clear", dec_scomp(cleared, True), obs["cleared"]),
                  ("fresh synapse after clear", dec_scomp(fresh[1], True), obs["fresh_cleared"]),
                  ("setter path cleared vs fresh cleared (model)", dec_scomp(cleared, True), dec_scomp(fresh[1], True)),
                  ("setter path cleared vs fresh cleared (implementation)", obs["cleared"], obs["fresh_cleared"])]
        return first_diff(pairs)
    if fam == "conn_model":
        _, c0, tr, cfg, cleared, fresh = tree
        if fresh[0] != 0:
            return f"model: constructor refused the final configuration {fresh}"
        ops = [o for o in c["ops"] if o[0] != "step"]
        if len(tr) != len(obs["trace"]):
            return "trace lengths differ"

        def imp(x, full):
            # [dt, batch, delayedby, class name, synapse snapshot, stray] -> the model's layout; the class is compared through
            # the data types of the histories
            syn = x[4] if full else scomp_noptr(x[4])
            return [x[0], x[1], x[2], syn, x[5]], SYN_DS[x[3]]

        def mod(t, full):
            m = dec_conn(t, full)
            if not full:
                m[3] = scomp_noptr(m[3])
            return m, [h[0][3] if full else h[2][1] for h in m[3][4]]
        pairs = [("constructed", mod(c0, True), imp(obs["init"], True))]
        pairs += [(f"after op {k} {ops[k]}", mod(m, False), imp(i, False)) for k, (m, i) in enumerate(zip(tr, obs["trace"]))]
        ds, dt, dl, b, ip = cfg
        pairs += [("reported vs expected", [ds, F.dec_float(dt), F.dec_float(dl), b, ip],
                   [SYN_DS[obs["reported"][0]]] + obs["reported"][1:]),
                  ("after clear", mod(cleared, True), imp(obs["cleared"], True)),
                  ("cleared synapse vs fresh synapse cleared (model)", dec_conn(cleared, True)[3], dec_conn(fresh[1], True)[3]),
                  ("cleared synapse vs fresh synapse cleared (implementation)", obs["cleared"][4], obs["fresh_syn_cleared"]),
                  ("fresh synapse cleared", dec_conn(fresh[1], True)[3], obs["fresh_syn_cleared"])]
        return first_diff(pairs)
    if fam == "neuron_model":
        _, n0, tr, bexp, fresh, cleared = tree
        if obs["names"] != [n for n, _, _ in NEURON_TENSORS]:
            return f"batched tensors of the neuron are {obs['names']}, the model assumes {[n for n, _, _ in NEURON_TENSORS]}"
        if fresh[0] != 0:
            return f"model: constructor refused the final batch size {fresh}"
        vs = [v for v in c["ops"] if v != "step"]
        if len(tr) != len(obs["trace"]):
            return "trace lengths differ"
        pairs = [("constructed", dec_nstate(n0), obs["init"])]
        for k, (m, i) in enumerate(zip(tr, obs["trace"])):
            m = dec_nstate(m)
            pairs.append((f"after batchsz = {vs[k]}", m, i) if vs[k] > 0 else
                         (f"after refused batchsz = {vs[k]}", nstate_noflat(m), nstate_noflat(i)))
        pairs += [("expected batch size", bexp, obs["cleared"][0]),
                  ("after clear", dec_nstate(cleared), obs["cleared"]),
                  ("fresh neuron", dec_nstate(fresh[1]), obs["fresh"]),
                  ("setter path cleared vs fresh (model)", dec_nstate(cleared), dec_nstate(fresh[1])),
                  ("setter path cleared vs fresh (implementation)", obs["cleared"], obs["fresh"])]
        return first_diff(pairs)
    raise ValueError(fam)


def run(ctx):
    rng = random.Random(ctx["seed"])
    quick = ctx["tier"] == "quick"
    rel = gen_rel_cases(rng, 250 if quick else 3000) + gen_chain_cases(rng, 80 if quick else 1000)
    mod = gen_model_cases(rng, 80 if quick else 800) + gen_ext_model_cases(rng, 200 if quick else 2500)
    k = 8
    allc = rel + mod
    shards = [allc[i::k] for i in range(k)]
    with cf.ThreadPoolExecutor(k) as ex:
        outs = list(ex.map(lambda sh: F.run_impl(IMPL, {"cases": sh}) if sh else [], shards))
    res = [None] * len(allc)
    for i, o in enumerate(outs):
        for j, r in enumerate(o):
            res[i + j * k] = r
    fails = [{"case": c, "detail": {a: b for a, b in r.items() if a != "trace"},
              "signature": {"kind": r.get("what", "?"), "family": c["family"], "attr": r.get("attr")}}
             for c, r in zip(rel, res[:len(rel)]) if not r["ok"]]
    mres = res[len(rel):]
    terms, live = [], []
    mism = []
    for c, r in zip(mod, mres):
        if not r.get("ok"):
            mism.append({"case": c, "detail": r})
            continue
        terms.append(q_model(c, r))
        live.append((c, r))
    trees = F.eval_terms(ID, HEADER, terms, shard=40)
    for (c, r), t in zip(live, trees):
        if isinstance(t, Exception):
            mism.append({"case": c, "detail": str(t)})
            continue
        try:
            d = cmp_model(c, r["obs"], t)
        except Exception as e:  # noqa
            d = f"comparison failed: {type(e).__name__}: {e}"
        if d:
            mism.append({"case": c, "detail": d[:1500]})
    dist = Counter(c["family"] + ":" + c["specA"]["cls"] for c in rel)
    return {
        "evaluations": len(allc),
        "distinct_nontrivial": len({repr(c) for c in rel if len(c["order"]) >= 1}) + len({repr(c) for c in mod}),
        "rule": "relational cases: (class, configuration A, 1-4 attribute assignments in random order, optional warm-up steps) compared "
                "with a fresh component of the target configuration (getters, frame after every assignment, internal history sizes, "
                "12-25 steps of outputs); ownership-chain cases: Serial layer -> connection -> synapse + neuron, every attribute assigned "
                "through every route (connection setter, the owned synapse's own setter via layer.synapse / connection.synapse / "
                "cell.connection.synapse, the layer's neuron, replacement synapses) in random interleavings, after EACH assignment "
                "all getters of all objects of the chain compared with a freshly constructed chain of the configuration asked for, "
                "then forward steps (delayed connections included); model cases: random setter sequences whose resulting history sizes/decay are compared with "
                "the Coq model evaluated in binary64; extended model cases (RecordTensor / reducer / synapse with contents / "
                "connection / neuron batch size): random setter sequences incl. refused values, observations, clears and steps, "
                "every intermediate state (sizes, shapes, constraints, reported attributes) and the final cleared state incl. "
                "contents compared with the Coq models, and setter path vs fresh object on both sides; distinct by full case text",
        "model_family_distribution": dict(Counter(c["family"] for c in mod)),
        "samples": [rel[0], mod[0]], "class_distribution": dict(dist),
        "attr_distribution": dict(Counter(a for c in rel for a in c["order"])),
        "mismatches": mism, "oracle_failures": fails,
        "traces_validated_against_impl": len(mod) - len(mism),
    }


def replay(case):
    r = F.run_impl(IMPL, {"cases": [case]})[0]
    return r.get("ok", False), "replay: " + repr({a: b for a, b in r.items() if a != "trace"})[:1500]
