"""C14 - configuration-path independence: setters reach the same model as the constructor."""
from __future__ import annotations
import os, random
from collections import Counter
import concurrent.futures as cf
import framework as F
import c11

ID = "C14"
GEN = ["Infra"]
LEVEL = "proof"
TECHNIQUE = ("Coq proof (reals): any sequence of dt/delay/batch-size assignments on a constructed component yields exactly the "
             "component the constructor builds for the resulting configuration (history sizes through the generated record-size "
             "expression), frame and getter lemmas, decay invariant of trace reducers; model tied to the code by translation of "
             "the size expression and by a correspondence run; relational setter-vs-constructor oracle on the real classes")
LEVEL_TEXT = ("Proof for the configuration model: setters_eq_ctor (all setter sequences, all values, any number of histories), "
              "setter_frame, getters report the assigned values, trace-reducer decay always equals exp(-dt/tau); the pre-repair "
              "delay setter is refuted by a witness. The model's history sizes use the record-size expression re-translated from "
              "RecordTensor on every run and are compared (vm_compute, binary64) with the real synapses'/reducers' record sizes "
              "after random setter sequences. The property's behavioural half (same outputs from a cleared state, replacement "
              "synapse, inplace flag, 8 neurons / 4 synapses / 4 connections / 6 reducers) is decided on the implementation by "
              "the relational oracle: setter path vs freshly constructed component, getters, internal history sizes, outputs.")
LEVEL_NOTE = ("Trusted: Coq kernel + stdlib real axioms (reported); translator (record-size expression, 3 occurrences must agree); "
              "hand-written model coq/C14/Config.v validated by correspondence; the relational harness tools/impl/c14_impl.py. "
              "dtype via .to() is exercised on the implementation only (float32 vs float64 runs agree to 1e-4), not modelled.")
IMPL = os.path.join(F.VERIF, "tools", "impl", "c14_impl.py")
HEADER = ("From Coq Require Import List ZArith Bool PrimFloat.\nFrom Inferno Require Import Base.Num Base.NumF C14.Config C14.ConfigExec.\n"
          "Import ListNotations.\n")
REDUCERS = ["NearestTraceReducer", "CumulativeTraceReducer", "PassthroughReducer", "EventReducer", "EMAReducer", "CAReducer"]
DTS = [1.0, 0.5, 0.25, 1.3, 0.1, 2.0]


def gen_rel_cases(rng, n):
    cases = []
    for i in range(n):
        fam = ["neuron", "synapse", "connection", "reducer", "record"][i % 5]
        seed = rng.randrange(1 << 30)
        dt = rng.choice(DTS)
        dt2 = rng.choice([d for d in DTS if d != dt])
        warm = rng.choice([0, 0, 2, 5])
        if fam == "neuron":
            spec = {"cls": c11.NEURONS[(i // 5) % 8], "shape": rng.choice([[3], [2, 2]]), "dt": dt, "batch": rng.choice([1, 2])}
            target = {"dt": dt2, "batchsz": rng.choice([1, 2, 3])}
        elif fam == "synapse":
            k = rng.choice([0, 1, 3])
            spec = {"cls": c11.SYNAPSES[(i // 5) % 4], "shape": rng.choice([[3], [2, 2]]), "dt": dt, "batch": rng.choice([1, 2]),
                    "kw": {"delay": k * dt}}
            target = {"dt": dt2, "delay": rng.choice([0.0, dt2, 2.5 * dt2, 3 * dt2]), "batchsz": rng.choice([1, 2, 3]),
                      "inplace": rng.random() < 0.5}
        elif fam == "connection":
            cls = ["LinearDense", "LinearDirect", "LinearLateral", "Conv2D"][(i // 5) % 4]
            spec = dict(c11.conn_spec(rng, cls, dt, rng.choice([None, 2 * dt])), batch=rng.choice([1, 2]))
            target = {"dt": dt2, "batchsz": rng.choice([1, 2, 3])}
            if rng.random() < 0.5:
                target["synapse"] = {"cls": rng.choice(c11.SYNAPSES)}
        elif fam == "record":
            spec = {"cls": "RecordTensor", "dt": dt, "duration": rng.choice([0.0, dt, 2.5 * dt, 3 * dt]), "inclusive": rng.random() < 0.5,
                    "shape": rng.choice([[2], [2, 2]]), "dtype": rng.choice(["float", "bool", "int"]), "uninit": rng.random() < 0.2}
            target = {"dt": dt2, "duration": rng.choice([0.0, dt2, 2.5 * dt2, 4 * dt2]), "inclusive": not spec["inclusive"]}
        else:
            spec = {"cls": REDUCERS[(i // 5) % 6], "dt": dt, "duration": rng.choice([0.0, dt, 3 * dt]), "inplace": rng.random() < 0.5}
            target = {"dt": dt2, "duration": rng.choice([0.0, dt2, 2.5 * dt2]), "inplace": rng.random() < 0.5}
        attrs = list(target)
        rng.shuffle(attrs)
        keep = attrs[: rng.randint(1, len(attrs))]
        cases.append({"family": fam, "specA": spec, "target": {a: target[a] for a in keep}, "order": keep,
                      "T": rng.randint(12, 25), "seed": seed, "warm": warm})
    return cases


def gen_model_cases(rng, n):
    cases = []
    for i in range(n):
        dt = rng.choice(DTS)
        if i % 2 == 0:
            k = rng.choice([0, 1, 2, 4])
            ops = []
            for _ in range(rng.randint(1, 6)):
                a = rng.choice(["dt", "delay", "batchsz"])
                d = rng.choice(DTS)
                v = d if a == "dt" else (rng.choice([0.0, d, 2.5 * d, 3 * d, 3 * 0.1]) if a == "delay" else rng.choice([1, 2, 3, 5]))
                ops.append([a, v])
            cases.append({"family": "synapse_model",
                          "spec": {"cls": rng.choice(c11.SYNAPSES), "shape": [2], "dt": dt, "batch": rng.choice([1, 2]),
                                   "kw": {"delay": k * dt}}, "ops": ops})
        else:
            ops = []
            for _ in range(rng.randint(1, 5)):
                a = rng.choice(["dt", "duration"])
                d = rng.choice(DTS)
                ops.append([a, d if a == "dt" else rng.choice([0.0, d, 2.5 * d, 3 * d])])
            cases.append({"family": "tred_model",
                          "spec": {"cls": rng.choice(["NearestTraceReducer", "CumulativeTraceReducer"]), "dt": dt,
                                   "duration": rng.choice([0.0, dt, 3 * dt]), "tc": rng.choice([20.0, 7.5])}, "ops": ops})
    return cases


def q_model(c):
    fl = F.coq_float
    if c["family"] == "synapse_model":
        s = c["spec"]
        nrec = {"DeltaCurrent": 1, "DeltaPlusCurrent": 2, "SingleExponentialCurrent": 2, "DoubleExponentialCurrent": 3}[s["cls"]]
        ops = []
        for a, v in c["ops"]:
            ops.append({"dt": f"SetDt FN {fl(v)}", "delay": f"SetDelay FN {fl(v)}", "batchsz": f"SetBatch FN ({int(v)})%Z"}[a])
        return f"run_comp {nrec}%nat {fl(s['dt'])} {fl(s['kw']['delay'])} ({s['batch']})%Z {F.coq_list(ops)}"
    s = c["spec"]
    ops = [(f"TDt {fl(v)}" if a == "dt" else f"TDur {fl(v)}") for a, v in c["ops"]]
    return f"run_tred {fl(s['dt'])} {fl(s['tc'])} {fl(s['duration'])} false {F.coq_list(ops)}"


def cmp_model(c, obs, tree):
    if c["family"] == "synapse_model":
        dt, dl, b, recs, bdim = tree
        exp = {"dt": F.dec_float(dt), "delay": F.dec_float(dl), "batch": b, "recs": recs}
        got = {k: obs[k] for k in exp}
        if len(got["recs"]) != len(exp["recs"]):
            return f"model has {len(exp['recs'])} histories, implementation {len(got['recs'])}"
        return None if got == exp else f"model {exp} vs implementation {got}"
    dt, decay, size, dur = tree
    exp = {"dt": F.dec_float(dt), "size": size, "dur": F.dec_float(dur)}
    got = {k: obs[k] for k in exp}
    if got != exp:
        return f"model {exp} vs implementation {got}"
    return None if F.close(F.dec_float(decay), obs["decay"]) else f"decay: model {F.dec_float(decay)} vs implementation {obs['decay']}"


def run(ctx):
    rng = random.Random(ctx["seed"])
    quick = ctx["tier"] == "quick"
    rel = gen_rel_cases(rng, 250 if quick else 3000)
    mod = gen_model_cases(rng, 120 if quick else 1200)
    k = 8
    allc = rel + mod
    shards = [allc[i::k] for i in range(k)]
    with cf.ThreadPoolExecutor(k) as ex:
        outs = list(ex.map(lambda sh: F.run_impl(IMPL, {"cases": sh}) if sh else [], shards))
    res = [None] * len(allc)
    for i, o in enumerate(outs):
        for j, r in enumerate(o):
            res[i + j * k] = r
    fails = [{"case": c, "detail": {a: b for a, b in r.items() if a != "trace"},
              "signature": {"kind": r.get("what", "?"), "family": c["family"], "attr": r.get("attr")}}
             for c, r in zip(rel, res[:len(rel)]) if not r["ok"]]
    trees = F.eval_terms(ID, HEADER, [q_model(c) for c in mod], shard=60)
    mism = []
    for c, r, t in zip(mod, res[len(rel):], trees):
        if isinstance(t, Exception) or not r.get("ok"):
            mism.append({"case": c, "detail": str(t) if isinstance(t, Exception) else r})
            continue
        d = cmp_model(c, r["obs"], t)
        if d:
            mism.append({"case": c, "detail": d})
    dist = Counter(c["family"] + ":" + c["specA"]["cls"] for c in rel)
    return {
        "evaluations": len(allc),
        "distinct_nontrivial": len({repr(c) for c in rel if len(c["order"]) >= 1}) + len({repr(c) for c in mod}),
        "rule": "relational cases: (class, configuration A, 1-4 attribute assignments in random order, optional warm-up steps) compared "
                "with a fresh component of the target configuration (getters, frame after every assignment, internal history sizes, "
                "12-25 steps of outputs); model cases: random setter sequences whose resulting history sizes/decay are compared with "
                "the Coq model evaluated in binary64; distinct by full case text",
        "samples": [rel[0], mod[0]], "class_distribution": dict(dist),
        "attr_distribution": dict(Counter(a for c in rel for a in c["order"])),
        "mismatches": mism, "oracle_failures": fails,
        "traces_validated_against_impl": len(mod) - len(mism),
    }


def replay(case):
    r = F.run_impl(IMPL, {"cases": [case]})[0]
    return r.get("ok", False), "replay: " + repr({a: b for a, b in r.items() if a != "trace"})[:1500]
