"""C06 - a connection delay is a pure per-synapse time shift.

Case generator, Coq rendering of the composed model (C06/Delay.v on top of C04/Synapse.v and C05/Conn.v),
model/implementation comparison, and the direct oracle: the delayed connection (real code) is compared with a bank of
UNDELAYED copies of the same connection class (real code) fed the per-synapse SHIFTED input history - nothing of the
delayed code path (selector, current_at, RecordTensor.select, einsum branch) is used to compute the expectation."""
from __future__ import annotations
import math, os, random, json, glob, struct
from collections import Counter
from fractions import Fraction
import framework as F

ID = "C06"
GEN = ["Infra", "Interpolation", "Conv", "ConnectionClasses"]
LEVEL = "proof"
TECHNIQUE = ("Coq proof by composition: the delayed branch of LinearDense / LinearDirect / LinearLateral / Conv2D forward and the "
             "syncurrent / synspike views are modelled as selector construction -> C04 current_at / spike_at -> C05 contraction; "
             "C04's run invariant (records = past values) and select arithmetic give, for every history, delay tensor, size and "
             "batch, output = sum_i W[o,i] * I_i(t - k[o,i]) with resting values before the start / last clear; relational form "
             "against the undelayed connection on the shifted history; off-grid delays = the synapse's interpolation; model tied "
             "to the code by re-translated kernels (interpolation, recordsz, _unwind_ptr) and differential correspondence")
LEVEL_TEXT = ("Machine-checked proofs (Coq; reals axioms only, the run invariant axiom-free and for any numeric reading) about a "
              "branch-by-branch model of the delayed forward path of the four connection classes composed with the four synapse "
              "classes (C04) and the linear maps (C05): for all histories (steps, view reads, delay re-assignments, clears), all "
              "weight / delay tensors with delays within tolerance of a multiple of dt in [0, max], all sizes and batch sizes, the "
              "output is the per-synapse time shift of the undelayed currents (zero before the start / the last clear): "
              "general statement (any delay: on grid / between / beyond), shift on the grid, relational form per synapse, per "
              "connection for a common delay, and as a sum of undelayed connections with the weights split by delay "
              "(all four classes); reachable-from-constructor forms without invariant hypothesis; delays re-assigned between "
              "steps (delay learning): each step uses the tensor in force at that step on the whole history; zero delays = the connection without delay parameter; delays between grid points read the class's "
              "interpolation (exact continuous-time response for the exponential classes); syncurrent / synspike show the same "
              "shifted values that forward contracts; Conv2D additionally as a cross-correlation of the input image with every "
              "kernel element's contribution taken k[f,c,i,j] steps in the past.  The model is run (vm_compute, binary64) "
              "against the real classes on seeded cases; a direct oracle compares the real delayed connection with real "
              "undelayed copies fed shifted inputs.")
LEVEL_NOTE = ("Trusted: Coq kernel; translator for the interpolation kernels, recordsz_expr, _unwind_ptr; hand-written models "
              "C06/Delay.v (selector layouts, branch test `if self.delayedby`, einsum contractions, conv 'b n l f -> b f n l'), "
              "C04/Synapse.v and C05/Conn.v validated by correspondence only; einops/einsum/F.unfold modelled by their meaning. "
              "Floating-point rounding is not proved: 'on grid' with interp_tol = 0 is an exact float equality in the code "
              "(d = k*dt computed once satisfies it; checked by the harness for dt = 1.3), the theorems are exact-arithmetic.")
TRUSTED = ["hand-written model coq/C06/Delay.v (selector construction for the four connection classes, truthiness test of "
           "delayedby, delayed einsum contractions, syncurrent/synspike) - tied to the code by the correspondence check only",
           "C04 synapse model (coq/C04/Synapse.v) and C05 connection model (coq/C05/Conn.v), owned and validated by C04 / C05; "
           "C01 ring model under them"]
ASSUMES = ["theorems are exact-arithmetic (real number) statements; binary64 rounding is not modelled",
           "constructor preconditions: dt > 0, maximum delay >= 0, 0 <= interp_tol < dt/2",
           "weight / bias / delay tensors have the shapes the constructors create; inputs have the connection's batched input shape",
           "float64 default dtype on the implementation side"]
EXPLANATION = ("forward (delayed branch) = contraction of the weights with current_at(selector); C04 shows that entry is the value "
               "the synapse had k steps ago when its delay is within tolerance of k*dt (resting value before the start / clear), "
               "the class's interpolation between the bracketing past values otherwise, the overbound value beyond the maximum; "
               "that past value is by C04 the undelayed synapse's output on the history without its k newest inputs, equivalently "
               "on the history shifted by k steps (zero-padded) - which is what the direct oracle simulates with real undelayed copies.")
HEADER = ("From Coq Require Import List ZArith Bool PrimFloat.\n"
          "From Inferno Require Import Base.Num Base.NumF C01.Ring C04.Synapse C04.SynapseExec C06.Delay C06.DelayExec.\n"
          "From Inferno Require C05.Conn.\n"
          "Import ListNotations.\n")
IMPL = os.path.join(F.VERIF, "tools", "impl", "c06_impl.py")
CLSN = ["DeltaCurrent", "DeltaPlusCurrent", "SingleExponentialCurrent", "DoubleExponentialCurrent"]


def prod(s):
    n = 1
    for v in s:
        n *= v
    return n


def is_dyadic(x, bits=12):
    fr = Fraction(x)
    return fr.denominator <= (1 << bits) and abs(fr.numerator) < (1 << 40)


def out_size(size, p, d, k, s):
    return (size + 2 * p - d * (k - 1) - 1) // s + 1


# ------------------------------------------------------------------ geometry of a case
def dims(case):
    """-> dict with B, the synapse's unbatched shape, number of weight entries, output count ..."""
    k = case["conn"]
    B = case["B"]
    if k == "dense":
        I, O = prod(case["in"]), prod(case["out"])
        return {"B": B, "I": I, "O": O, "nw": I * O, "synshape": [B, I], "inshape": [B] + case["in"],
                "outshape": [B] + case["out"], "nb": O}
    if k in ("direct", "lateral"):
        n = prod(case["shape"])
        return {"B": B, "I": n, "O": n, "nw": n if k == "direct" else n * n, "synshape": [B, n],
                "inshape": [B] + case["shape"], "outshape": [B] + case["shape"], "nb": n}
    g = case["geom"]
    ho = out_size(g["H"], g["padding"][0], g["dilation"][0], g["kernel"][0], g["stride"][0])
    wo = out_size(g["W"], g["padding"][1], g["dilation"][1], g["kernel"][1], g["stride"][1])
    N = g["C"] * g["kernel"][0] * g["kernel"][1]
    L = ho * wo
    return {"B": B, "N": N, "L": L, "F": g["F"], "HO": ho, "WO": wo, "nw": g["F"] * N, "synshape": [B, N, L],
            "inshape": [B, g["C"], g["H"], g["W"]], "outshape": [B, g["F"], ho, wo], "nb": g["F"]}


def terms(case, dm):
    """the contraction each connection class performs, as data:
    yields (out_index, bias_index, [(weight_index, synapse_element, view_index)])
    weight_index indexes the flat weight / delay tensor, synapse_element the flat synapse (batch x shape),
    view_index the flat delayed syncurrent / synspike view (selector layout)."""
    k = case["conn"]
    B = dm["B"]
    if k in ("dense", "lateral"):
        I, O = dm["I"], dm["O"]
        for b in range(B):
            for o in range(O):
                yield b * O + o, o, [(o * I + i, b * I + i, (b * I + i) * O + o) for i in range(I)]
    elif k == "direct":
        n = dm["I"]
        for b in range(B):
            for j in range(n):
                yield b * n + j, j, [(j, b * n + j, b * n + j)]
    else:
        N, L, Fn = dm["N"], dm["L"], dm["F"]
        for b in range(B):
            for f in range(Fn):
                for l in range(L):
                    yield (b * Fn + f) * L + l, f, [(f * N + n, (b * N + n) * L + l, ((b * N + n) * L + l) * Fn + f)
                                                     for n in range(N)]


def view_shape(case, dm):
    k = case["conn"]
    if k in ("dense", "lateral"):
        return [dm["B"], dm["I"], dm["O"]]
    if k == "direct":
        return [dm["B"], dm["I"], 1]
    return [dm["B"], dm["N"], dm["L"], dm["F"]]


# ------------------------------------------------------------------ generator
VALS = [1.0, -1.0, 0.5, 2.0, 0.0, -0.75, 1.5, 0.3]


def gen_delays(rng, case, nw, force=None):
    """-> (d values, dk) : dk[j] = the integer number of steps when entry j is on the grid BY CONSTRUCTION
    (d = k*dt computed once, in binary64 - the same value goes to the model and to the implementation), else None"""
    dt, ks, tol = case["dt"], case["ksteps"], case["syn"]["tol"]
    dyadic = case["dyadic"]
    style = rng.random()
    d, dk = [], []
    if case.get("kfrac"):
        # maximum delay strictly inside (0, dt): zero, between-grid values up to the maximum, the maximum itself, rarely beyond
        mx = case["delay"]
        for _ in range(nw):
            r = rng.random()
            if r < 0.25:
                d.append(0.0); dk.append(0)
            elif r < 0.93:
                d.append(rng.choice([0.5, 1.0, 0.6, 0.25]) * mx); dk.append(None)
            else:
                d.append(mx + dt); dk.append(None)
        return [float(v) for v in d], dk
    if not ks:
        return [0.0] * nw, [0] * nw
    if case.get("long"):
        # grid-aligned delays k*dt (binary64 product), k up to the maximum, always including the maximum itself
        # (plain float arithmetic of the harness, no library code: the k whose quotient (k*dt)/dt is not exactly k)
        special = [k for k in range(1, ks + 1) if (k * dt) / dt != k]
        pool = special + special + [ks, rng.randint(0, ks), rng.randint(0, ks)]
        ksel = ([ks] + special + [rng.choice(pool) for _ in range(nw)])[:nw] if nw > 1 else [rng.choice(special + [ks])]
        rng.shuffle(ksel)
        return [float(k * dt) for k in ksel], ksel
    hom = rng.randint(0, ks)
    if force == "between":
        # learned delays with a fractional part under / over dt/2 (previous and nearest differ on the spike view), some on the grid
        for _ in range(nw):
            r = rng.random()
            k = rng.randint(0, ks - 1)
            if r < 0.25:
                d.append(k * dt); dk.append(k)
            else:
                d.append((k + rng.choice([0.25, 0.375, 0.75] if dyadic else [0.3, 0.41, 0.2, 0.7])) * dt); dk.append(None)
        return [float(v) for v in d], dk
    if rng.random() < (0.55 if tol > 0 else 0.15):
        # deliberately NEAR the grid: k*dt +- eps with eps inside and outside the tolerance, on both sides, for k = 0 .. the
        # maximum step count (at k = 0 / k = max this leaves the supported range by less / more than the tolerance), and the
        # float32 rounding of the product k*dt (what a float32 delay parameter holds; it is not the binary64 product for a
        # non-representable dt).  None of these is on the grid by construction: dk = None, the oracle classifies them.
        ks_all = list(range(ks + 1))
        rng.shuffle(ks_all)
        for j in range(nw):
            k = ks_all[j % len(ks_all)] if j < len(ks_all) else rng.randint(0, ks)
            r = rng.random()
            if r < 0.15:
                d.append(k * dt); dk.append(k)
            elif r < 0.35:
                v32 = struct.unpack("f", struct.pack("f", k * dt))[0]
                d.append(v32); dk.append(k if v32 == k * dt else None)
            elif tol > 0:
                side = rng.choice([-1.0, 1.0])
                if r < 0.70:
                    eps = rng.choice([0.5, 0.9, 0.25]) * tol            # inside the tolerance
                else:
                    eps = rng.choice([1.5, 2.5]) * tol                  # outside, still nearest to k
                d.append(k * dt + side * eps); dk.append(None)
            else:
                d.append(k * dt + rng.choice([-1.0, 1.0]) * rng.choice([1e-7, 1e-4]) * dt); dk.append(None)
        return [float(v) for v in d], dk
    for _ in range(nw):
        if style < 0.55:                      # heterogeneous, on the grid
            k = rng.randint(0, ks)
            d.append(k * dt); dk.append(k)
        elif style < 0.65:                    # homogeneous
            d.append(hom * dt); dk.append(hom)
        elif style < 0.72:                    # all zero
            d.append(0.0); dk.append(0)
        elif style < 0.90:                    # some between grid points / within tolerance of the grid
            r = rng.random()
            k = rng.randint(0, ks)
            if r < 0.5:
                d.append(k * dt); dk.append(k)
            elif r < 0.8 or tol == 0:
                k = rng.randint(0, ks - 1)
                d.append((k + rng.choice([0.25, 0.5, 0.75] if dyadic else [0.3, 0.7, 0.41])) * dt); dk.append(None)
            else:
                v = k * dt + rng.choice([-1, 1]) * tol / 2
                v = min(max(v, 0.0), ks * dt)
                d.append(v); dk.append(None)
        else:                                 # some beyond the supported range
            r = rng.random()
            k = rng.randint(0, ks)
            if r < 0.6:
                d.append(k * dt); dk.append(k)
            elif r < 0.85:
                d.append(ks * dt + rng.choice([dt, 0.5 * dt, 4 * dt])); dk.append(None)
            else:
                d.append(-rng.choice([dt, 0.5 * dt])); dk.append(None)
    return [float(v) for v in d], dk


def kmask_of(dk):
    return [(-1 if k is None else k) for k in dk]


# DOCUMENTED defaults of the optional arguments (from the docstrings of `partialconstructor` of the four synapse classes:
# interp_mode / spike_interp_mode "previous", interp_tol 0.0, current_overbound 0.0, spike_overbound False, inplace False;
# and of the connection constructors: bias False, delay None, batch_size 1).  Hard-coded on purpose: never read from the code.
DOC_DEFAULTS = {"mode": 0, "tol": 0.0, "cur_ob": 0.0, "spk_ob": False, "inplace": False}


def gen_case(rng: random.Random, idx: int):
    malformed = idx % 9 == 8
    long_delay = idx % 13 == 5           # long maximum delays, tolerance exactly 0, non-representable dt
    conn = rng.choice(["dense", "dense", "dense", "direct", "direct", "lateral", "lateral", "conv", "conv", "conv"])
    cls = rng.randrange(4)
    dyadic = rng.random() < 0.5
    dt = rng.choice([1.0, 0.5]) if dyadic else rng.choice([1.3, 1.3, 0.9, 0.45, 0.7, 0.1])
    ksteps = rng.choice([None, 0, 1, 1, 3, 3, 3, 2, 6, "frac", "frac"])
    kfrac = None
    # interp_tol goes through partialconstructor for every class: none, and three magnitudes
    tol = rng.choice([0.0, 0.0, 1e-6, 1e-3, 0.25 * dt])
    if long_delay:
        conn = rng.choice(["direct", "direct", "dense"])
        dyadic, dt, tol = False, rng.choice([0.7, 1.3, 0.1, 0.9, 0.45]), 0.0
        ksteps = rng.choice([13, 14, 15, 21, 29, 30, 7, 22])
        if not [k for k in range(1, ksteps + 1) if (k * dt) / dt != k]:
            ksteps = 30
        malformed = False
    if ksteps == "frac":                 # a maximum delay strictly between 0 and dt
        kfrac = rng.choice([0.5, 0.5, 0.25, 0.75]) if dyadic else rng.choice([0.5, 0.3, 0.8])
        ksteps = 0
        tol = rng.choice([0.0, 0.0, 1e-6])
    tau = rng.choice([5.0, 2.3, 0.8, 8.0])
    tr = rng.choice([0.5, 1.7, 0.3])
    if tau <= tr:
        tau = tr + 2.0
    syn = {"cls": cls, "Q": rng.choice([1.0, 2.0, -1.5, 0.7]), "tau": tau, "tr": tr, "mode": rng.randrange(2),
           "tol": float(tol), "cur_ob": rng.choice([0.0, 0.0, 0.0, None, 7.5]), "spk_ob": rng.choice([False, False, None, True]),
           "inplace": rng.random() < 0.5}
    B = rng.choice([1, 1, 2, 3])
    # optional arguments NOT passed to partialconstructor / the connection constructor: the documented default applies
    omit = []
    if rng.random() < 0.35:
        for a in ("mode", "mode", "tol", "cur_ob", "spk_ob", "inplace", "bias", "delay", "batch_size"):
            if rng.random() < 0.35 and a not in omit:
                omit.append(a)
        if (long_delay or kfrac) and "delay" in omit:
            omit.remove("delay")
        if long_delay and "tol" not in omit:
            omit.append("tol")           # the default tolerance IS exactly 0
    for a in omit:
        if a in DOC_DEFAULTS:
            syn[a] = DOC_DEFAULTS[a]
    if "delay" in omit:
        ksteps = None
    if "batch_size" in omit:
        B = 1
    if long_delay:
        B = 1
    delay = None if ksteps is None else float(kfrac * dt if kfrac else ksteps * dt)
    case = {"conn": conn, "syn": syn, "dt": dt, "dyadic": dyadic, "ksteps": ksteps, "kfrac": kfrac, "long": long_delay,
            "delay": delay, "B": B, "omit": omit,
            "float_in": rng.random() < 0.35, "malformed": malformed}
    if conn == "dense":
        case["in"] = rng.choice([[1], [2], [3], [2, 2], [2]])
        case["out"] = rng.choice([[1], [2], [3], [2], [1, 2]])
    elif conn in ("direct", "lateral"):
        case["shape"] = rng.choice([[1], [2], [3], [2, 2], [3]] if conn == "direct" else [[2], [3], [2, 2], [3], [1]])
    if long_delay:
        if conn == "dense":
            case["in"], case["out"] = rng.choice([[2], [3]]), rng.choice([[1], [2]])
        else:
            case["shape"] = rng.choice([[3], [4]])
    else:
        for _ in range(200):
            H, W = rng.randint(2, 4), rng.randint(2, 4)
            C, Fn = rng.choice([1, 1, 2]), rng.choice([1, 2, 2])
            k = [rng.randint(1, 2), rng.randint(1, 2)]
            s = [rng.randint(1, 2), rng.randint(1, 2)]
            p = [rng.randint(0, 1), rng.randint(0, 1)]
            dl = [rng.randint(1, 2), rng.randint(1, 2)]
            ho, wo = out_size(H, p[0], dl[0], k[0], s[0]), out_size(W, p[1], dl[1], k[1], s[1])
            if ho >= 1 and wo >= 1 and C * k[0] * k[1] * ho * wo * Fn * case["B"] <= 160:
                break
        case["geom"] = {"H": H, "W": W, "C": C, "F": Fn, "kernel": k, "stride": s, "padding": p, "dilation": dl}
    dm = dims(case)
    case["W"] = [rng.choice(VALS) for _ in range(dm["nw"])]
    case["b"] = [rng.choice(VALS) for _ in range(dm["nb"])] if (rng.random() < 0.5 and "bias" not in omit) else None
    case["kmax"] = (ksteps or 0) if not kfrac else 1
    d, dk = gen_delays(rng, case, dm["nw"], force=("between" if ("mode" in omit and ksteps) else None))
    if conn == "lateral":         # the masked setter zeroes the diagonal
        n = dm["I"]
        for i in range(n):
            dk[i * n + i] = 0
    case["d"], case["dk"], case["kmask"] = d, dk, kmask_of(dk)
    ops = []
    nsteps = rng.randint(3, 8) if not long_delay else ksteps + rng.randint(2, 4)
    p_spike = rng.choice([0.3, 0.5, 0.8])
    seg = {"dt": dt, "ksteps": ksteps, "delay": case["delay"], "B": case["B"]}     # configuration in force
    kmax = case["kmax"]
    noreconf = bool(kfrac) or long_delay

    def new_delays():
        sc = dict(case, **seg)
        d2, dk2 = gen_delays(rng, sc, dm["nw"])
        if conn == "lateral":
            n = dm["I"]
            for i in range(n):
                dk2[i * n + i] = 0
        return d2, dk2

    for _ in range(nsteps):
        dm = dims(dict(case, **seg))
        nin = prod(dm["inshape"])
        if case["float_in"] and cls != 0:
            xs = [rng.choice([0.0, 0.0, 1.0, 1.0, 0.5, 2.0, -1.0]) for _ in range(nin)]
        else:
            xs = [1.0 if rng.random() < p_spike else 0.0 for _ in range(nin)]
        inj = []
        if cls == 1 and rng.random() < 0.4:
            inj = [[rng.choice([0.0, 0.5, -1.25, 2.0, 0.1]) for _ in range(nin)] for _ in range(rng.choice([1, 1, 2]))]
        if malformed and rng.random() < 0.25:
            bad = list(dm["inshape"])
            if conn == "conv" and rng.random() < 0.7:
                bad[1] += 1           # another channel count is always rejected (the unfolded shape differs)
            else:
                bad[-1] += 1          # conv: F.unfold may still produce the synapse's shape (accepted by the code)
            ops.append(["step", bad, [0.0] * prod(bad), []])
        else:
            ops.append(["step", dm["inshape"], xs, inj])
        r = rng.random()
        if long_delay:
            if len([o for o in ops if o[0] == "step"]) > ksteps and r < 0.5:
                ops.append(rng.choice([["syncur"], ["synspk"]]))
            continue
        if r < 0.30:
            ops.append(["syncur"])
        if 0.15 < r < 0.45 or ("mode" in omit and r < 0.8):
            ops.append(["synspk"])
        if r > 0.96:
            ops.append(["selector"])
        if 0.90 < r <= 0.96:
            ops.append(["clear"])
            if rng.random() < 0.5:
                ops.append(rng.choice([["syncur"], ["synspk"]]))
        if 0.84 < r <= 0.90 and seg["ksteps"]:
            d2, dk2 = new_delays()
            ops.append(["setdelay", d2, kmask_of(dk2), dk2])
        # checkpoint / restore into a twin, and reconfiguration in the middle of the run
        r2 = rng.random()
        if r2 < 0.11:
            ops.append(["restore", rng.choice(["fresh", "used", "used"]), rng.randint(1, 5), rng.randint(0, 10**6)])
            if rng.random() < 0.4:
                ops.append(rng.choice([["syncur"], ["synspk"]]))
        elif noreconf and r2 < 0.18:
            pass
        elif r2 < 0.145:
            # connection.dt = new step time (clears the synapse); the maximum delay stays the same number of ms
            cands = []
            for nd in ([1.0, 0.5, 0.25] if dyadic else [seg["dt"] * 0.5, seg["dt"] * 2.0]):
                if nd == seg["dt"] or (syn["tol"] != 0 and nd < seg["dt"]):
                    continue
                ks = seg["ksteps"]
                if ks:
                    q = Fraction(ks) * Fraction(seg["dt"]) / Fraction(nd)
                    if q.denominator != 1 or q > 6 or float(int(q) * nd) != seg["delay"]:
                        continue
                    ks = int(q)
                cands.append((nd, ks))
            if cands:
                nd, ks = rng.choice(cands)
                seg["dt"], seg["ksteps"] = nd, ks
                kmax = max(kmax, ks or 0)
                d2, dk2 = new_delays()
                ops.append(["setdt", nd, d2, kmask_of(dk2), dk2, ks])
        elif r2 < 0.18 and seg["ksteps"] is not None:
            # connection.synapse.delay = new maximum delay (clears the synapse)
            ks = rng.choice([k for k in (0, 1, 2, 3, 4) if k != seg["ksteps"]])
            seg["ksteps"], seg["delay"] = ks, float(ks * seg["dt"])
            kmax = max(kmax, ks)
            d2, dk2 = new_delays()
            ops.append(["setmaxdelay", seg["delay"], d2, kmask_of(dk2), dk2, ks])
        elif r2 < 0.21:
            # connection.batchsz = new batch size (keeps the histories of the surviving batch elements)
            nb = rng.choice([b for b in (1, 2, 3) if b != seg["B"]])
            seg["B"] = nb
            ops.append(["setbatch", nb])
    if rng.random() < 0.5:
        ops.append(["syncur"])
        ops.append(["synspk"])
    case["ops"] = ops
    case["kmax"] = max(kmax, 1) if kfrac else kmax
    return case


def gen_cases(rng, n):
    return [gen_case(rng, i) for i in range(n)]


def sweep_cases(rng, n):
    """thorough tier, a TEST (not a proof) of the float caveat: dt = 1.3, on-grid delays k*dt for large k"""
    out = []
    for i in range(n):
        ks = rng.choice([7, 20, 50])
        case = {"conn": "direct", "syn": {"cls": i % 4, "Q": 1.0, "tau": 5.0, "tr": 0.5, "mode": 0, "tol": 0.0, "cur_ob": 0.0,
                                           "spk_ob": False, "inplace": False},
                "dt": 1.3, "dyadic": False, "ksteps": ks, "delay": float(ks * 1.3), "B": 1, "float_in": False, "malformed": False,
                "shape": [4], "W": [1.0, 2.0, -1.0, 0.5], "b": None, "kmax": ks}
        dk = [rng.randint(0, ks) for _ in range(4)]
        case["d"], case["dk"], case["kmask"] = [float(k * 1.3) for k in dk], dk, dk
        case["ops"] = [["step", [1, 4], [1.0 if rng.random() < 0.5 else 0.0 for _ in range(4)], []] for _ in range(ks + 3)]
        case["ops"] += [["syncur"], ["synspk"]]
        out.append(case)
    return out


# ------------------------------------------------------------------ rendering to Coq
def qf(v):
    return F.coq_float(float(v))


def ql(vs):
    return F.coq_list([qf(v) for v in vs])


def qn(ns):
    return F.coq_list([f"{int(n)}%nat" for n in ns])


def chunks(l, w):
    return [l[i:i + w] for i in range(0, len(l), w)]


def ql2(l, w):
    return F.coq_list([ql(r) for r in chunks(l, w)])


def ql4(l, C, kh, kw):
    per_f = C * kh * kw
    return F.coq_list([F.coq_list([ql2(c, kw) for c in chunks(fl, kh * kw)]) for fl in chunks(l, per_f)])


def qopt(x):
    return "None" if x is None else f"(Some {x})"


def q_sp(sy):
    cob = qopt(None if sy["cur_ob"] is None else qf(sy["cur_ob"]))
    sob = qopt(None if sy["spk_ob"] is None else F.coq_bool(sy["spk_ob"]))
    return (f"(mkSP FN (kind_of {sy['cls']}%Z) {qf(sy['Q'])} {qf(sy['tau'])} {qf(sy['tr'])} (mode_of {sy['mode']}%Z) "
            f"{qf(sy['tol'])} {cob} {sob} {F.coq_bool(sy['inplace'])})")


def q_op(op):
    k = op[0]
    if k == "step":
        return f"KStep FN {qn(op[1])} {ql(op[2])} {F.coq_list([ql(i) for i in op[3]])}"
    if k == "syncur":
        return "KSynCurrent FN"
    if k == "synspk":
        return "KSynSpike FN"
    if k == "selector":
        return "KSelector FN"
    if k == "setdelay":
        return f"KSetDelay FN {ql(op[1])}"
    if k == "restore":
        return "KRestore FN"
    return "KClear FN"


def segments(case):
    """The model runs a case as a sequence of segments.  `connection.dt = v` and `connection.synapse.delay = v` clear the
    synapse and resize its records: the model reads them as 'the same connection constructed with the new value, at
    rest, carrying the delay tensor assigned right after' - a new segment.  `connection.batchsz = v` keeps part of the
    state and is not modelled: the correspondence stops there (the direct oracle continues).
    -> list of (config dict, delay tensor, ops), number of case ops covered by the model"""
    cfg = {"dt": case["dt"], "delay": case["delay"], "B": case["B"]}
    segs = [(dict(cfg), case["d"], [])]
    n = 0
    for op in case["ops"]:
        if op[0] == "setbatch":
            break
        n += 1
        if op[0] == "setdt":
            cfg["dt"] = op[1]
            segs.append((dict(cfg), op[2], []))
        elif op[0] == "setmaxdelay":
            cfg["delay"] = op[1]
            segs.append((dict(cfg), op[2], []))
        else:
            segs[-1][2].append(op)
    return segs, n


def q_segment(case, cfg, d, oplist):
    dm = dims(case)
    ops = F.coq_list([q_op(o) for o in oplist])
    head = f"{q_sp(case['syn'])} {qf(cfg['dt'])} {qopt(None if cfg['delay'] is None else qf(cfg['delay']))} {cfg['B']}%nat"
    b = qopt(None if case["b"] is None else ql(case["b"]))
    k = case["conn"]
    if k == "dense":
        return (f"dense_case {head} {qn(case['in'])} {qn(case['out'])} {ql2(case['W'], dm['I'])} {b} "
                f"{ql2(d, dm['I'])} {ops}")
    if k == "direct":
        return f"direct_case {head} {qn(case['shape'])} {ql(case['W'])} {b} {ql(d)} {ops}"
    if k == "lateral":
        return (f"lateral_case {head} {qn(case['shape'])} {ql2(case['W'], dm['I'])} {b} {ql2(d, dm['I'])} {ops}")
    g = case["geom"]
    geom = (f"(Conn.mkG {g['H']} {g['W']} {g['C']} {g['F']} {g['kernel'][0]} {g['kernel'][1]} {g['stride'][0]} {g['stride'][1]} "
            f"{g['padding'][0]} {g['padding'][1]} {g['dilation'][0]} {g['dilation'][1]})%Z")
    return (f"conv_case {head} {geom} {ql4(case['W'], g['C'], g['kernel'][0], g['kernel'][1])} {b} "
            f"{ql4(d, g['C'], g['kernel'][0], g['kernel'][1])} {ops}")


def q_case(case):
    segs, _ = segments(case)
    return "Nd [" + "; ".join(q_segment(case, cfg, d, ol) for cfg, d, ol in segs) + "]"


# ------------------------------------------------------------------ model vs implementation
def dec_model(o):
    t = o[0]
    if t == 0:
        return ("unit",)
    if t == 1:
        return ("f", list(o[1][0]), [F.dec_float(x) for x in o[1][1]])
    if t == 2:
        return ("b", list(o[1][0]), [int(x) for x in o[1][1]])
    return ("err", int(o[1]))


def dec_impl(o):
    t = o[0]
    if t == 0:
        return ("unit",)
    if t == 1:
        return ("f", list(o[1]), [F.dec_float(x) for x in o[2]])
    if t == 2:
        return ("b", list(o[1]), [int(x) for x in o[2]])
    if t == 3:
        return ("err", int(o[1]))
    if t == 5:                          # a dt / maximum-delay setter: reports the new record size
        return ("unit",)
    return ("baddtype", o[1], o[2])


def same_out(case, a, b):
    if a[0] != b[0]:
        return False
    if a[0] == "unit":
        return True
    if a[0] == "err":
        return True if case["conn"] == "conv" else a[1] == b[1]     # conv: which library call rejects a bad shape is not modelled
    if a[1] != b[1] or len(a[2]) != len(b[2]):
        return False
    if a[0] == "b":
        return a[2] == b[2]
    return all(F.close(x, y) for x, y in zip(a[2], b[2]))


def compare(case, mtree, res):
    segs, n = segments(case)
    if len(mtree) != len(segs):
        return [(-1, "number of segments")]
    if mtree[0][0] != res["info"]["recordsz"]:
        return [(-1, {"recordsz_model": mtree[0][0], "recordsz_impl": res["info"]["recordsz"]})]
    si, pos = 0, 0
    for i, (op, t) in enumerate(zip(case["ops"][:n], res["trace"][:n])):
        if op[0] in ("setdt", "setmaxdelay"):
            si, pos = si + 1, 0
            if t[0] != 5 or mtree[si][0] != t[1]:
                return [(i, {"op": op[0], "recordsz_model": mtree[si][0], "impl": t})]
            continue
        mo = mtree[si][1]
        if pos >= len(mo):
            return [(i, "model trace too short")]
        a, b = dec_model(mo[pos]), dec_impl(t)
        pos += 1
        if not same_out(case, a, b):
            return [(i, {"model": a, "impl": b})]
    return []


# ------------------------------------------------------------------ direct oracle (the property statement)
def classify(case, t, dk):
    """how the property reads a delay t: ('grid', k) | ('between', older, newer, since) | ('beyond',) | None (no opinion:
    within rounding distance of a decision boundary of a non-dyadic configuration)"""
    ks = case["ksteps"]
    if dk is not None and 0 <= dk <= ks:
        return ("grid", dk)
    exact = case["dyadic"] and is_dyadic(t)
    dt, delay, tol = Fraction(case["dt"]), Fraction(case["delay"]), Fraction(case["syn"]["tol"])
    tf = Fraction(t)
    eps = Fraction(1, 10**9) * dt

    def near(a, b):
        return (not exact) and abs(a - b) < eps
    if near(tf, -tol) or near(tf, delay + tol):
        return None
    if tf < -tol or tf > delay + tol:
        return ("beyond",)
    tb = min(max(tf, Fraction(0)), delay)
    q = tb / dt
    k = math.floor(q + Fraction(1, 2))
    if near(abs(k * dt - tb), tol) and not (exact or abs(k * dt - tb) == 0):
        return None
    if abs(k * dt - tb) <= tol:
        return ("grid", k)
    if abs(k * dt - tb) < eps and not exact:
        return None
    older, newer = math.ceil(q), math.floor(q)
    since = older * dt - tb
    if not exact and near(since / dt, Fraction(1, 2)):
        return None
    return ("between", older, newer, since)


def past(bank, k, key, e):
    """value of `key` of synapse element e in the undelayed copy fed the history shifted by k steps (None bank = resting)"""
    if bank is None:
        return 0
    return bank[str(k)][key][e]


def expect(case, bank, what, e, t, dk):
    """expected entry of syncurrent ('cur') / synspike ('spk') for synapse element e whose delay is t; None = no opinion"""
    sy = case["syn"]
    cl = classify(case, t, dk)
    if cl is None:
        return None
    ks = case["ksteps"]
    if cl[0] == "beyond":
        ob = sy["spk_ob"] if what == "spk" else sy["cur_ob"]
        if ob is not None:
            return (1 if ob else 0) if what == "spk" else float(ob)
        if Fraction(t) < 0:
            cl = ("grid", 0)                                      # the value at the limit
        elif case.get("kfrac"):
            cl = classify(case, case["delay"], None)
            if cl is None:
                return None
        else:
            cl = ("grid", ks)
    if cl[0] == "grid":
        return past(bank, cl[1], what, e)
    _, older, newer, since = cl
    cls = sy["cls"]
    if what == "spk" or cls in (0, 1):
        if sy["mode"] == 0:
            return past(bank, older, what, e)
        return past(bank, newer if since / Fraction(case["dt"]) > Fraction(1, 2) else older, what, e)
    s = float(since)
    if cls == 2:
        return past(bank, older, "cur", e) * math.exp(-s / sy["tau"])
    return past(bank, older, "pos", e) * math.exp(-s / sy["tau"]) - past(bank, older, "neg", e) * math.exp(-s / sy["tr"])


STALE = "stale"


def construction_failures(case, built):
    """construction-path oracle: the synapse the connection built through `partialconstructor` must carry every argument
    the harness configured (a dropped / defaulted argument of the inner constructor shows here, whatever the run exercises)"""
    sy = case["syn"]
    cls = sy["cls"]
    dm = dims(case)
    mode = ["interp_previous", "interp_nearest"][sy["mode"]]
    want = {
        "cls": CLSN[cls],
        "tolerances": sorted({float(sy["tol"])}),
        "cur_ob": sorted({repr(None if sy["cur_ob"] is None else float(sy["cur_ob"]))}),
        "spk_ob": sorted({repr(None if sy["spk_ob"] is None else bool(sy["spk_ob"]))}),
        "spike_interp": [mode],
        "current_interp": [] if cls == 3 else ([mode] if cls in (0, 1) else ["interp_expdecay"]),
        "current_interp_kwargs": [] if cls == 3 else ([{}] if cls in (0, 1) else [{"time_constant": float(sy["tau"])}]),
        "spike_charge": float(sy["Q"]),
        "time_constant": float(sy["tau"]) if cls == 2 else None,
        "tc_decay": float(sy["tau"]) if cls == 3 else None,
        "tc_rise": float(sy["tr"]) if cls == 3 else None,
        "dt": float(case["dt"]), "delay": float(case["delay"] or 0.0), "B": case["B"], "shape": dm["synshape"][1:],
        "inplace": bool(sy["inplace"]),
    }
    got = dict(built)
    got["tolerances"] = sorted(set(built["tolerances"]))
    got["cur_ob"] = sorted({repr(v) for v in built["cur_ob"]})
    got["spk_ob"] = sorted({repr(v) for v in built["spk_ob"]})
    got["spike_interp"] = sorted(set(built["spike_interp"]))
    got["current_interp"] = sorted(set(built["current_interp"]))
    ck = []
    for kw in built["current_interp_kwargs"]:
        if kw not in ck:
            ck.append(kw)
    got["current_interp_kwargs"] = ck
    bad = {k: {"configured": want[k], "built": got.get(k)} for k in want if got.get(k) != want[k]}
    if bad:
        return [{"step": None, "detail": {"synapse_built_through_partialconstructor_differs": bad},
                 "signature": {"kind": "construction", "syn": CLSN[cls], "args": sorted(bad)}}]
    return []


def oracle_case(case0, res):
    case = dict(case0)                  # the configuration in force (dt / maximum delay / batch size setters change it)
    fails = []
    if isinstance(res["bank"], dict) and "crash" in res["bank"]:
        return [{"step": None, "detail": {"undelayed_copies_crashed": res["bank"]["crash"]}, "signature": {"kind": "oracle_crash"}}]
    dm = dims(case)
    info = res["info"]
    fails += construction_failures(case, info["built"])
    W = info["w"]                       # as stored by the connection (LinearLateral masks the diagonal)
    bias = info["b"]
    d, dk = list(case["d"]), list(case["dk"])
    if case["conn"] == "lateral":       # the masked setter zeroes the diagonal
        for j in range(dm["I"]):
            d[j * dm["I"] + j] = 0.0
    delayed = bool(case["delay"])       # the property's reading: a positive maximum delay
    conn = case["conn"]
    T = list(terms(case, dm))
    last = None                         # observations of the undelayed copies at the newest step since the last clear
    nsyn = prod(dm["synshape"])
    for i, (op, out) in enumerate(zip(case["ops"], res["trace"])):
        k = op[0]
        v = dec_impl(out)
        sig = {"conn": conn, "syn": CLSN[case["syn"]["cls"]]}
        if k == "step" and list(op[1]) != list(dm["inshape"]):
            if v[0] != "err":
                if conn == "conv":      # F.unfold of a wider image can give the synapse's shape: accepted by the code (and by
                    return fails        # the model); the undelayed copies were not stepped - no opinion on the rest of the case
                fails.append({"step": i, "detail": {"malformed_input_accepted": v[:2]}, "signature": dict(sig, kind="malformed")})
            continue
        if v[0] in ("err", "baddtype"):
            fails.append({"step": i, "op": op[:1], "detail": {"raised_or_bad_dtype": v}, "signature": dict(sig, kind="raised", op=k)})
            continue
        if k == "clear":
            last = None
            continue
        if k == "restore":              # the run continues on the twin; the expectation (the undelayed copies fed the
            continue                    # shifted inputs of the WHOLE run) simply continues across the restore
        if k in ("setdt", "setmaxdelay"):
            if k == "setdt":
                case["dt"] = op[1]
            else:
                case["delay"] = op[1]
            case["ksteps"] = op[5]
            d, dk = list(op[2]), list(op[4])
            if conn == "lateral":
                for j in range(dm["I"]):
                    d[j * dm["I"] + j] = 0.0
            delayed = bool(case["delay"])
            last = None                 # both setters clear the synapse
            continue
        if k == "setbatch":
            case["B"] = op[1]
            dm = dims(case)
            T = list(terms(case, dm))
            nsyn = prod(dm["synshape"])
            last = STALE                # no view is compared before the next step
            continue
        if last is STALE and k in ("syncur", "synspk"):
            continue
        if k == "setdelay":
            if case["delay"] is not None:
                d, dk = list(op[1]), list(op[3])
                if conn == "lateral":
                    n = dm["I"]
                    for j in range(n):
                        d[j * n + j] = 0.0
            continue
        if k == "selector":
            # the selector is the delay parameter broadcast over the batch in the layout of the delayed views
            exp_shape = view_shape(case, dm)
            ok = v[0] == "f" and v[1] == exp_shape
            if ok:
                dd = d if case["delay"] is not None else [0.0] * dm["nw"]
                for _, _, tl in T:
                    for wi, e, vi in tl:
                        if v[2][vi] != dd[wi]:
                            ok = False
            if not ok:
                fails.append({"step": i, "detail": {"selector": v[:2], "expected_shape": exp_shape}, "signature": dict(sig, kind="selector")})
            continue
        if k == "step":
            last = res["bank"][i]
            if v[0] != "f" or v[1] != dm["outshape"]:
                fails.append({"step": i, "detail": {"output_kind_shape": v[:2], "expected_shape": dm["outshape"]},
                              "signature": dict(sig, kind="forward_shape")})
                continue
            # (a) out = bias + sum over synapses of W * (undelayed current, shifted by the synapse's delay)
            allgrid = True
            for oi, bi, tl in T:
                acc = [bias[bi]] if bias is not None else []
                unknown = False
                for wi, e, vi in tl:
                    if not delayed:
                        ev = past(last, 0, "cur", e)
                    else:
                        ev = expect(case, last, "cur", e, d[wi], dk[wi])
                        if classify(case, d[wi], dk[wi]) != ("grid", dk[wi]):
                            allgrid = False
                    if ev is None:
                        unknown = True
                        break
                    acc.append(W[wi] * ev)
                if unknown:
                    continue
                exp = math.fsum(acc)
                if not F.close(v[2][oi], exp, rel=1e-9, ab=1e-11):
                    fails.append({"step": i, "detail": {"output_index": oi, "expected": exp, "got": v[2][oi],
                                                         "delays": d, "weights": W},
                                  "signature": dict(sig, kind="forward_shift")})
                    break
            # (b) pure real-code decomposition: delayed output = bias + sum_k (undelayed copy with the weights of the
            #     synapses delayed by k steps, fed the input history shifted by k steps)
            if (not delayed) or allgrid:
                for oi, bi, tl in T:
                    exp = math.fsum([last[kk]["out"][oi] for kk in last] + ([bias[bi]] if bias is not None else []))
                    if not F.close(v[2][oi], exp, rel=1e-9, ab=1e-11):
                        fails.append({"step": i, "detail": {"output_index": oi, "expected_sum_of_undelayed_outputs": exp,
                                                             "got": v[2][oi], "delays": d},
                                      "signature": dict(sig, kind="decomposition")})
                        break
            continue
        # the learning views
        what = "cur" if k == "syncur" else "spk"
        want = "f" if what == "cur" else "b"
        if not delayed:
            if v[0] != want or v[1] != dm["synshape"]:
                fails.append({"step": i, "detail": {"view": k, "got": v[:2], "expected_shape": dm["synshape"]},
                              "signature": dict(sig, kind="view_shape")})
                continue
            for e in range(nsyn):
                ev = past(last, 0, what, e)
                if (v[2][e] != ev) if what == "spk" else (not F.close(v[2][e], ev)):
                    fails.append({"step": i, "detail": {"view": k, "element": e, "expected": ev, "got": v[2][e]},
                                  "signature": dict(sig, kind="views")})
                    break
            continue
        if v[0] != want or v[1] != view_shape(case, dm):
            fails.append({"step": i, "detail": {"view": k, "got": v[:2], "expected_shape": view_shape(case, dm)},
                          "signature": dict(sig, kind="view_shape")})
            continue
        bad = False
        for _, _, tl in T:
            for wi, e, vi in tl:
                ev = expect(case, last, what, e, d[wi], dk[wi])
                if ev is None:
                    continue
                got = v[2][vi]
                if (got != ev) if what == "spk" else (not F.close(got, ev)):
                    fails.append({"step": i, "detail": {"view": k, "view_index": vi, "synapse_element": e, "delay": d[wi],
                                                         "expected": ev, "got": got},
                                  "signature": dict(sig, kind="views")})
                    bad = True
                    break
            if bad:
                break
    return fails


# ------------------------------------------------------------------ run
def is_nontrivial(case):
    steps = sum(1 for o in case["ops"] if o[0] == "step")
    return steps >= 3 and bool(case["delay"]) and len(set(case["d"])) >= 2


def judge(case, mtree, res):
    mism, ofail = [], []
    if "crash" in res:
        return [{"case": case, "detail": {"implementation_crashed": res["crash"]}}], []
    for f in oracle_case(case, res)[:2]:          # at most two failing observations per case go into the evidence
        ofail.append({"case": case, "detail": {k: v for k, v in f.items() if k != "signature"}, "signature": f["signature"]})
    if isinstance(mtree, Exception):
        mism.append({"case": case, "detail": str(mtree)})
        return mism, ofail
    for i, dd in compare(case, mtree, res):
        mism.append({"case": case, "detail": {"op_index": i, "op": (case["ops"][i][:1] if i >= 0 else None), "diff": dd}})
        break
    return mism, ofail


def load_corpus():
    out = []
    for p in sorted(glob.glob(os.path.join(F.VERIF, "corpus", ID, "*.json"))):
        out.append(json.load(open(p)))
    return out


def run(ctx):
    rng = random.Random(ctx["seed"])
    quick = ctx["tier"] == "quick"
    n = 220 if quick else 3000
    corpus = load_corpus()
    cases = corpus + gen_cases(rng, n)
    impl = F.run_impl(IMPL, {"cases": cases})
    model = F.eval_terms(ID, HEADER, [q_case(c) for c in cases], shard=8 if quick else 40)
    mismatches, oracle_fail = [], []
    n_ok = 0
    for c, res, mt in zip(cases, impl, model):
        m, o = judge(c, mt, res)
        mismatches += m
        oracle_fail += o
        n_ok += 0 if m else 1
    extra = {}
    if not quick:
        sw = sweep_cases(rng, 40)
        swres = F.run_impl(IMPL, {"cases": sw})
        nbad = 0
        for c, res in zip(sw, swres):
            ff = [] if "crash" in res else oracle_case(c, res)
            if "crash" in res or ff:
                nbad += 1
                oracle_fail.append({"case": c, "detail": ff[0] if ff else res, "signature": {"kind": "float_grid_sweep"}})
        extra["float_grid_sweep_dt_1.3"] = {"cases": len(sw), "failed": nbad,
                                            "note": "TEST (not proof): on-grid delays k*1.3, k up to 50, interp_tol = 0, oracle only"}
    delayed = [c for c in cases if c["delay"]]
    res = {
        "evaluations": len(cases),
        "distinct_nontrivial": len({repr(c) for c in cases if is_nontrivial(c)}),
        "rule": "seeded random cases: connection class (dense, direct, lateral, conv) x synapse class (4) x dt in {1, 0.5, 1.3} x "
                "maximum delay in {none, 0, 1, 2, 3} steps x batch 1-3 x small shapes / conv geometries x bias x interp_tol x "
                "overbound value/None x interpolation mode x inplace; per-synapse delay tensors heterogeneous on the grid (55%), "
                "homogeneous, all zero, with entries between grid points / within tolerance, with entries beyond the range; "
                "3-8 forward steps (binary or real-valued inputs, injected currents for DeltaPlus) interleaved with syncurrent / "
                "synspike / selector reads, clears, delay re-assignments, state_dict checkpoint + load into a twin connection "
                "(fresh, or already run on other data) on which the run continues, and dt / maximum-delay / batch-size setters "
                "in the middle of the run (model: new segment for dt / maximum delay; batch-size changes are oracle-only); "
                "every 9th case from a malformed stream (wrong input "
                "shape); non-trivial = >= 3 steps, positive maximum delay, >= 2 distinct delays; distinct by full case text",
        "op_distribution": dict(Counter(o[0] for c in cases for o in c["ops"])),
        "connection_distribution": dict(Counter(c["conn"] for c in cases)),
        "synapse_distribution": dict(Counter(CLSN[c["syn"]["cls"]] for c in cases)),
        "dt_distribution": dict(Counter(str(c["dt"]) for c in cases)),
        "max_delay_steps_distribution": dict(Counter(str(c["ksteps"]) for c in cases)),
        "delayed_branch_cases": len(delayed),
        "cases_with_offgrid_or_beyond_delays": sum(1 for c in delayed if any(k is None for k in c["dk"])),
        "samples": cases[len(corpus):len(corpus) + 2],
        "mismatches": mismatches, "oracle_failures": oracle_fail,
        "traces_validated_against_impl": n_ok,
    }
    res.update(extra)
    return res


def _fails(c):
    res = F.run_impl(IMPL, {"cases": [c]})[0]
    if "crash" in res:
        return [{"step": None, "detail": {"crash": res["crash"]}, "signature": {"kind": "crash"}}]
    return oracle_case(c, res)


def minimise(case, rounds=10):
    """cut the operations after the first failing one, then drop view / selector reads that are not needed"""
    f0 = _fails(case)
    if not f0:
        return case, None
    kind = f0[0]["signature"].get("kind")
    st = f0[0].get("step")
    ops = case["ops"][: (st + 1)] if st is not None else case["ops"]
    for _ in range(rounds):
        changed = False
        for a in range(len(ops) - 1):
            if ops[a][0] in ("step", "setdelay", "clear", "restore", "setdt", "setmaxdelay", "setbatch"):
                continue
            cand = dict(case, ops=ops[:a] + ops[a + 1:])
            ff = _fails(cand)
            if ff and ff[0]["signature"].get("kind") == kind:
                ops = cand["ops"]
                changed = True
                break
        if not changed:
            break
    c = dict(case, ops=ops)
    ff = _fails(c)
    return c, (ff[0] if ff else None)


def replay(case):
    ff = _fails(case)
    if not ff:
        return True, "replay: the implementation satisfies the property on this case"
    return False, "replay: still failing: " + repr(ff[0])[:1500]
