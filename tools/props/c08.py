"""C08 - STDP-family weight changes equal the documented sums over spike pairs: case generator, Coq rendering,
correspondence (model in Coq vs the real trainers) and the direct oracle (literal sums over spike pairs)."""
from __future__ import annotations
import itertools, json, math, os, random
from collections import Counter
import framework as F

ID = "C08"
GEN = ["Trace", "Infra", "Interpolation"]
LEVEL = "proof"
TECHNIQUE = ("Coq proof: induction over the spike history of a per-synapse model of the trainers built on the translated "
             "trace kernels (geometric-trace lemma, pair-sum identities), tied to the code by translation of the kernels and "
             "by differential correspondence with the real trainers on real layers; literal double sum over spike pairs as "
             "direct oracle")
LEVEL_TEXT = ("Machine-checked proof (Coq, real-number instance) that, for EVERY pre/post spike history, delay on the step grid "
              "(both trainer modes, which are proved to agree), sign mode and trace mode, the total weight change of the "
              "per-synapse model of STDP / StableSTDP equals the documented sum over spike pairs (all earlier-or-simultaneous "
              "partners in cumulative mode, the most recent partner in nearest mode, presynaptic times shifted by the delay); "
              "MSTDP scales each step's pair contribution by that step's signal and |scale| (scalar signals, and per-sample "
              "signals with the sum reduction); MSTDPET applies the signal to the contribution stream filtered by "
              "z' = z*exp(-dt/tau_z) + c/tau_z (closed geometric form also proved); TripletSTDP / StableTripletSTDP multiply "
              "each pair term by (alpha + sgn(alpha)|beta| * slow trace of the triggering population one step earlier); the "
              "Stable variants equal the plain ones; with the sum (mean) batch reduction the weight change of a batch is the "
              "sum (mean) over its samples of the single-sample weight changes. Everything rests on a geometric-trace theorem "
              "about the GENERATED kernels trace_cumulative / trace_nearest / trace_cumulative_value, so an edit of those "
              "formulas re-checks the theorems; the hand-written wiring/forward model is tied to the real trainers (real "
              "Serial layers: dense, direct, lateral and convolutional connections, real DeltaCurrent synapse, scripted post "
              "neuron) by running both on the same histories, exhaustively for short 1x1 histories.")
LEVEL_NOTE = ("Trusted: Coq kernel + stdlib real axioms (incl. classic through Req_dec); translator for the trace kernels; "
              "hand-written model C08/Stdp.v (monitor wiring, read positions, routing, signal split, accumulator) validated by "
              "correspondence only; RecordTensor ring semantics (C01), time-indexed select (C02), synapse delayed reads "
              "(C04/C06), unfolding of convolution inputs (C05) are taken at their proved/validated meaning (history list, value "
              "k steps back, fill 0; the unfolded presynaptic trains are read from the implementation). Not proved: "
              "floating-point rounding; delays BETWEEN two steps are modelled (observation read = ceiling, reducers "
              "interpolate with the generated interp_expdecay) and compared with the implementation, but no theorem and no "
              "oracle covers them: there the delayed and the delay-frozen trainer modes genuinely differ (continuous vs "
              "rounded-up arrival) and the property does not say which is meant; amax batch reduction and "
              "per-sample signals with a non-sum reduction are covered by correspondence only (no per-sample statement exists "
              "for them); theorems are per synapse, the sum over the positions sharing a convolution weight is done by the "
              "harness.")
HEADER = ("From Coq Require Import List ZArith Bool Floats.\nFrom Inferno Require Import Base.Num Base.NumF C08.Stdp C08.StdpExec.\n"
          "Import ListNotations.\nOpen Scope float_scope.\n")
IMPL = os.path.join(F.VERIF, "tools", "impl", "c08_impl.py")

TRAINERS = ["STDP", "StableSTDP", "TripletSTDP", "StableTripletSTDP", "MSTDP", "MSTDPET"]
TWO_FACTOR = ("STDP", "StableSTDP", "TripletSTDP", "StableTripletSTDP")
TRIPLET = ("TripletSTDP", "StableTripletSTDP")
SIGNS = [(1, -1), (-1, 1), (1, 1), (-1, -1)]          # hebbian, anti-hebbian, potentiative, depressive
MODES = ["cumulative", "nearest"]


def eff_reduction(case):
    r = case.get("reduction")
    if r is not None:
        return r
    return "mean" if case["trainer"] in TWO_FACTOR else "sum"


def default_hp(sp=1, sq=-1, rng=None):
    r = rng or random.Random(0)
    return {"lr_post": sp * r.choice([0.7, 1.1, 0.35]), "lr_pre": sq * r.choice([0.45, 0.9, 0.3]),
            "tc_post": r.choice([15.3, 9.7, 22.1]), "tc_pre": r.choice([20.9, 11.3, 17.7]),
            "lr_post_triplet": r.choice([0.55, -0.25, 0.15]), "lr_pre_triplet": r.choice([0.2, -0.65, 0.4]),
            "tc_post_slow": r.choice([41.3, 33.1]), "tc_pre_slow": r.choice([37.9, 52.7]),
            "tc_elig": r.choice([25.7, 8.3, 13.9])}


# ------------------------------------------------------------------ which synapses a connection has
def resolve_delay(d_steps, dt, tol=0.0):
    """delay given in steps (possibly fractional) -> (k, sample_at | None), computed with the float operations of
    RecordTensor.select: the observation read is k steps back; off the grid the reducers interpolate at sample_at"""
    time = float(d_steps) * dt
    shift = time / dt
    shiftr = float(round(shift))          # round half to even, like torch.round
    if abs(dt * shiftr - time) <= tol:
        return int(shiftr), None
    return int(math.ceil(shift)), dt - dt * (shift % 1)


def kd(case, d_steps):
    # the trainer's interp_tolerance only matters where the trainer itself selects at the delay (delayed mode); the
    # synapse's own selection (delay-frozen mode, MSTDPET) uses the synapse's tolerance (0)
    tol = float(case.get("tol", 0.0)) if (case["delayed"] and case["trainer"] != "MSTDPET") else 0.0
    k, off = resolve_delay(d_steps, case["dt"], tol)
    return {"k": k, "off": off}


def effective_cases(g):
    """a group case (one trainer object, several cells registered with keyword overrides) -> per cell the single-cell
    case with the hyperparameters IN EFFECT for that cell (override if given, else the trainer's default)"""
    d = g["defaults"]
    out = []
    for cc in g["cells"]:
        ov = cc.get("override", {})
        e = {k: v for k, v in cc.items() if k != "override"}
        e["trainer"] = g["trainer"]
        e["hp"] = dict(d["hp"], **ov.get("hp", {}))
        for key in ("mode", "delayed", "reduction", "tol"):
            e[key] = ov[key] if key in ov else d.get(key, 0.0 if key == "tol" else None)
        e["signal"], e["scale"] = g.get("signal"), g.get("scale", 1.0)
        out.append(e)
    return out


def delay_schedule(case):
    """per step the delay matrix (steps) in force: the initial delays, re-assigned by the delay events"""
    cur, out = case.get("delays"), []
    evs = case.get("events") or []
    for t in range(len(case["pre"])):
        for ev in evs:
            if ev["at"] == t and ev["op"] in ("delay_set", "delay_upd"):
                cur = ev["delays"]
        out.append(cur)
    return out


def biclique_connections(g):
    """a Biclique case -> per connection the single-layer case judged: the connection's data plus, for every neuron
    group, the hyperparameters in effect for that cell and that group's post train"""
    d = g["defaults"]
    out = []
    for i, cs in enumerate(g["conns"]):
        cells = []
        for cc in g["cells"]:
            if cc["bic"][0] != i:
                continue
            ov = cc.get("override", {})
            e = {"trainer": g["trainer"], "dt": g["dt"], "B": g["B"], "conn": "dense", "n_in": cs["n_in"], "n_out": g["n_out"],
                 "kmax": cs.get("kmax"), "delays": cs.get("delays"), "pre": cs["pre"], "post": g["posts"][cc["bic"][1]],
                 "hp": dict(d["hp"], **ov.get("hp", {})), "signal": g.get("signal"), "scale": g.get("scale", 1.0),
                 "neuron": cc["bic"][1], "override": ov}
            for key in ("mode", "delayed", "reduction", "tol"):
                e[key] = ov[key] if key in ov else d.get(key, 0.0 if key == "tol" else None)
            cells.append(e)
        c0 = dict(cells[0])
        c0.update(connection=i, cells_in_effect=cells)
        out.append(c0)
    return out


def column(arr, j):
    """[T][B][n] -> [T][B] for element j"""
    return [[sb[j] for sb in st] for st in arr]


def entries(case, impl=None):
    """the weight entries that are judged: [{label, idx (flat index into the weight / parts), k (delay steps),
    pairs: [(pre [T][B], post [T][B]) ...]}] - one (pre, post) pair per synapse sharing the weight (one for the linear
    connections, one per output position for a convolution kernel element)"""
    n_in, n_out, d = case.get("n_in"), case.get("n_out"), case.get("delays")
    out = []
    if case.get("cells_in_effect") is not None:
        # one connection of a Biclique layer: every cell on it (one per neuron group) writes into the same weight
        for o in range(n_out):
            for i in range(n_in):
                subs = [(e, {**kd(e, d[o][i] if d is not None else 0),
                             "pairs": [(column(case["pre"], i), column(e["post"], o))]}) for e in case["cells_in_effect"]]
                out.append({"label": [o, i], "idx": o * n_in + i, "k": subs[0][1]["k"], "subs": subs})
    elif case["conn"] == "dense":
        sched = delay_schedule(case)
        for o in range(n_out):
            for i in range(n_in):
                e = {"label": [o, i], "idx": o * n_in + i, **kd(case, d[o][i] if d is not None else 0),
                     "pairs": [(column(case["pre"], i), column(case["post"], o))]}
                if case.get("events") is not None:
                    e["ks"] = [int(m[o][i]) if m is not None else 0 for m in sched]
                out.append(e)
    elif case["conn"] == "direct":
        for i in range(n_in):
            out.append({"label": [i, i], "idx": i, **kd(case, d[i] if d is not None else 0),
                        "pairs": [(column(case["pre"], i), column(case["post"], i))]})
    elif case["conn"] == "lateral":
        # the diagonal of a lateral connection is masked (no synapse from a neuron onto itself): not judged
        for o in range(n_out):
            for i in range(n_in):
                if o != i:
                    out.append({"label": [o, i], "idx": o * n_in + i, **kd(case, d[o][i] if d is not None else 0),
                                "pairs": [(column(case["pre"], i), column(case["post"], o))]})
    elif case["conn"] == "conv":
        # the synapse of a convolutional connection receives the unfolded input (N = C*kH*kW rows, L output positions):
        # kernel element (f, n) is shared by the L synapses (n, l) -> (f, l).  The unfolded presynaptic trains are the
        # ones the implementation's synapse observed (impl["synpre"]); unfolding itself is C05's subject.
        if impl is None or not impl.get("ok"):
            return []
        sp = impl["synpre"]                       # [T][B][N][L]
        N, L = len(sp[0][0]), len(sp[0][0][0])
        Fn = case["conv"]["filters"]
        for f in range(Fn):
            for n in range(N):
                pairs = []
                for l in range(L):
                    pre = [[sb[n][l] for sb in st] for st in sp]
                    post = column(case["post"], f * L + l)
                    pairs.append((pre, post))
                out.append({"label": [f, n], "idx": f * N + n, **kd(case, d[f][n] if d is not None else 0), "pairs": pairs})
    return out


# ------------------------------------------------------------------ generators
def mk_signal(rng, case, T, B):
    if case["trainer"] not in ("MSTDP", "MSTDPET"):
        return None
    vals = [1.0, -2.0, 0.5, 0.0, -0.75, 1.3, -0.4, 2.25]
    if rng.random() < 0.5:
        return [rng.choice(vals) for _ in range(T)]
    return [[rng.choice(vals) for _ in range(B)] for _ in range(T)]


DYADIC = [1.0, -2.0, 0.5, 0.0, -0.75, 2.25]
INTS = [1.0, -2.0, 0.0, 3.0, -1.0]


def is_dyadic(x):
    return float(x) * 64 == int(float(x) * 64)


def mk_forms(rng, case):
    """how a scalar reward is handed to the trainer at each step: a python float, or a 0-d tensor (float64 / float32 /
    int64) that must behave exactly like the same float (positive, negative and zero values are drawn).  The values
    are adjusted to the form: integers for int64; dyadic values (and a dyadic scale) for float32, so that the product
    signal * scale the trainer forms in the tensor's precision is exact.  Per-sample rewards (lists; with batch size 1 a
    1-element 1-d tensor) are left alone."""
    sig = case.get("signal")
    if sig is None or isinstance(sig[0], list):
        case["signal_forms"] = None
        return
    forms = []
    for t in range(len(sig)):
        f = rng.choice([None, None, "t0_f64", "t0_f32", "t0_i64"])
        if f == "t0_f32" and not is_dyadic(case.get("scale", 1.0)):
            f = "t0_f64"
        if f == "t0_i64":
            sig[t] = rng.choice(INTS)
        elif f == "t0_f32":
            sig[t] = rng.choice(DYADIC)
        forms.append(f)
    case["signal_forms"] = forms


def gen_random(rng: random.Random):
    tr = rng.choice(TRAINERS)
    sp, sq = rng.choice(SIGNS)
    conn = rng.choice(["dense", "dense", "dense", "direct", "lateral"])
    n_in = rng.randint(1, 3)
    n_out = n_in if conn != "dense" else rng.randint(1, 3)
    if conn == "lateral":
        n_in = n_out = rng.randint(2, 3)
    B = rng.randint(1, 3)
    T = rng.randint(1, 9)
    kmax = rng.choice([None, None, 0, 1, 2, 3])
    dt = rng.choice([1.0, 0.5, 1.3])
    case = {"trainer": tr, "mode": rng.choice(MODES), "hp": default_hp(sp, sq, rng), "dt": dt, "conn": conn,
            "n_in": n_in, "n_out": n_out, "B": B, "kmax": kmax, "delays": None,
            "delayed": bool(kmax is not None and rng.random() < 0.5) or (rng.random() < 0.1),
            "reduction": rng.choice([None, "sum", "mean", "amax"])}
    if tr in ("StableSTDP", "StableTripletSTDP") and rng.random() < 0.1 and tr == "StableSTDP":
        case["hp"]["lr_pre"] = 0.0          # allowed by the stable variants only (trace amplitude is 1)
    if kmax is not None:
        offgrid = kmax >= 1 and rng.random() < 0.3       # delays between two steps: interpolated reads

        def dly():
            if offgrid and rng.random() < 0.7:
                return rng.randint(1, kmax) - rng.choice([0.5, 0.25, 0.75])
            return rng.randint(0, kmax)
        if conn == "direct":
            case["delays"] = [dly() for _ in range(n_in)]
        else:
            case["delays"] = [[dly() for _ in range(n_in)] for _ in range(n_out)]
    p = rng.choice([0.2, 0.5, 0.8])
    case["pre"] = [[[int(rng.random() < p) for _ in range(n_in)] for _ in range(B)] for _ in range(T)]
    case["post"] = [[[int(rng.random() < p) for _ in range(n_out)] for _ in range(B)] for _ in range(T)]
    case["signal"] = mk_signal(rng, case, T, B)
    case["scale"] = rng.choice([1.0, 1.0, 0.5, -2.0, 1.7]) if case["signal"] is not None else 1.0
    mk_forms(rng, case)
    if case["signal"] is not None and isinstance(case["signal"][0], list) and rng.random() < 0.7:
        case["reduction"] = rng.choice([None, "sum"])
    return case


def gen_malformed(rng: random.Random):
    """configurations the constructors must refuse (ValueError): zero trace amplitude, non-positive time constant,
    slow <= fast triplet time constants, zero pair rate of a triplet trainer"""
    c = gen_random(rng)
    while c["conn"] != "dense":
        c = gen_random(rng)
    hp, tr = c["hp"], c["trainer"]
    kind = rng.choice(["lr0", "tc0", "tcneg", "slow", "beta0"])
    if kind == "lr0":
        hp[rng.choice(["lr_post", "lr_pre"])] = 0.0          # accepted only by StableSTDP (unit trace amplitude)
    elif kind == "tc0":
        hp[rng.choice(["tc_post", "tc_pre"])] = 0.0
    elif kind == "tcneg":
        hp[rng.choice(["tc_post", "tc_pre", "tc_elig"])] = -1.0
    elif kind == "slow":
        hp["tc_post_slow"] = hp["tc_post"] if rng.random() < 0.5 else hp["tc_post"] / 2
    else:
        hp[rng.choice(["lr_post_triplet", "lr_pre_triplet"])] = 0.0   # refused by TripletSTDP only (|beta/alpha| amplitude)
    c["malformed"] = kind
    return c


def gen_offgrid(rng: random.Random):
    """delay-aware trainers on small dense cells whose delays lie between two steps (interpolated views), mostly in the
    `delayed` mode; compared with the model only (the oracle does not judge delays off the grid)"""
    tr = rng.choice(["STDP", "StableSTDP", "TripletSTDP", "TripletSTDP", "StableTripletSTDP", "MSTDP"])
    sp, sq = rng.choice(SIGNS)
    n_in, n_out, B, T = rng.randint(1, 2), rng.randint(1, 2), rng.randint(1, 2), rng.randint(3, 8)
    kmax = rng.randint(1, 3)
    case = {"trainer": tr, "mode": rng.choice(MODES), "hp": default_hp(sp, sq, rng), "dt": rng.choice([1.0, 0.5, 1.3]),
            "conn": "dense", "n_in": n_in, "n_out": n_out, "B": B, "kmax": kmax,
            "delays": [[rng.randint(1, kmax) - rng.choice([0.5, 0.25, 0.75, 0.125]) for _ in range(n_in)] for _ in range(n_out)],
            "delayed": rng.random() < 0.8, "reduction": rng.choice([None, "sum", "mean"])}
    p = rng.choice([0.4, 0.7])
    case["pre"] = [[[int(rng.random() < p) for _ in range(n_in)] for _ in range(B)] for _ in range(T)]
    case["post"] = [[[int(rng.random() < p) for _ in range(n_out)] for _ in range(B)] for _ in range(T)]
    case["signal"] = mk_signal(rng, case, T, B)
    case["scale"] = 1.0
    mk_forms(rng, case)
    if case["signal"] is not None and isinstance(case["signal"][0], list):
        case["reduction"] = rng.choice([None, "sum"])
    return case


def gen_tolerance(rng: random.Random):
    """the `delayed` trainer mode with an interp_tolerance > 0 on long delays and step times that are not representable:
    delays a hair off the grid (k * dt + 5e-5 ms: co-occurring under a tolerance of 1e-4 ms, not under the reducers'
    built-in 1e-7), a quarter / half step off (co-occurring under 0.3 dt / 0.6 dt) or exactly on it; dense spike trains so
    that post spikes coincide with the delayed presynaptic arrivals.  Every read of the trainer (trace AND spike views,
    slow triplet traces) must use the cell's tolerance."""
    tr = rng.choice(["STDP", "StableSTDP", "TripletSTDP", "StableTripletSTDP", "MSTDP", "MSTDP"])
    sp, sq = rng.choice(SIGNS)
    dt = rng.choice([1.3, 0.45, 0.9, 1.05])
    n_in, n_out, B = rng.randint(1, 2), rng.randint(1, 2), rng.randint(1, 2)
    kmax = rng.randint(4, 7)
    tol = rng.choice([1e-4, 1e-4, 0.3 * dt, 0.6 * dt])

    def dly():
        k = rng.randint(max(1, kmax - 3), kmax - 1)
        kind = rng.choice(["hair", "hair", "exact", "quarter", "half"])
        if kind == "hair":
            return k + 5e-5 / dt
        if kind == "quarter" and tol >= 0.3 * dt:
            return k + rng.choice([-0.25, 0.25])
        if kind == "half" and tol >= 0.6 * dt:
            return k + 0.5
        return k
    T = kmax + rng.randint(2, 5)
    case = {"trainer": tr, "mode": rng.choice(MODES), "hp": default_hp(sp, sq, rng), "dt": dt, "conn": "dense",
            "n_in": n_in, "n_out": n_out, "B": B, "kmax": kmax, "delays": [[dly() for _ in range(n_in)] for _ in range(n_out)],
            "delayed": True, "tol": tol, "reduction": rng.choice([None, "sum", "mean"])}
    p = rng.choice([0.6, 0.8])
    case["pre"] = [[[int(rng.random() < p) for _ in range(n_in)] for _ in range(B)] for _ in range(T)]
    case["post"] = [[[int(rng.random() < p) for _ in range(n_out)] for _ in range(B)] for _ in range(T)]
    case["signal"] = mk_signal(rng, case, T, B)
    case["scale"] = 1.0
    mk_forms(rng, case)
    if case["signal"] is not None and isinstance(case["signal"][0], list):
        case["reduction"] = rng.choice([None, "sum"])
    return case


def gen_group(rng: random.Random):
    """ONE trainer object driving 2-3 cells (own layers): the first registered without overrides, the others with
    keyword overrides of a random subset of everything register_cell accepts - learning rates (mostly with sign flips
    against the trainer's defaults), time constants, delayed, trace_mode, batch_reduction, interp_tolerance, inplace"""
    tr = rng.choice(TRAINERS)
    sp, sq = rng.choice(SIGNS)
    dt = rng.choice([1.0, 0.5, 1.3])
    B, T = rng.randint(1, 2), rng.randint(2, 6)
    defaults = {"hp": default_hp(sp, sq, rng), "mode": rng.choice(MODES), "delayed": rng.random() < 0.5,
                "reduction": rng.choice([None, "sum", "mean"]), "tol": 0.0}
    g = {"kind": "group", "trainer": tr, "defaults": defaults, "cells": [], "signal": None, "scale": 1.0}
    ncell = rng.randint(2, 3)
    for j in range(ncell):
        n_in, n_out = rng.randint(1, 2), rng.randint(1, 2)
        kmax = rng.choice([None, 1, 2])
        cc = {"dt": dt, "conn": "dense", "n_in": n_in, "n_out": n_out, "B": B, "kmax": kmax, "delays": None}
        if kmax is not None:
            offg = rng.random() < 0.25
            cc["delays"] = [[(rng.randint(1, kmax) - rng.choice([0.25, 0.5])) if (offg and rng.random() < 0.6)
                             else rng.randint(0, kmax) for _ in range(n_in)] for _ in range(n_out)]
        p = rng.choice([0.4, 0.7])
        cc["pre"] = [[[int(rng.random() < p) for _ in range(n_in)] for _ in range(B)] for _ in range(T)]
        cc["post"] = [[[int(rng.random() < p) for _ in range(n_out)] for _ in range(B)] for _ in range(T)]
        ov = {}
        if j > 0:
            hp = {}
            if rng.random() < 0.8:      # rates, mostly with another sign mode than the trainer's defaults
                osp, osq = rng.choice([m for m in SIGNS if m != (sp, sq)]) if rng.random() < 0.8 else (sp, sq)
                hp["lr_post"] = osp * rng.choice([0.6, 0.25, 1.2])
                hp["lr_pre"] = osq * rng.choice([0.5, 0.15, 0.8])
            if rng.random() < 0.5:
                hp["tc_post"] = rng.choice([7.3, 12.9])
                hp["tc_pre"] = rng.choice([8.1, 14.3])
            if rng.random() < 0.4:
                hp["lr_post_triplet"] = rng.choice([0.3, -0.45])
                hp["lr_pre_triplet"] = rng.choice([0.35, -0.1])
            if rng.random() < 0.4:
                hp["tc_post_slow"] = rng.choice([44.7, 61.3])
                hp["tc_pre_slow"] = rng.choice([58.9, 70.1])
            if rng.random() < 0.4:
                hp["tc_elig"] = rng.choice([5.9, 17.3])
            if hp:
                ov["hp"] = hp
            if rng.random() < 0.5:
                ov["mode"] = [m for m in MODES if m != defaults["mode"]][0]
            if rng.random() < 0.5:
                ov["delayed"] = not defaults["delayed"]
            if rng.random() < 0.5:
                ov["reduction"] = rng.choice(["sum", "mean", "amax"])
            if rng.random() < 0.3:
                ov["tol"] = rng.choice([0.3, 0.6]) * dt
            if rng.random() < 0.3:
                ov["inplace"] = True
        cc["override"] = ov
        g["cells"].append(cc)
    fake = {"trainer": tr}
    g["signal"] = mk_signal(rng, fake, T, B)
    if g["signal"] is not None:
        g["scale"] = rng.choice([1.0, 0.5, -2.0])
        mk_forms(rng, g)
        if isinstance(g["signal"][0], list):
            # per-sample signals: only the sum reduction is a per-sample statement
            defaults["reduction"] = rng.choice([None, "sum"])
            for cc in g["cells"]:
                if "reduction" in cc["override"]:
                    cc["override"]["reduction"] = "sum"
    return g


OVERRIDE_KEYS = {
    "STDP": ["lr_post", "lr_pre", "tc_post", "tc_pre", "delayed", "tol", "mode", "reduction"],
    "StableSTDP": ["lr_post", "lr_pre", "tc_post", "tc_pre", "delayed", "tol", "mode", "reduction"],
    "MSTDP": ["lr_post", "lr_pre", "tc_post", "tc_pre", "delayed", "tol", "mode", "reduction"],
    "MSTDPET": ["lr_post", "lr_pre", "tc_post", "tc_pre", "tc_elig", "tol", "mode", "reduction"],
    "TripletSTDP": ["lr_post", "lr_pre", "lr_post_triplet", "lr_pre_triplet", "tc_post", "tc_pre", "tc_post_slow",
                    "tc_pre_slow", "delayed", "tol", "mode", "reduction", "inplace"],
    "StableTripletSTDP": ["lr_post", "lr_pre", "lr_post_triplet", "lr_pre_triplet", "tc_post", "tc_pre", "tc_post_slow",
                          "tc_pre_slow", "delayed", "tol", "mode", "reduction", "inplace"],
}


def change_key(rng, ov, key, defaults, dt):
    """override `key` with a value different from the one in effect (ov = override dict being built on `defaults`)"""
    cur = dict(defaults["hp"], **ov.get("hp", {}))
    hp = ov.setdefault("hp", {})
    if key in ("lr_post", "lr_pre"):
        hp[key] = -cur[key] if rng.random() < 0.6 else cur[key] * rng.choice([0.5, 1.7])
    elif key in ("lr_post_triplet", "lr_pre_triplet"):
        hp[key] = cur[key] * rng.choice([0.5, 2.0, -1.5])
    elif key in ("tc_post", "tc_pre"):
        hp[key] = cur[key] * rng.choice([0.6, 0.8])
    elif key in ("tc_post_slow", "tc_pre_slow"):
        hp[key] = cur[key] * rng.choice([1.3, 1.9])
    elif key == "tc_elig":
        hp[key] = cur[key] * rng.choice([0.5, 1.6])
    elif key == "delayed":
        ov["delayed"] = not ov.get("delayed", defaults["delayed"])
    elif key == "mode":
        ov["mode"] = [m for m in MODES if m != ov.get("mode", defaults["mode"])][0]
    elif key == "reduction":
        cur_r = ov.get("reduction", defaults["reduction"])
        ov["reduction"] = rng.choice([r for r in ("sum", "mean", "amax") if r != cur_r])
    elif key == "tol":
        ov["tol"] = rng.choice([0.3, 0.6]) * dt if not ov.get("tol", defaults.get("tol", 0.0)) else 0.0
    elif key == "inplace":
        ov["inplace"] = not ov.get("inplace", False)
    if not hp:
        ov.pop("hp")


def gen_biclique(rng: random.Random, q: int):
    """ONE trainer object on ONE Biclique layer (2 dense connections x 2 neuron groups), all four cells registered.  Cells
    (0,j) and (1,j) share neuron group j and differ in exactly ONE hyperparameter k1; cells (i,0) and (i,1) share
    connection i - its synapse AND its accumulator - and differ in exactly one hyperparameter k2; k1, k2 rotate with q over
    every register_cell keyword, so that every monitor of such a pair is poolable except the ones the differing
    hyperparameter enters."""
    import copy
    tr = TRAINERS[q % len(TRAINERS)]
    sp, sq = rng.choice(SIGNS)
    dt = rng.choice([1.0, 0.5, 1.3])
    B, T, n_out = rng.randint(1, 2), rng.randint(3, 6), rng.randint(1, 2)
    defaults = {"hp": default_hp(sp, sq, rng), "mode": rng.choice(MODES), "delayed": rng.random() < 0.5,
                "reduction": rng.choice(["sum", "mean"]), "tol": 0.0}
    sig = mk_signal(rng, {"trainer": tr}, T, B)
    persample = sig is not None and isinstance(sig[0], list)
    if persample:
        defaults["reduction"] = "sum"
    keys = [k for k in OVERRIDE_KEYS[tr] if not (persample and k == "reduction")]
    r = q // len(TRAINERS)
    k1, k2 = keys[r % len(keys)], keys[(r + 3) % len(keys)]
    p = rng.choice([0.4, 0.7])
    conns = []
    for i in range(2):
        n_in = rng.randint(1, 2)
        kmax = rng.choice([None, 1, 2])
        offg = kmax is not None and rng.random() < 0.3
        conns.append({"n_in": n_in, "kmax": kmax,
                      "delays": None if kmax is None else [[(rng.randint(1, kmax) - rng.choice([0.25, 0.5])) if (offg and rng.random() < 0.5)
                                                            else rng.randint(0, kmax) for _ in range(n_in)] for _ in range(n_out)],
                      "pre": [[[int(rng.random() < p) for _ in range(n_in)] for _ in range(B)] for _ in range(T)]})
    posts = [[[[int(rng.random() < p) for _ in range(n_out)] for _ in range(B)] for _ in range(T)] for _ in range(2)]
    base = {}
    for k in keys:
        if k not in (k1, k2) and rng.random() < 0.25:
            change_key(rng, base, k, defaults, dt)
    grid = {(0, 0): base}
    grid[(1, 0)] = copy.deepcopy(base)
    change_key(rng, grid[(1, 0)], k1, defaults, dt)
    grid[(0, 1)] = copy.deepcopy(base)
    change_key(rng, grid[(0, 1)], k2, defaults, dt)
    grid[(1, 1)] = copy.deepcopy(grid[(1, 0)])
    change_key(rng, grid[(1, 1)], k2, defaults, dt)
    cells = [{"bic": [i, j], "override": grid[(i, j)]} for (i, j) in ((0, 0), (0, 1), (1, 0), (1, 1))]
    g = {"kind": "biclique", "trainer": tr, "defaults": defaults, "dt": dt, "B": B, "n_out": n_out, "conns": conns,
         "posts": posts, "cells": cells, "signal": sig, "scale": rng.choice([1.0, 0.5, -2.0]) if sig is not None else 1.0,
         "differs": {"sharing_neuron": k1, "sharing_connection": k2}}
    mk_forms(rng, g)
    return g


def gen_scenario(rng: random.Random, q: int):
    """a single dense cell trained with operations between steps (update applied after every trainer call): a
    checkpoint restored into a twin that ran on other data, trainer.clear() + layer.clear(), delays re-assigned through
    the setter / through the Updater (on the step grid)"""
    tr = TRAINERS[q % len(TRAINERS)]
    sp, sq = rng.choice(SIGNS)
    kind = ["restore", "clear", "delay_set", "delay_upd", "mixed"][(q // len(TRAINERS)) % 5]
    n_in, n_out, B, T = rng.randint(1, 2), rng.randint(1, 2), rng.randint(1, 2), rng.randint(4, 8)
    wants_delay = kind in ("delay_set", "delay_upd", "mixed")
    kmax = rng.choice([2, 3]) if wants_delay else rng.choice([None, None, 1, 2])
    dt = rng.choice([1.0, 0.5]) if wants_delay else rng.choice([1.0, 0.5, 1.3])     # k * dt exact under the Updater's old + (new - old)

    def dmat():
        return [[rng.randint(0, kmax) for _ in range(n_in)] for _ in range(n_out)]
    case = {"trainer": tr, "mode": rng.choice(MODES), "hp": default_hp(sp, sq, rng), "dt": dt, "conn": "dense",
            "n_in": n_in, "n_out": n_out, "B": B, "kmax": kmax, "delays": None if kmax is None else dmat(),
            "delayed": (rng.random() < 0.75) if wants_delay else (rng.random() < 0.5),
            "reduction": rng.choice([None, "sum", "mean"]), "events": []}
    p = rng.choice([0.4, 0.7])
    case["pre"] = [[[int(rng.random() < p) for _ in range(n_in)] for _ in range(B)] for _ in range(T)]
    case["post"] = [[[int(rng.random() < p) for _ in range(n_out)] for _ in range(B)] for _ in range(T)]
    case["signal"] = mk_signal(rng, case, T, B)
    case["scale"] = rng.choice([1.0, 0.5]) if case["signal"] is not None else 1.0
    mk_forms(rng, case)
    if case["signal"] is not None and isinstance(case["signal"][0], list):
        case["reduction"] = rng.choice([None, "sum"])

    def restore_ev(at):
        J = rng.randint(1, 3)
        return {"at": at, "op": "restore",
                "junk_pre": [[[int(rng.random() < 0.7) for _ in range(n_in)] for _ in range(B)] for _ in range(J)],
                "junk_post": [[[int(rng.random() < 0.7) for _ in range(n_out)] for _ in range(B)] for _ in range(J)]}
    ops = {"restore": ["restore"], "clear": ["clear"], "delay_set": ["delay_set"], "delay_upd": ["delay_upd"],
           "mixed": ["delay_set", "restore", "delay_upd", "clear"]}[kind]
    ats = sorted(rng.sample(range(1, T), min(len(ops) if kind == "mixed" else rng.randint(1, 2), T - 1)))
    for at, op in zip(ats, ops if kind == "mixed" else ops * len(ats)):
        if op == "restore":
            case["events"].append(restore_ev(at))
        elif op == "clear":
            case["events"].append({"at": at, "op": "clear"})
        else:
            case["events"].append({"at": at, "op": op, "delays": dmat()})
    case["scenario"] = kind
    return case


def gen_conv(rng: random.Random):
    """a small convolutional cell (weights shared over the output positions); linear batch reductions only, because the
    per-synapse model terms are added up over the positions before the comparison"""
    tr = rng.choice(TRAINERS)
    sp, sq = rng.choice(SIGNS)
    H, W = rng.choice([(2, 2), (3, 2), (3, 3)])
    C, Fn = rng.randint(1, 2), rng.randint(1, 2)
    kernel = rng.choice([[1, 1], [2, 2], [2, 1], [1, 2]])
    padding = rng.choice([[0, 0], [0, 0], [1, 0]])
    stride = rng.choice([[1, 1], [1, 1], [2, 1]])
    oh = (H + 2 * padding[0] - (kernel[0] - 1) - 1) // stride[0] + 1
    ow = (W + 2 * padding[1] - (kernel[1] - 1) - 1) // stride[1] + 1
    B, T = rng.randint(1, 2), rng.randint(2, 6)
    kmax = rng.choice([None, None, 1, 2])
    N = C * kernel[0] * kernel[1]
    case = {"trainer": tr, "mode": rng.choice(MODES), "hp": default_hp(sp, sq, rng), "dt": rng.choice([1.0, 0.5]),
            "conn": "conv", "conv": {"height": H, "width": W, "channels": C, "filters": Fn, "kernel": kernel,
                                     "stride": stride, "padding": padding, "dilation": [1, 1]},
            "B": B, "kmax": kmax, "delays": None, "delayed": bool(kmax is not None and rng.random() < 0.5),
            "reduction": rng.choice([None, "sum", "mean"])}
    if kmax is not None:
        case["delays"] = [[rng.randint(0, kmax) for _ in range(N)] for _ in range(Fn)]
    p = rng.choice([0.3, 0.6])
    case["pre"] = [[[int(rng.random() < p) for _ in range(C * H * W)] for _ in range(B)] for _ in range(T)]
    case["post"] = [[[int(rng.random() < p) for _ in range(Fn * oh * ow)] for _ in range(B)] for _ in range(T)]
    case["signal"] = mk_signal(rng, case, T, B)
    case["scale"] = rng.choice([1.0, 0.5, -2.0]) if case["signal"] is not None else 1.0
    mk_forms(rng, case)
    if case["signal"] is not None and isinstance(case["signal"][0], list):
        case["reduction"] = rng.choice([None, "sum"])
    return case


def exhaustive_1x1(maxlen, trainers=TRAINERS, with_delay=False):
    """every pre/post history of length <= maxlen on a 1x1 cell, for every trainer x sign mode x trace mode"""
    cases = []
    for tr in trainers:
        for (sp, sq) in SIGNS:
            for mode in MODES:
                hp = default_hp(sp, sq, random.Random(TRAINERS.index(tr) * 100 + SIGNS.index((sp, sq)) * 10 + MODES.index(mode)))
                for L in range(1, maxlen + 1):
                    for bits in itertools.product([0, 1], repeat=2 * L):
                        pre = [[[bits[2 * t]]] for t in range(L)]
                        post = [[[bits[2 * t + 1]]] for t in range(L)]
                        sig = None
                        if tr in ("MSTDP", "MSTDPET"):
                            sig = [[1.0, -2.0, 0.5, -0.75, 1.3][t % 5] for t in range(L)]
                        c = {"trainer": tr, "mode": mode, "hp": hp, "dt": 1.0, "conn": "dense", "n_in": 1, "n_out": 1,
                             "B": 1, "kmax": None, "delays": None, "delayed": False, "reduction": None,
                             "pre": pre, "post": post, "signal": sig, "scale": 1.0}
                        if sig is not None:
                            # the reward forms rotate over the histories: python floats / 0-d tensors (int64 for the
                            # integral values, float32 for the dyadic ones, float64) / 1-element 1-d tensors (B = 1)
                            rot = len(cases) % 4
                            if rot == 1:
                                c["signal_forms"] = ["t0_i64", "t0_i64", "t0_f32", "t0_f32", "t0_f64"][:L]
                            elif rot == 2:
                                c["signal_forms"] = ["t0_f64"] * L
                            elif rot == 3:
                                c["signal"] = [[v] for v in sig]
                        if with_delay:
                            c.update(kmax=2, delays=[[1]], delayed=(len(cases) % 2 == 0))
                        cases.append(c)
    return cases


# ------------------------------------------------------------------ rendering to Coq
def q_float(x):
    return F.coq_float(float(x))


def q_config(case, off=None):
    hp = case["hp"]
    tr = case["trainer"]
    mode = "Cumulative" if case["mode"] == "cumulative" else "Nearest"
    dby = "None" if case.get("kmax") is None else f"(Some {q_float(case['kmax'] * case['dt'])})"
    red = {"sum": "RSum", "mean": "RMean", "amax": "RAmax"}[eff_reduction(case)]
    fs = [case["dt"], hp["lr_post"], hp["lr_pre"], hp["tc_post"], hp["tc_pre"], hp["lr_post_triplet"],
          hp["lr_pre_triplet"], hp["tc_post_slow"], hp["tc_pre_slow"], hp["tc_elig"]]
    return (f"(mkConfig FN {tr} {mode} " + " ".join(q_float(x) for x in fs) +
            f" {F.coq_bool(case['delayed'])} {dby} {red} {'None' if off is None else '(Some ' + q_float(off) + ')'})")


def q_signal(case, t):
    sig = case.get("signal")
    if sig is None:
        return "(SigNone FN)"
    s = sig[t]
    if isinstance(s, list):
        return f"(SigTensor FN {F.coq_list([q_float(v) for v in s])} {q_float(case.get('scale', 1.0))})"
    return f"(SigScalar FN {q_float(s)} {q_float(case.get('scale', 1.0))})"


def q_case(case, k, pre, post, off=None, t0=0, ks=None):
    """pre/post: [T][B] bits of the run (a segment starting at global step t0: the signal is read at t0 + t);
    ks: per-step delays (steps) when the delays are re-assigned between steps"""
    T, B = len(pre), case["B"]
    steps = []
    for t in range(T):
        pq = F.coq_list([f"({F.coq_bool(pre[t][b])}, {F.coq_bool(post[t][b])})" for b in range(B)])
        st = f"({pq}, {q_signal(case, t0 + t)})"
        steps.append(st if ks is None else f"({ks[t]}%nat, {st})")
    if ks is not None:
        return f"run_case_k {q_config(case, off)} {B}%nat {F.coq_list(steps)}"
    return f"run_case {q_config(case, off)} {k}%nat {B}%nat {F.coq_list(steps)}"


# ------------------------------------------------------------------ direct oracle: literal sums over spike pairs
def red_fn(name):
    return {"sum": sum, "mean": lambda l: sum(l) / len(l), "amax": max}[name]


def pair_terms(case, k, pre, post):
    """per step t, for sample b: (A, D) with unit learning rates:
       A(t) = [post spike at t] * sum over presynaptic spikes tq (arrival tq + k <= t) of exp(-(t - (tq+k)) dt / tau_pre)
              (only the most recent such partner in nearest mode)  [* triplet factor]
       D(t) = [presynaptic spike arriving at t] * sum over post spikes tp <= t of exp(-(t - tp) dt / tau_post)   [* factor]"""
    hp, dt, T = case["hp"], case["dt"], len(pre)
    nearest = case["mode"] == "nearest"
    pre_arr = [tq + k for tq in range(T) if pre[tq] and tq + k < T]     # arrival steps
    post_t = [tp for tp in range(T) if post[tp]]

    def partner_sum(times, t, tau, upto=None):
        upto = t if upto is None else upto
        ts = [s for s in times if s <= upto]
        if not ts:
            return 0.0
        if nearest:
            ts = [max(ts)]
        return sum(math.exp(-((upto - s) * dt) / tau) for s in ts)

    A, D = [], []
    for t in range(T):
        a = partner_sum(pre_arr, t, hp["tc_pre"]) if t in post_t else 0.0
        d = partner_sum(post_t, t, hp["tc_post"]) if t in pre_arr else 0.0
        if case["trainer"] in TRIPLET:
            # documented: x_a(t) (alpha_post + beta_post y_b(t - dt)), y_b the slow trace of the TRIGGERING population
            # one step earlier; betas enter by absolute value, the sign is alpha's
            yb = partner_sum(post_t, t, hp["tc_post_slow"], upto=t - 1) if t >= 1 else 0.0
            xb = partner_sum(pre_arr, t, hp["tc_pre_slow"], upto=t - 1) if t >= 1 else 0.0
            a *= (1.0 + abs(hp["lr_post_triplet"]) / abs(hp["lr_post"]) * yb)
            d *= (1.0 + abs(hp["lr_pre_triplet"]) / abs(hp["lr_pre"]) * xb)
        A.append(a)
        D.append(d)
    return A, D


def delay_selected_by_trainer(case):
    """the trainer itself reads its (raw) presynaptic records at the delay: `delayed` on a connection with non-zero delays"""
    return bool(case["delayed"]) and case["trainer"] != "MSTDPET" and case.get("kmax") not in (None, 0)


def pair_terms_var(case, ks, pre, post):
    """pair_terms when the delay changes between steps (ks[t] = delay in force at step t), "presynaptic spike times
    shifted by the delay in force":
      delay-frozen mode: the spike arriving at step t is the one emitted at t - ks[t]; the arrivals are the presynaptic
        events of the pair sums;
      delayed mode: at step t the synapse has seen the raw presynaptic history up to s = t - ks[t]: a post spike at t
        pairs with the raw spikes u <= s with weight exp(-(s - u) dt / tau_pre), and a presynaptic spike emitted at s
        (arriving now) pairs with the post spikes up to t"""
    hp, dt, T = case["hp"], case["dt"], len(pre)
    if not delay_selected_by_trainer(case):
        eff = [int(t - ks[t] >= 0 and pre[t - ks[t]]) for t in range(T)]
        return pair_terms(case, 0, eff, post)
    nearest = case["mode"] == "nearest"
    raw = [u for u in range(T) if pre[u]]
    post_t = [tp for tp in range(T) if post[tp]]

    def partner_sum(times, upto, tau):
        ts = [x for x in times if x <= upto]
        if not ts:
            return 0.0
        if nearest:
            ts = [max(ts)]
        return sum(math.exp(-((upto - x) * dt) / tau) for x in ts)

    A, D = [], []
    for t in range(T):
        sarr = t - ks[t]
        a = partner_sum(raw, sarr, hp["tc_pre"]) if post[t] else 0.0
        d = partner_sum(post_t, t, hp["tc_post"]) if (sarr >= 0 and pre[sarr]) else 0.0
        if case["trainer"] in TRIPLET:
            a *= (1.0 + abs(hp["lr_post_triplet"]) / abs(hp["lr_post"]) * partner_sum(post_t, t - 1, hp["tc_post_slow"]))
            d *= (1.0 + abs(hp["lr_pre_triplet"]) / abs(hp["lr_pre"]) * partner_sum(raw, sarr - 1, hp["tc_pre_slow"]))
        A.append(a)
        D.append(d)
    return A, D


def oracle_seg(case, k, ks, pairs, a, b):
    """expected weight change contributed by the steps a .. b-1 of a run that starts afresh at step a (pairs: the
    (pre, post) trains [T][B] of the synapses sharing the weight), or None when the oracle has no opinion"""
    hp, dt, B = case["hp"], case["dt"], case["B"]
    T = b - a
    red = eff_reduction(case)
    rf = red_fn(red)
    AD = []
    for bb in range(B):
        A, D = [0.0] * T, [0.0] * T
        for (pre, post) in pairs:          # synapses sharing the weight add up (before the batch reduction)
            prb, pob = [st[bb] for st in pre[a:b]], [st[bb] for st in post[a:b]]
            x, y = pair_terms(case, k, prb, pob) if ks is None else pair_terms_var(case, ks[a:b], prb, pob)
            A = [u + v for u, v in zip(A, x)]
            D = [u + v for u, v in zip(D, y)]
        AD.append((A, D))
    sig, scale = case.get("signal"), abs(case.get("scale", 1.0))
    if case["trainer"] == "MSTDPET":
        # eligibility filter z(t) = z(t-dt) exp(-dt/tau_z) + c(t)/tau_z applied to each contribution stream
        dz = math.exp(-dt / hp["tc_elig"])
        for bb in range(B):
            A, D = AD[bb]
            za = zd = 0.0
            for t in range(T):
                za = za * dz + A[t] / hp["tc_elig"]
                zd = zd * dz + D[t] / hp["tc_elig"]
                A[t], D[t] = za, zd
    total = 0.0
    for t in range(T):
        As = [AD[bb][0][t] for bb in range(B)]
        Ds = [AD[bb][1][t] for bb in range(B)]
        st = None if sig is None else sig[a + t]
        if st is None:
            total += hp["lr_post"] * rf(As) + hp["lr_pre"] * rf(Ds)
        elif not isinstance(st, list):
            total += st * scale * (hp["lr_post"] * rf(As) + hp["lr_pre"] * rf(Ds))
        else:
            if red != "sum":
                return None      # per-sample signals split the batch before reducing: only the sum is a per-sample statement
            total += sum(st[bb] * scale * (hp["lr_post"] * As[bb] + hp["lr_pre"] * Ds[bb]) for bb in range(B))
    return total


def subs_of(case, ent):
    """(single-cell case, sub-entry {k, off, pairs[, ks]}) of every cell writing into this weight"""
    return ent["subs"] if "subs" in ent else [(case, ent)]


def segments(case):
    """[a, b) stretches of steps between two clears (the whole history when there is none)"""
    T = len(case["pre"])
    cuts = sorted({ev["at"] for ev in case.get("events") or [] if ev["op"] == "clear"})
    bounds = [0] + [c for c in cuts if 0 < c < T] + [T]
    return list(zip(bounds[:-1], bounds[1:]))


def oracle_entry(case, ent):
    """expected total weight change of a weight entry, or None when the oracle has no opinion"""
    total = 0.0
    for (sc, sub) in subs_of(case, ent):
        if sub.get("off") is not None:
            # a delay between two steps: the delay-frozen mode rounds the arrival up to the next step, the delayed mode reads
            # an exponentially interpolated trace; the property's "shifted by the delay" does not say which - not judged
            return None
        for (a, b) in segments(case):
            v = oracle_seg(sc, sub["k"], sub.get("ks"), sub["pairs"], a, b)
            if v is None:
                return None
            total += v
    return total


# ------------------------------------------------------------------ comparison
def dec_opt(t):
    return None if t == [] else F.dec_float(t[0])


def pick(vals, idx):
    """element idx of a flattened weight-shaped list of encoded floats (None: absent part; 'shape': wrong size)"""
    if vals is None:
        return None
    if idx >= len(vals):
        return "shape"
    return F.dec_float(vals[idx])


def add_opt(a, b):
    if a is None:
        return b
    if b is None:
        return a
    return a + b


def runs_of(case, ent):
    """the model runs of a weight entry: one per (cell writing into the weight, synapse sharing it, segment)"""
    out = []
    for (sc, sub) in subs_of(case, ent):
        for (pre, post) in sub["pairs"]:
            for (a, b) in segments(case):
                out.append({"case": sc, "k": sub["k"], "off": sub.get("off"), "ks": None if sub.get("ks") is None else sub["ks"][a:b],
                            "pre": pre[a:b], "post": post[a:b], "a": a, "b": b})
    return out


def q_run(r):
    return q_case(r["case"], r["k"], r["pre"], r["post"], r["off"], t0=r["a"], ks=r["ks"])


def model_entry(runs, ms, T, per_step):
    """combine the model outputs of the runs of one weight: parts add up (None = absent).  per_step: the parts handed
    over by each trainer call (update applied after every call); otherwise the accumulator contents after each call"""
    parts = [[None, None] for _ in range(T)]
    upd = None
    for r, m in zip(runs, ms):
        src = m[2] if per_step else m[1]
        for t in range(r["a"], r["b"]):
            for j in (0, 1):
                parts[t][j] = add_opt(parts[t][j], dec_opt(src[t - r["a"]][j]))
        upd = add_opt(upd, dec_opt(m[3]))
    return parts, upd


def compare_case(case, impl, ents, runs, models):
    """ents: weight entries; runs / models: per entry the model runs and their results
    -> (mismatch detail | None, oracle failure detail | None)"""
    if not impl.get("ok"):
        # the model says whether the configuration is rejected
        flat = [m for ms in models for m in ms]
        bad = [m for m in flat if not isinstance(m, Exception) and m[0] == 1]
        if bad and impl.get("err") == bad[0][1]:
            return None, None
        d = {"impl_error": impl.get("msg"), "trace": impl.get("trace", "")[-600:]}
        return d, dict(d, what="the implementation raised on a valid configuration")
    T = len(case["pre"])
    per_step = case.get("events") is not None
    nw = 1
    for x in impl["wshape"]:
        nw *= x
    mis = None
    for ent, rs, ms in zip(ents, runs, models):
        err = next((m for m in ms if isinstance(m, Exception)), None)
        if err is not None:
            mis = {"model_error": str(err)[:800]}
            break
        rej = next((m for m in ms if m[0] != 0), None)
        if rej is not None:
            mis = {"model_rejects": rej, "impl": "ran"}
            break
        parts, upd = model_entry(rs, ms, T, per_step)
        idx = ent["idx"]
        for t in range(T):
            for part, j in (("pos", 0), ("neg", 1)):
                mv = parts[t][j]
                raw = impl["steps"][t][part]
                iv = pick(raw, idx)
                if iv == "shape" or (raw is not None and len(raw) != nw):
                    mis = {"weight": ent["label"], "step": t, "part": part, "detail": "part is not weight-shaped",
                           "size": len(raw), "weight_size": nw}
                elif (mv is None) != (iv is None) or (mv is not None and not F.close(mv, iv)):
                    mis = {"weight": ent["label"], "step": t, "part": part, "model": mv, "impl": iv}
                if mis:
                    break
            if mis is None and per_step:
                net = (parts[t][0] or 0.0) - (parts[t][1] or 0.0)
                iw = pick(impl["steps"][t]["dw"], idx)
                if iw == "shape" or not F.close(net, iw, rel=1e-9, ab=1e-11):
                    mis = {"weight": ent["label"], "step": t, "part": "applied update", "model": net, "impl": iw}
            if mis:
                break
        if mis:
            break
        iu = pick(impl["w_total"] if per_step else impl["dw"], idx)
        if iu == "shape" or not F.close(upd if upd is not None else 0.0, iu, rel=1e-9, ab=1e-11):
            mis = {"weight": ent["label"], "step": "update", "model": upd, "impl": iu}
            break
    of = None
    for ent in ents:
        exp = oracle_entry(case, ent)
        if exp is None:
            continue
        got = pick(impl["w_total"], ent["idx"])
        if got == "shape" or not F.close(exp, got, rel=1e-9, ab=1e-11):
            of = {"weight": ent["label"], "delay_steps": ent.get("ks") or ent.get("k"), "expected_pair_sum": exp,
                  "observed_weight_change": got}
            break
    return mis, of


def signature(case, detail):
    d = case.get("defaults", case)
    return {"trainer": case["trainer"], "mode": d.get("mode"), "delayed": bool(d.get("delayed")),
            "kind": case.get("kind", "scenario" if case.get("events") is not None else "cell")}


def run_impl_parallel(cases, jobs=8):
    """the implementation side, split over a few interpreter processes (each case is independent)"""
    if len(cases) < 64:
        return F.run_impl(IMPL, {"cases": cases})
    import concurrent.futures as cf
    n = (len(cases) + jobs - 1) // jobs
    chunks = [cases[a:a + n] for a in range(0, len(cases), n)]
    with cf.ThreadPoolExecutor(jobs) as ex:
        parts = list(ex.map(lambda ch: F.run_impl(IMPL, {"cases": ch}), chunks))
    return [r for part in parts for r in part]


def units_of(c, im):
    """(case reported on failure, single-layer case judged, implementation result) - one per connection"""
    if c.get("kind") == "group":
        effs = effective_cases(c)
        ress = im["cells"] if im.get("ok") else [im] * len(effs)
        return [(c, e, r) for e, r in zip(effs, ress)]
    if c.get("kind") == "biclique":
        conn_cases = biclique_connections(c)
        ress = im["cells"] if im.get("ok") else [im] * len(conn_cases)
        return [(c, e, r) for e, r in zip(conn_cases, ress)]
    return [(c, c, im)]


def evaluate(cases):
    impl = run_impl_parallel(cases)
    units = []
    for c, im in zip(cases, impl):
        units += units_of(c, im)
    terms, spans = [], []
    for orig, c, im in units:
        ents = entries(c, im)
        if not ents and c["conn"] != "conv":
            ents = entries(c)
        rs, sp = [], []
        for e in ents:
            r = runs_of(c, e)
            rs.append(r)
            sp.append((len(terms), len(r)))
            terms += [q_run(x) for x in r]
        spans.append((ents, rs, sp))
    model = F.eval_terms(ID, HEADER, terms, shard=max(40, min(250, len(terms) // 48 + 1)))
    mismatches, oracle_fail = [], []
    for (orig, c, im), (ents, rs, sp) in zip(units, spans):
        mis, of = compare_case(c, im, ents, rs, [model[a:a + n] for (a, n) in sp])
        tag = {}
        if orig is not c:
            tag = {"judged": {k: c[k] for k in ("hp", "mode", "delayed", "reduction", "tol", "connection", "cells_in_effect")
                              if k in c}}
        if mis is not None:
            mismatches.append({"case": orig, "detail": dict(mis, **tag)})
        if of is not None:
            oracle_fail.append({"case": orig, "detail": dict(of, **tag), "signature": signature(orig, of)})
    return impl, mismatches, oracle_fail, len(terms)


def _flat(x):
    return [z for y in x for z in _flat(y)] if isinstance(x, list) else [x]


def flat_cells(cases):
    out = []
    for c in cases:
        if c.get("kind") == "group":
            out += effective_cases(c)
        elif c.get("kind") == "biclique":
            out += [e for cc in biclique_connections(c) for e in cc["cells_in_effect"]]
        else:
            out.append(c)
    return out


def nontrivial(case):
    if case.get("kind") in ("group", "biclique"):
        return any(nontrivial(e) for e in flat_cells([case]))
    T = len(case["pre"])
    npre = sum(sum(sum(r) for r in s) for s in case["pre"])
    npost = sum(sum(sum(r) for r in s) for s in case["post"])
    return T >= 2 and npre >= 1 and npost >= 1


def load_corpus():
    import glob
    return [json.load(open(p)) for p in sorted(glob.glob(os.path.join(F.VERIF, "corpus", ID, "*.json")))]


def run(ctx):
    rng = random.Random(ctx["seed"])
    quick = ctx["tier"] == "quick"
    cases = load_corpus()
    cases += [gen_random(rng) for _ in range(200 if quick else 4000)]
    cases += [gen_conv(rng) for _ in range(24 if quick else 400)]
    cases += [gen_malformed(rng) for _ in range(30 if quick else 300)]
    cases += [gen_offgrid(rng) for _ in range(60 if quick else 600)]
    cases += [gen_tolerance(rng) for _ in range(48 if quick else 600)]
    # one trainer object, several cells registered with per-cell keyword overrides (incl. a cell without overrides)
    cases += [gen_group(rng) for _ in range(60 if quick else 900)]
    # one trainer on a Biclique layer: cells sharing a neuron group / a connection (and its accumulator), each pair
    # differing in exactly one register_cell keyword (rotating over all of them, 78 = one full rotation)
    cases += [gen_biclique(rng, q) for q in range(78 if quick else 780)]
    # operations between steps: checkpoint restored into a twin, clear(), delays re-assigned (setter / Updater)
    cases += [gen_scenario(rng, q) for q in range(60 if quick else 900)]
    ex_len = 2 if quick else 5
    ex = exhaustive_1x1(ex_len)
    if quick:
        # a subset of the exhaustive stream of the thorough tier: all histories of length <= 2 for every
        # trainer x sign mode x trace mode, all of length 3 for STDP, and length <= 2 with a delay in both modes
        ex += [c for c in exhaustive_1x1(3, ["STDP"]) if len(c["pre"]) == 3]
        ex += exhaustive_1x1(2, ["STDP", "TripletSTDP", "MSTDP"], with_delay=True)
    else:
        ex += exhaustive_1x1(4, TRAINERS[:5], with_delay=True)
    cases += ex
    # the executable instance is not a dependency of the obligation files: (re)build it against the current Gen kernels
    with F.BuildLock():
        ok_exec, mk_out = F.make(["C08/StdpExec.vo"], timeout=900)
    impl, mismatches, oracle_fail, nterms = evaluate(cases)
    if not ok_exec:
        mismatches.insert(0, {"case": None, "detail": "executable model C08/StdpExec.v does not build: " + mk_out[-1500:]})
    cells = flat_cells(cases)
    groups = [c for c in cases if c.get("kind") == "group"]
    return {
        "evaluations": len(cases),
        "distinct_nontrivial": len({json.dumps(c, sort_keys=True) for c in cases if nontrivial(c)}),
        "rule": ("seeded random cells (6 trainers x 4 sign modes x 2 trace modes, dense/direct/lateral connections up to 3x3, "
                 "batch <= 3, 1-9 steps, delays 0-3 steps (a third of the delayed cells with delays between two steps) in both "
                 "trainer modes or no delay, sum/mean/amax reductions, scalar "
                 "and per-sample signals) + small convolutional cells (kernels shared over <= 9 output positions, stride / "
                 "padding, delays, linear reductions) + GROUPS: one trainer object driving 2-3 cells on their own layers, the "
                 "first registered without overrides, the others with keyword overrides of rates (mostly another sign mode "
                 "than the trainer's defaults), time constants, delayed, trace_mode, batch_reduction, interp_tolerance, "
                 "inplace; model and oracle use the hyperparameters in effect per cell + BICLIQUE: one trainer on a 2x2 "
                 "Biclique layer, all four cells registered, cells sharing a neuron group / a connection (and its "
                 "accumulator) differing in exactly one register_cell keyword rotating over all of them + SCENARIOS: update "
                 "applied after every call, a checkpoint (layer + trainer state_dict) restored into a twin that ran on other "
                 "data, trainer.clear()+layer.clear(), delays re-assigned through the setter / the Updater between steps "
                 "(oracle: presynaptic times shifted by the delay in force at each step); scalar rewards are handed over "
                 "as python floats or as 0-d tensors (float64 / float32 / int64; positive, negative, zero), per-sample "
                 "rewards as 1-d tensors (1 element when the batch size is 1) + EXHAUSTIVE pre/post histories of length <= %d on 1x1 cells for every trainer x "
                 "sign mode x trace mode%s; non-trivial = >= 2 steps with at least one pre and one post spike; distinct by "
                 "full case text" % (ex_len, " (+ all length-3 histories for STDP, length <= 2 with a delay)" if quick
                                     else " (+ length <= 4 with a delay in both trainer modes)")),
        "samples": cases[:2],
        "mismatches": mismatches, "oracle_failures": oracle_fail,
        "traces_validated_against_impl": len(cases) - len(mismatches),
        "model_terms_evaluated": nterms,
        "exhaustive_cases": len(ex),
        "trainer_distribution": dict(Counter(c["trainer"] for c in cells)),
        "mode_distribution": dict(Counter(c["mode"] for c in cells)),
        "delay_distribution": dict(Counter(("none" if c["kmax"] is None else "k<=%d" % c["kmax"]) + ("/delayed" if c["delayed"] else "/frozen") for c in cells)),
        "offgrid_delay_cases": sum(1 for c in cells if c.get("delays") is not None and any(float(x) != int(x) for x in _flat(c["delays"]))),
        "biclique_cases": sum(1 for c in cases if c.get("kind") == "biclique"),
        "biclique_differing_keys": dict(Counter(k for c in cases if c.get("kind") == "biclique" for k in c["differs"].values())),
        "scenario_cases": dict(Counter(c["scenario"] for c in cases if c.get("scenario"))),
        "scenario_events": dict(Counter(ev["op"] for c in cases for ev in (c.get("events") or []))),
        "group_cases": len(groups), "group_cells": sum(len(g["cells"]) for g in groups),
        "group_cells_with_overrides": sum(1 for g in groups for cc in g["cells"] if cc.get("override")),
        "group_cells_sign_mode_differs_from_default": sum(
            1 for g in groups for e in effective_cases(g)
            if (e["hp"]["lr_post"] >= 0, e["hp"]["lr_pre"] >= 0) != (g["defaults"]["hp"]["lr_post"] >= 0, g["defaults"]["hp"]["lr_pre"] >= 0)),
        "group_override_keys": dict(Counter(k for g in groups for cc in g["cells"] for k in
                                            (list(cc.get("override", {}).get("hp", {})) + [x for x in cc.get("override", {}) if x != "hp"]))),
        "conn_distribution": dict(Counter(c["conn"] for c in cells)),
        "reduction_distribution": dict(Counter(eff_reduction(c) for c in cells)),
        "signal_distribution": dict(Counter("none" if c.get("signal") is None else ("per-sample" if isinstance(c["signal"][0], list) else "scalar") for c in cells)),
        "reward_form_distribution": dict(Counter(
            ("per-sample 1-d tensor, B=%d" % (c.get("B") or c["cells"][0]["B"]) if isinstance(st, list) else (f or "python float"))
            for c in cases if c.get("signal") is not None
            for st, f in zip(c["signal"], c.get("signal_forms") or [None] * len(c["signal"])))),
        "impl_errors": sum(1 for r in impl if not r.get("ok")),
        "malformed_stream": dict(Counter("%s/%s" % (c.get("malformed"), "accepted" if r.get("ok") else "refused") for c, r in zip(cases, impl) if c.get("malformed"))),
    }


def fails(case):
    impl, mm, of, _ = evaluate([case])
    return (mm[0]["detail"] if mm else None), (of[0]["detail"] if of else None)


def minimise(case):
    """shrink a failing case: fewer steps, smaller batch, fewer neurons (keeps it failing the oracle or correspondence)"""
    def bad(c):
        try:
            m, o = fails(c)
        except Exception:
            return None
        return o or m
    best, detail = case, bad(case)
    if detail is None:
        return case, None
    changed = True
    while changed and best.get("kind") == "biclique":
        changed = False
        if len(best["posts"][0]) > 1:
            c = dict(best, conns=[dict(cs, pre=cs["pre"][:-1]) for cs in best["conns"]], posts=[p[:-1] for p in best["posts"]],
                     signal=None if best.get("signal") is None else best["signal"][:-1])
            d = bad(c)
            if d is not None:
                best, detail, changed = c, d, True
    if best.get("kind") == "biclique":
        return best, detail
    changed = True
    while changed and best.get("events") is not None:
        changed = False
        cands = [dict(best, events=best["events"][:j] + best["events"][j + 1:]) for j in range(len(best["events"]))]
        T = len(best["pre"])
        if T > 1 and all(ev["at"] < T - 1 for ev in best["events"]):
            cands.append(dict(best, pre=best["pre"][:-1], post=best["post"][:-1],
                              signal=None if best.get("signal") is None else best["signal"][:-1]))
        for c in cands:
            d = bad(c)
            if d is not None:
                best, detail, changed = c, d, True
                break
    if best.get("events") is not None:
        return best, detail
    changed = True
    while changed and best.get("kind") == "group":
        changed = False
        cands = []
        if len(best["cells"]) > 1:
            cands += [dict(best, cells=best["cells"][:j] + best["cells"][j + 1:]) for j in range(len(best["cells"]))]
        if len(best["cells"][0]["pre"]) > 1:
            cands.append(dict(best, cells=[dict(cc, pre=cc["pre"][:-1], post=cc["post"][:-1]) for cc in best["cells"]],
                              signal=None if best.get("signal") is None else best["signal"][:-1]))
        for c in cands:
            d = bad(c)
            if d is not None:
                best, detail, changed = c, d, True
                break
    if best.get("kind") == "group":
        return best, detail
    changed = True
    while changed:
        changed = False
        T = len(best["pre"])
        cands = []
        if T > 1:
            cands.append(dict(best, pre=best["pre"][:-1], post=best["post"][:-1],
                              signal=None if best.get("signal") is None else best["signal"][:-1]))
        if best["B"] > 1:
            cands.append(dict(best, B=best["B"] - 1, pre=[s[:-1] for s in best["pre"]], post=[s[:-1] for s in best["post"]],
                              signal=None if best.get("signal") is None else
                              [s[:-1] if isinstance(s, list) else s for s in best["signal"]]))
        for c in cands:
            d = bad(c)
            if d is not None:
                best, detail, changed = c, d, True
                break
    return best, detail


def replay(case):
    m, o = fails(case)
    if m is None and o is None:
        return True, "replay: the implementation agrees with the model and with the pair-sum oracle on this case"
    return False, "replay: still failing: " + repr(o or m)[:1500]
