"""C10 - Updater algebra (accumulate, reduce, bound, apply once, clear): case generator, Coq rendering,
model-vs-implementation comparison and the direct oracle (a plain-Python evaluation of the property
statement: new = old + bound_upper(reduce(pos)) - bound_lower(reduce(neg)), order independence, no-op
when empty / after clear, range invariants, sharp gate, custom reduction)."""
from __future__ import annotations
import copy, json, math, os, random
from collections import Counter
import framework as F

ID = "C10"
GEN = ["Bounding"]
LEVEL = "proof"
TECHNIQUE = ("Coq proof over the reals about the bounding kernels re-translated from inferno/functional/bounding.py and a "
             "hand-written model of Accumulator/Updater/Updatable: element-wise apply_spec, permutation invariance of whole "
             "contribution histories, cache coherence and range preservation as invariants over arbitrary operation "
             "sequences (generic invariant principle + induction), no-op laws; model tied to the code by translation of the "
             "kernels and a differential correspondence check")
LEVEL_TEXT = ("Machine-checked proofs (Coq, real-number instance; 54 obligations) that the model of Accumulator/Updater sets "
              "every managed parameter element to old + bound_upper(reduce(pos)) - bound_lower(reduce(neg)) for every number "
              "and size of pending parts, every binding form (default / five full kernels with optional limits / any of the ten "
              "half kernels in either slot) and every column-wise reduction (apply_spec, update_spec incl. frame and clearing); "
              "that the parameters after update() are the same for EVERY permutation of the contributions of all trainers "
              "across all parameters when the reductions are symmetric (sum, mean, amax, amin, l2 proved symmetric; a "
              "non-symmetric custom reduction proved order dependent); that caches stay coherent over arbitrary operation "
              "sequences without post-construction reduction changes; that nothing accumulated / a second update after the "
              "default clear leaves the module state unchanged (the latter for every state, no hypotheses); that full "
              "multiplicative, scaled multiplicative and scaled power (any real order >= 1) dependence keep a parameter inside "
              "[min, max] after ANY admissible history of any length (interleaved contributions with magnitudes <= 1 resp. "
              "<= range, reads, update / updatesome / apply / clear, operations on other parameters), also for arbitrary "
              "reductions under the hypothesis on the reduced magnitudes; that sharp dependence never moves an element "
              "further beyond a reached limit (and is not a clamp); that a reduction passed at construction is installed on "
              "every accumulator and is the one apply_spec uses; that the trainer-level route CellTrainer.update() is exactly one "
              "module.update(clear=False) however many registered cells share the updater and does nothing for cells "
              "without an updater (trainer_update_once / _skips / _spec).  The kernels in the theorems are the definitions generated "
              "from the source on every run; the stateful model is validated against the real classes (LinearDense and a "
              "minimal Updatable) by a differential correspondence check; a plain-Python evaluation of the property statement "
              "is the direct oracle.")
LEVEL_NOTE = ("Trusted: Coq kernel + stdlib real axioms (sig_forall_dec, sig_not_dec, functional_extensionality_dep, classic); "
              "translator for bounding.py; hand-written model C10/Updater.v validated by correspondence only (generator "
              "coverage); torch.stack/sum/mean/amax/amin, nn.ParameterList, functools.cache and property/setattr dispatch "
              "modelled by their meaning; reductions restricted to column-wise functions; tensors combined element-wise only at "
              "equal sizes (no broadcasting); `updater.x = ...` for an unmanaged name not modelled. NOT proved: floating-point "
              "rounding (theorems are over R; 'up to rounding' is covered by the oracle's 1e-9 comparison of order-permuted "
              "twins); x**y for a negative base (Num.pow is specified for base >= 0: parameters outside the limits under "
              "power dependence are covered by the oracle only); a dead parent weak reference; keyword errors of the "
              "bounding functions (missing power / range). Observation (outside the property statement, proved as "
              "reduction_change_keeps_stale_cache and seen on the real class): Accumulator.reduction() does not clear the "
              "cached reductions, so a change of reduction after a read is ignored until the next append/delete. "
              "Finding candidate in binary64 only (the real-number theorem holds; witness C10/FloatWitness.v, replayed on the "
              "real class by corpus/C10/004): under scaled power dependence of fractional order rounding can carry a parameter "
              "1-2 ulp beyond a limit and the next update makes it NaN.  Both are reported as oracle failures (signatures "
              "stale_reduction_cache / float_range_nan) once known_findings.json lists them, and counted in the evidence "
              "until then.")
HEADER = ("From Coq Require Import List ZArith Bool PrimFloat.\n"
          "From Inferno Require Import Base.Num Base.NumF C10.Updater C10.UpdaterExec.\n"
          "Import ListNotations.\nOpen Scope Z_scope.\n")
IMPL = os.path.join(F.VERIF, "tools", "impl", "c10_impl.py")

ADDS = ("add", "addT", "addpos", "addneg")
SYM_REDS = (None, "sum", "mean", "amax", "amin", "l2")
BADLEN = 5   # length of a malformed part (never broadcastable against the shapes below)
SHAPES = [[2], [3], [2, 2], [3, 2], [2, 3]]


def numel(shape):
    n = 1
    for s in shape:
        n *= s
    return n


# ------------------------------------------------------------------ generators
class G:
    def __init__(self, rng, dyadic):
        self.rng, self.dyadic = rng, dyadic

    def val(self, lo, hi):
        if self.dyadic:
            return self.rng.randint(int(lo * 8), int(hi * 8)) / 8.0
        return round(self.rng.uniform(lo, hi), 2)

    def mag(self):
        r = self.rng.random()
        if r < 0.08:
            return 0.0
        if r < 0.12:
            return 1.0
        if r < 0.17:
            return self.val(-0.5, 0.0)
        return self.val(0.0, 1.0)

    def part(self, n, none_p=0.12):
        if self.rng.random() < none_p:
            return None
        return [self.mag() for _ in range(n)]

    def limit_pair(self):
        if self.dyadic:
            return self.rng.choice([(1.0, 0.0), (1.0, -1.0), (0.5, -0.5), (2.0, 0.0), (0.75, 0.25)])
        return self.rng.choice([(1.0, 0.0), (1.0, -1.0), (1.3, 0.1), (2.0, -0.5), (0.7, 0.2)])

    def power(self):
        return self.rng.choice([1.0, 1.0, 2.0, 0.5, 1.5, 3.0, 1.3, 0.0])


def gen_params(g, host):
    rng = g.rng
    if host == "dense":
        sh = rng.choice([[2, 2], [3, 2], [2, 3]])
        ps = [[0, sh, None]]
        if rng.random() < 0.6:
            ps.append([1, [sh[0]], None])
    else:
        ids = rng.choice([[0], [0, 1], [0, 1, 2], [1, 0]])
        ps = [[i, rng.choice(SHAPES), None] for i in ids]
    for p in ps:
        p[2] = [g.val(-1.5, 2.5) if rng.random() < 0.3 else g.val(0.0, 1.0) for _ in range(numel(p[1]))]
    return ps


def gen_half(g, smooth, slot):
    rng = g.rng
    kinds = ["mul", "smul", "sharp"] if not smooth else ["mul", "smul", "pow", "spow", "pow", "spow"]
    k = rng.choice(kinds)
    side = slot if rng.random() < 0.9 else ("L" if slot == "U" else "U")
    mx, mn = g.limit_pair()
    lim = mx if side == "U" else mn
    if k in ("mul", "sharp"):
        kern = [k + side]
    elif k == "smul":
        kern = [k + side, mx - mn]
    elif k == "pow":
        kern = [k + side, g.power()]
    else:
        kern = [k + side, g.power(), mx - mn]
    return kern, lim


def gen_full(g, smooth):
    rng = g.rng
    kinds = ["mul", "smul", "sharp", "sharp"] if not smooth else ["mul", "smul", "pow", "spow", "spow"]
    k = rng.choice(kinds)
    mx, mn = g.limit_pair()
    kern = [k] if k in ("mul", "smul", "sharp") else [k, g.power(), g.power()]
    return kern, mx, mn


def gen_trainer_cfg(rng):
    """CellTrainer over the dense host: 0-3 cells of the host connection (all sharing its updater), optionally a cell
    of a second connection with its own updater and a cell whose updater is None"""
    return {"primary": rng.choice([1, 2, 2, 3, 3, 0]), "extra": rng.random() < 0.45, "none": rng.random() < 0.35}


def trainer_cells(case):
    """the model's view of the trainer: one module id per registered cell (0 = the host connection)"""
    t = case.get("trainer") or {}
    return [0] * int(t.get("primary", 0)) + ([1] if t.get("extra") else []) + ([2] if t.get("none") else [])


def gen_general(rng, malformed, trainer_route=False):
    """random operation sequence over the whole API.  Two flavours (see module docstring of the design):
    'sharp' cases use dyadic values and only exactly-evaluated kernels/reductions so that the Heaviside gate
    never flips through rounding; 'smooth' cases use arbitrary decimals, power kernels, mean / l2."""
    smooth = rng.random() < 0.6
    g = G(rng, dyadic=not smooth)
    host = "dense" if (trainer_route or rng.random() < 0.3) else "double"
    trainer = gen_trainer_cfg(rng) if host == "dense" and (trainer_route or rng.random() < 0.7) else None
    params = gen_params(g, host)
    ids = [p[0] for p in params]
    sizes = {p[0]: numel(p[1]) for p in params}
    reds = ["sum", "mean", "amax", "amin", "first", "l2", None] if smooth else ["sum", "amax", "amin", "first", None]
    ops = []
    if rng.random() < 0.93:
        names = list(ids)
        rng.shuffle(names)
        if len(names) > 1 and rng.random() < 0.25:
            names = names[:-1]
        if malformed and rng.random() < 0.1:
            names = names + [9]
        ops.append(["newupdater", names, rng.choice(reds + [None, None])])
    tracked = [i for i in ids]
    in_upd = [i for i in (ops[0][1] if ops else []) if i != 9]

    def nm(allow_bad=True):
        if malformed and allow_bad and rng.random() < 0.06:
            return 9
        return rng.choice(tracked)

    def part(i):
        n = sizes.get(i, 2)
        if malformed and rng.random() < 0.07:
            n = BADLEN
        return g.part(n)

    nops = rng.randint(4, 36)
    for _ in range(nops):
        r = rng.random()
        if r < 0.40 and not in_upd:
            r = 0.41       # `updater.x = ...` for a name the updater does not manage just sets a python attribute
        if r < 0.34:
            i = rng.choice(in_upd)
            ops.append(["add", i, part(i), part(i)])
        elif r < 0.40:
            i = rng.choice(in_upd)
            ops.append(["addT", i, part(i)])
        elif r < 0.44:
            i = nm(False)
            ops.append([rng.choice(["addpos", "addneg"]), i, part(i)])
        elif r < 0.47:
            ops.append([rng.choice(["del", "delpos", "delneg"]), nm()])
        elif r < 0.53:
            ops.append([rng.choice(["getpos", "getneg"]), nm()])
        elif r < 0.58:
            ops.append([rng.choice(["accupdate", "accforward"]), nm()])
        elif r < 0.60:
            ops.append(["reduction", nm(False), rng.choice(reds)])
        elif r < 0.66:
            kind = rng.choice(["upper", "lower"])
            if rng.random() < 0.15:
                ops.append([kind, nm(False), None, None])
            else:
                kern, lim = gen_half(g, smooth, "U" if kind == "upper" else "L")
                if malformed and rng.random() < 0.1:
                    lim = None
                ops.append([kind, nm(False), kern, lim])
        elif r < 0.72:
            if rng.random() < 0.15:
                ops.append(["full", nm(False), None, None, None])
            else:
                kern, mx, mn = gen_full(g, smooth)
                q = rng.random()
                if q < 0.08:
                    mx = None
                elif q < 0.16:
                    mn = None
                elif q < 0.20:
                    mx = mn = None
                ops.append(["full", nm(False), kern, mx, mn])
        elif r < 0.86:
            if trainer is not None and rng.random() < (0.75 if trainer_route else 0.4):
                # the trainer-level route: CellTrainer.update(**kwargs) (applies, never clears)
                ops.append(["tupdate", rng.choice([None, None, False, True])])
                if rng.random() < 0.6:
                    ops.append(["clear"])
            else:
                ops.append(["update", rng.random() < 0.8])
        elif r < 0.91:
            k = rng.randint(0, min(2, len(tracked)))
            sel = rng.sample(tracked, k)
            if malformed and rng.random() < 0.15:
                sel.append(9)
            ops.append(["updatesome", sel, rng.random() < 0.8])
        elif r < 0.93:
            ops.append(["clear"])
        elif r < 0.96:
            k = rng.randint(0, min(2, len(tracked)))
            sel = rng.sample(tracked, k)
            if malformed and rng.random() < 0.15:
                sel.append(9)
            ops.append(["apply", sel])
        elif r < 0.98:
            i = rng.choice(ids)
            ops.append(["setparam", i, [g.val(-1.5, 2.5) for _ in range(sizes[i])]])
        elif r < 0.99:
            ops.append(["newupdater", list(ids), rng.choice(reds)])
            in_upd = list(ids)
        else:
            # without an updater the host's cells are skipped by trainer.update()
            ops.append(["delupdater"] if (malformed or trainer_route) else ["clear"])
            if malformed or trainer_route:
                in_upd = []
                if trainer_route:
                    ops.append(["tupdate", None])
                    ops.append(["newupdater", list(ids), rng.choice(reds)])
                    in_upd = list(ids)
    if trainer is not None:
        ops.append(["tupdate", None])
    ops.append(["update", True])
    ops.append(["update", True])
    c = {"stream": "trainer" if trainer_route else ("malformed" if malformed else ("smooth" if smooth else "sharp")),
         "host": host, "params": params, "ops": ops}
    if trainer is not None:
        c["trainer"] = trainer
    return c


def gen_history(rng, length):
    """long update histories under a range-preserving dependence, parameters starting inside [min, max]"""
    kind = rng.choice(["mul", "smul", "spow", "mulH", "smulH"])
    g = G(rng, dyadic=False)
    mx, mn = g.limit_pair()
    rg = mx - mn
    host = "dense" if rng.random() < 0.3 else "double"
    trainer = gen_trainer_cfg(rng) if host == "dense" and rng.random() < 0.7 else None
    if trainer is not None:
        trainer["primary"] = max(1, trainer["primary"])
    params = gen_params(g, host)[:1]
    n = numel(params[0][1])
    i = params[0][0]
    params[0][2] = [rng.choice([mn, mx, round(rng.uniform(mn, mx), 2)]) for _ in range(n)]
    red = rng.choice(["mean", "amax", "amin", "sum"])
    cap = 1.0 if kind in ("mul", "mulH") else rg
    ops = [["newupdater", [i], red]]
    if kind == "mul":
        ops.append(["full", i, ["mul"], mx, mn])
    elif kind == "smul":
        ops.append(["full", i, ["smul"], mx, mn])
    elif kind == "spow":
        ops.append(["full", i, ["spow", rng.choice([1.0, 1.5, 2.0, 3.0, 1.3]), rng.choice([1.0, 1.5, 2.0, 1.7])], mx, mn])
    elif kind == "mulH":
        ops.append(["upper", i, ["mulU"], mx])
        ops.append(["lower", i, ["mulL"], mn])
    else:
        ops.append(["upper", i, ["smulU", rg], mx])
        ops.append(["lower", i, ["smulL", rg], mn])
    for _ in range(length):
        k = rng.randint(1, 3)
        for _ in range(k):
            scale = cap / k if red == "sum" else cap
            def pt():
                if rng.random() < 0.15:
                    return None
                return [rng.choice([0.0, scale, round(rng.uniform(0, 1), 3) * scale]) for _ in range(n)]
            ops.append(["add", i, pt(), pt()])
        if trainer is not None and rng.random() < 0.5:
            ops.append(["tupdate", rng.choice([None, False, True])])
            ops.append(["clear"])
        else:
            ops.append(["update", True] if rng.random() < 0.85 else ["updatesome", [i], True])
    c = {"stream": "history", "host": host, "params": params, "ops": ops}
    if trainer is not None:
        c["trainer"] = trainer
    return c


def gen_sharpcase(rng):
    """sharp dependence with parameters on / beyond / inside the limits (dyadic, exact)"""
    g = G(rng, dyadic=True)
    mx, mn = g.limit_pair()
    host = "double"
    sh = rng.choice(SHAPES)
    n = numel(sh)
    vals = [rng.choice([mx, mn, mx + 0.125, mn - 0.125, mx - 0.125, mn + 0.125, (mx + mn) / 2, mx + 1, mn - 1])
            for _ in range(n)]
    params = [[0, sh, vals]]
    ops = [["newupdater", [0], rng.choice(["sum", "amax", None])]]
    if rng.random() < 0.5:
        ops.append(["full", 0, ["sharp"], mx, mn])
    else:
        ops.append(["upper", 0, ["sharpU"], mx])
        ops.append(["lower", 0, ["sharpL"], mn])
    for _ in range(rng.randint(3, 10)):
        for _ in range(rng.randint(1, 3)):
            ops.append(["add", 0, [rng.randint(0, 6) / 8.0 for _ in range(n)] if rng.random() < 0.85 else None,
                        [rng.randint(0, 6) / 8.0 for _ in range(n)] if rng.random() < 0.85 else None])
        ops.append(["update", True])
    return {"stream": "sharpcase", "host": host, "params": params, "ops": ops}


def perm_variant(case, rng):
    """the same case with every maximal block of consecutive contributions shuffled"""
    ops = case["ops"]
    out, i, changed = [], 0, False
    while i < len(ops):
        if ops[i][0] == "add":
            j = i
            while j < len(ops) and ops[j][0] == "add":
                j += 1
            blk = ops[i:j]
            sh = blk[:]
            rng.shuffle(sh)
            changed = changed or sh != blk
            out += sh
            i = j
        else:
            out.append(ops[i])
            i += 1
    if not changed:
        return None
    c = dict(case, ops=out)
    return c


def has_asym_red(case):
    for o in case["ops"]:
        if o[0] == "reduction" and o[2] == "first":
            return True
        if o[0] == "newupdater" and o[2] == "first":
            return True
    return False


def gen_cases(rng, n):
    cases = []
    for i in range(n):
        r = i % 10
        if r in (0, 1, 2, 3, 4):
            cases.append(gen_general(rng, malformed=False))
        elif r in (5, 6):
            cases.append(gen_general(rng, malformed=True))
        elif r == 7:
            cases.append(gen_history(rng, rng.choice([5, 10, 25, 40])))
        elif r == 8:
            cases.append(gen_sharpcase(rng))
        else:
            cases.append(gen_general(rng, malformed=False, trainer_route=True))
    return cases


def exhaustive_cases(depth=3):
    """every operation sequence up to `depth` over a 12-operation alphabet on one two-element parameter
    (thorough tier; validation of the model and of the oracle on small scopes)"""
    import itertools
    alpha = [["add", 0, [0.25, 0.5], [0.125, 0.0]], ["add", 0, [0.5, 1.0], None], ["add", 0, None, [0.75, 0.25]],
             ["getpos", 0], ["accupdate", 0], ["update", True], ["update", False], ["clear"], ["delneg", 0],
             ["reduction", 0, "amax"], ["full", 0, ["mul"], 1.0, 0.0], ["upper", 0, ["sharpU"], 0.5]]
    cases = []
    for d in range(1, depth + 1):
        for seq in itertools.product(range(len(alpha)), repeat=d):
            ops = [["newupdater", [0], None]] + [copy.deepcopy(alpha[i]) for i in seq] + [["update", True]]
            cases.append({"stream": "exhaustive", "host": "double", "params": [[0, [2], [0.5, 1.0]]], "ops": ops})
    return cases


# ------------------------------------------------------------------ rendering to Coq
def q_t(vals):
    return F.coq_list([F.coq_float(float(v)) for v in vals])


def q_ot(vals):
    return "None" if vals is None else f"(Some {q_t(vals)})"


def q_of(x):
    return "None" if x is None else f"(Some {F.coq_float(float(x))})"


def q_names(l):
    return F.coq_list([str(int(i)) for i in l])


RED_Q = {"sum": "rsum", "mean": "rmean", "amax": "ramax", "amin": "ramin", "first": "rfirst", "l2": "rl2"}
HALF_Q = {"powU": "HPowU", "powL": "HPowL", "spowU": "HSPowU", "spowL": "HSPowL", "mulU": "HMulU", "mulL": "HMulL",
          "smulU": "HSMulU", "smulL": "HSMulL", "sharpU": "HSharpU", "sharpL": "HSharpL"}
FULL_Q = {"pow": "FPow", "spow": "FSPow", "mul": "FMul", "smul": "FSMul", "sharp": "FSharp"}


def q_red(r):
    return "None" if r is None else f"(Some {RED_Q[r]})"


def q_kern(table, k):
    if k is None:
        return "None"
    return "(Some (" + " ".join([table[k[0]], "FN"] + [F.coq_float(float(x)) for x in k[1:]]) + "))"


def q_op(op):
    k = op[0]
    b = F.coq_bool
    if k == "add":
        return f"OpAdd FN {op[1]} {q_ot(op[2])} {q_ot(op[3])}"
    if k == "addT":
        return f"OpAddT FN {op[1]} {q_ot(op[2])}"
    if k == "addpos":
        return f"OpAddPos FN {op[1]} {q_ot(op[2])}"
    if k == "addneg":
        return f"OpAddNeg FN {op[1]} {q_ot(op[2])}"
    if k in ("del", "delpos", "delneg", "getpos", "getneg", "accupdate", "accforward"):
        c = {"del": "OpDel", "delpos": "OpDelPos", "delneg": "OpDelNeg", "getpos": "OpGetPos", "getneg": "OpGetNeg",
             "accupdate": "OpAccUpdate", "accforward": "OpAccForward"}[k]
        return f"{c} FN {op[1]}"
    if k == "reduction":
        return f"OpReduction FN {op[1]} {q_red(op[2])}"
    if k in ("upper", "lower"):
        return f"{'OpUpper' if k == 'upper' else 'OpLower'} FN {op[1]} {q_kern(HALF_Q, op[2])} {q_of(op[3])}"
    if k == "full":
        return f"OpFull FN {op[1]} {q_kern(FULL_Q, op[2])} {q_of(op[3])} {q_of(op[4])}"
    if k == "update":
        return f"OpUpdate FN {b(op[1])}"
    if k == "updatesome":
        return f"OpUpdateSome FN {q_names(op[1])} {b(op[2])}"
    if k == "clear":
        return "OpClear FN"
    if k == "apply":
        return f"OpApply FN {q_names(op[1])}"
    if k == "setparam":
        return f"OpSetParam FN {op[1]} {q_t(op[2])}"
    if k == "newupdater":
        return f"OpNewUpdater FN {q_names(op[1])} {q_red(op[2])}"
    if k == "delupdater":
        return "OpDelUpdater FN"
    raise AssertionError(k)


def q_case(case):
    ps = F.coq_list([f"({p[0]}, {q_t(p[2])})" for p in case["params"]])
    cells = q_names(trainer_cells(case))
    ops = [f"OpTrainerUpdate FN {cells}" if o[0] == "tupdate" else q_op(o) for o in case["ops"]]
    return f"run_case {ps} {F.coq_list(ops)}"


# ------------------------------------------------------------------ comparison model <-> implementation
def is_f(x):
    return isinstance(x, list) and len(x) == 4 and x[0] == "F"


def fval(x):
    return F.dec_float(x[1:])


def has_nan(x):
    if is_f(x):
        return x[1] == 3
    if isinstance(x, list):
        return any(has_nan(y) for y in x)
    return False


def model_has_nan(im, mo):
    """walk the implementation's structure (which tags floats) over the model tree"""
    if is_f(im):
        return isinstance(mo, list) and len(mo) == 3 and mo[0] == 3
    if isinstance(im, list) and isinstance(mo, list) and len(im) == len(mo):
        return any(model_has_nan(a, b) for a, b in zip(im, mo))
    return False


def same(im, mo, pow_domain=False):
    """pow_domain: a NaN on either side matches any value.  x**y with x < 0 is outside the domain Num.pow is
    specified for (torch gives a number for integer y, the model NaN); and under power dependence a base within a few
    ulp of 0 can have different signs in the implementation and in the model (whose exp/ln differ from libm in the last
    bits), so that only one side is NaN"""
    if is_f(im):
        if not (isinstance(mo, list) and len(mo) == 3 and all(isinstance(z, int) for z in mo)):
            return False
        if pow_domain and (mo[0] == 3 or im[1] == 3):
            return True
        return F.close(fval(im), F.dec_float(mo))
    if isinstance(im, list):
        return isinstance(mo, list) and len(im) == len(mo) and all(same(a, b, pow_domain) for a, b in zip(im, mo))
    return im == mo


def uses_pow(case):
    for o in case["ops"]:
        if o[0] in ("upper", "lower", "full") and o[2] is not None and "pow" in o[2][0]:
            return True
    return False


ASSIGN = ("update", "updatesome", "apply", "setparam", "tupdate")


def compact(op, rec):
    """the implementation's record of one step in the compact form the model prints (UpdaterExec.trace)"""
    out, (ps, u) = rec
    if op[0] == "tupdate" and out[0] == 0:
        out = [0, [0]]          # [3, n]: n (applications of the second connection's updater) is judged by the oracle
    small = [] if not u else [[[a[0], len(a[1]), len(a[2]), a[3], a[4]] for a in u[0]]]
    return [out, ps if op[0] in ASSIGN else [], small]


def compare(case, ti, tm):
    """(None, cut) when the traces agree; else a description of the first difference.  Comparison stops after the
    first step that shows a NaN (x**y with a negative base is outside the domain Num.pow is specified for)."""
    steps, final = tm
    if len(ti) != len(steps):
        return {"detail": "trace lengths differ", "impl": len(ti), "model": len(steps)}, False
    prev = [[p[0], [["F"] + c10_fhex(v) for v in p[2]]] for p in case["params"]]
    for j, (rec, b) in enumerate(zip(ti, steps)):
        op = case["ops"][j]
        if rec[0][0] == 1 and len(rec[0]) > 2:
            return {"first_diff_step": j, "op": op, "impl": rec[0], "model": b[0]}, False
        a = compact(op, rec)
        nan_i, nan_m = has_nan(a), model_has_nan(a, b)
        if not same(a, b, pow_domain=((nan_m or nan_i) and uses_pow(case))):
            return {"first_diff_step": j, "op": op, "impl": a, "model": b}, False
        if nan_m:
            return None, True
        if op[0] not in ASSIGN and rec[1][0] != prev:
            return {"first_diff_step": j, "op": op, "detail": "parameters changed by an operation that assigns none",
                    "before": prev, "after": rec[1][0]}, False
        prev = rec[1][0]
        if nan_i or has_nan(rec[1]):
            return None, True
    if ti and not same(ti[-1][1], final):
        return {"detail": "final states differ", "impl": ti[-1][1], "model": final}, False
    return None, False


def c10_fhex(x):
    """exact float -> [kind, mantissa, exponent] (same normal form as tools/impl/common.fhex)"""
    x = float(x)
    if x != x:
        return [3, 0, 0]
    if x in (math.inf, -math.inf):
        return [1 if x > 0 else 2, 0, 0]
    if x == 0:
        return [0, 0, 0]
    m, e = math.frexp(x)
    mi = int(m * (1 << 53))
    e -= 53
    while mi % 2 == 0:
        mi //= 2
        e += 1
    return [0, mi, e]


# ------------------------------------------------------------------ direct oracle (plain Python, no torch, no Coq)
TOL_R, TOL_A = 1e-9, 1e-12


def close(a, b):
    return F.close(a, b, TOL_R, TOL_A)


def closev(a, b):
    return len(a) == len(b) and all(close(x, y) for x, y in zip(a, b))


class Unjudged(Exception):
    pass


def ppow(x, y):
    if x != x or y != y:
        return math.nan
    if x == 0:
        return 1.0 if y == 0 else (0.0 if y > 0 else math.inf)
    if x < 0 and y != int(y):
        return math.nan
    try:
        return math.pow(x, y)
    except (OverflowError, ValueError):
        return math.nan


def theta(d):
    # gate of sharp dependence as the code computes it: torch.heaviside(d, 0) -- closed AT the limit
    # (the docstring writes Theta(0) = 1; the property statement "never further beyond a limit it has reached"
    #  is the behaviour of the code)
    return 1.0 if d > 0 else 0.0


def half_formula(kern, x, u, lim):
    """documented formulas of the ten half-bounding functions"""
    k = kern[0]
    if lim is None:
        raise Unjudged
    d = (lim - x) if k.endswith("U") else (x - lim)
    base = k[:-1]
    if base == "pow":
        return ppow(d, kern[1]) * u
    if base == "spow":
        return ppow(d / kern[2], kern[1]) * u
    if base == "mul":
        return d * u
    if base == "smul":
        return d / kern[1] * u
    if base == "sharp":
        return theta(d) * u
    raise AssertionError(k)


def full_parts(kern, mx, mn, x, p, n):
    """(upper-bounded potentiation, lower-bounded depression) of the five full-bounding functions"""
    k = kern[0]
    if k in ("spow", "smul") and (mx is None) != (mn is None):
        raise Unjudged
    up = p
    lo = n
    if k == "pow":
        hk_u, hk_l = ["powU", kern[1]], ["powL", kern[2]]
    elif k == "spow":
        rg = None if mx is None else mx - mn
        hk_u, hk_l = ["spowU", kern[1], rg], ["spowL", kern[2], rg]
    elif k == "mul":
        hk_u, hk_l = ["mulU"], ["mulL"]
    elif k == "smul":
        rg = None if mx is None else mx - mn
        hk_u, hk_l = ["smulU", rg], ["smulL", rg]
    else:
        hk_u, hk_l = ["sharpU"], ["sharpL"]
    if mx is not None:
        up = half_formula(hk_u, x, p, mx)
    if mn is not None:
        lo = half_formula(hk_l, x, n, mn)
    return up, lo


def reduce_col(red, col):
    if red in (None, "sum"):
        return math.fsum(col)
    if red == "mean":
        return math.fsum(col) / len(col)
    if red == "amax":
        return max(col)
    if red == "amin":
        return min(col)
    if red == "first":
        return col[0]
    if red == "l2":
        return math.sqrt(math.fsum(c * c for c in col))
    raise AssertionError(red)


def reduce_parts(red, parts):
    if not parts:
        return None
    n = len(parts[0])
    if any(len(p) != n for p in parts):
        raise Unjudged
    return [reduce_col(red, [p[j] for p in parts]) for j in range(n)]


class SpecAcc:
    def __init__(self, red):
        self.pos, self.neg = [], []
        self.red = red
        self.bind = ("default",)
        self.cached = {"pos": False, "neg": False}
        self.stale = {}          # side -> reduction in force when the cached value was computed

    def parts(self, side):
        return self.pos if side == "pos" else self.neg

    def touch(self, side):
        self.cached[side] = False
        self.stale.pop(side, None)

    def reduced(self, side, red=None):
        return reduce_parts(self.red if red is None else red, self.parts(side))

    def delta(self, x, p, n):
        """the update U(reduce pos) - L(reduce neg); a missing side contributes nothing"""
        if p is None and n is None:
            return None
        m = len(p if p is not None else n)
        p = p if p is not None else [0.0] * m
        n = n if n is not None else [0.0] * m
        b = self.bind
        if b[0] != "default" and not (b[0] == "full" and b[2] is None and b[3] is None) and not (
                b[0] == "half" and b[1] is None and b[2] is None):
            if len(x) != m:
                raise Unjudged
        if len(p) != len(n):
            raise Unjudged
        out = []
        for j in range(m):
            if b[0] == "default":
                up, lo = p[j], n[j]
            elif b[0] == "full":
                up, lo = full_parts(b[1], b[2], b[3], x[j] if j < len(x) else 0.0, p[j], n[j])
            else:
                xj = x[j] if j < len(x) else None
                if (b[1] is not None or b[2] is not None) and xj is None:
                    raise Unjudged
                up = p[j] if b[1] is None else half_formula(b[1][0], xj, p[j], b[1][1])
                lo = n[j] if b[2] is None else half_formula(b[2][0], xj, n[j], b[2][1])
            out.append(up - lo)
        return out


def range_claim(acc):
    """(mx, mn, cap) when the binding is one for which the property claims the range invariant"""
    b = acc.bind
    if b[0] == "full" and b[2] is not None and b[3] is not None and b[2] > b[3]:
        k = b[1]
        if k[0] == "mul":
            return b[2], b[3], 1.0
        if k[0] == "smul":
            return b[2], b[3], b[2] - b[3]
        if k[0] == "spow" and k[1] >= 1 and k[2] >= 1:
            return b[2], b[3], b[2] - b[3]
    if b[0] == "half" and b[1] is not None and b[2] is not None:
        (ku, mx), (kl, mn) = b[1], b[2]
        if mx is None or mn is None or not mx > mn:
            return None
        if ku[0] == "mulU" and kl[0] == "mulL":
            return mx, mn, 1.0
        if ku[0] == "smulU" and kl[0] == "smulL" and close(ku[1], mx - mn) and close(kl[1], mx - mn):
            return mx, mn, mx - mn
        if ku[0] == "spowU" and kl[0] == "spowL" and close(ku[2], mx - mn) and close(kl[2], mx - mn) \
                and ku[1] >= 1 and kl[1] >= 1:
            return mx, mn, mx - mn
    return None


def sharp_limits(acc):
    """limits guarded by a sharp gate, for the pure sharp configurations (full sharp, or sharp / identity slots):
    with another kernel in the opposite slot the opposite part need not be non-negative"""
    b = acc.bind
    mx = mn = None
    if b[0] == "full" and b[1][0] == "sharp":
        mx, mn = b[2], b[3]
    if b[0] == "half":
        up_ok = b[1] is None or b[1][0][0] == "sharpU"
        lo_ok = b[2] is None or b[2][0][0] == "sharpL"
        if up_ok and lo_ok:
            if b[1] is not None:
                mx = b[1][1]
            if b[2] is not None:
                mn = b[2][1]
    return mx, mn


def dec_t(t):
    return [fval(v) for v in t]


class Oracle:
    """replays the operations against the property statement and judges the implementation's trace"""

    def __init__(self, case, report_stale, report_float_nan=False):
        self.case = case
        self.P = {p[0]: list(map(float, p[2])) for p in case["params"]}
        self.cells = trainer_cells(case)
        self.U = None
        self.fail = None
        self.stale_obs = 0
        self.mode, self.stale_hits = "fresh", 0
        self.report_stale = report_stale
        self.float_nan_obs = 0
        self.report_float_nan = report_float_nan
        self.checks = Counter()

    def bad(self, step, kind, **kw):
        if self.fail is None:
            self.fail = dict(step=step, op=self.case["ops"][step], kind=kind, **kw)

    def resync(self, snap):
        ps, u = snap
        for i, t in ps:
            self.P[i] = dec_t(t)
        if not u:
            self.U = None
            return
        old = self.U or {}
        new = {}
        for i, pos, neg, cp, cn in u[0]:
            a = old.get(i) or SpecAcc(None)
            a.pos, a.neg = [dec_t(t) for t in pos], [dec_t(t) for t in neg]
            for side, fl in (("pos", cp), ("neg", cn)):
                if not fl:
                    a.touch(side)
                a.cached[side] = bool(fl)
            new[i] = a
        self.U = new

    # value of one side as the property demands it.  Accumulator.reduction() does not clear the cached
    # reductions: when a reduction was changed after a read, the judgement is first made with the fresh value; only if
    # that fails it is repeated with the value cached under the old reduction (see with_stale_retry)
    def side_value(self, step, a, side):
        fresh = a.reduced(side)
        if side in a.stale and a.cached[side]:
            old = a.reduced(side, a.stale[side])
            differs = not ((fresh is None and old is None) or (fresh is not None and old is not None and closev(fresh, old)))
            if differs:
                self.stale_hits += 1
                if self.mode == "stale":
                    return old
        a.cached[side] = True
        return fresh

    def with_stale_retry(self, j, fn):
        if self.fail is not None:
            return fn()
        st = (copy.deepcopy(self.P), copy.deepcopy(self.U), Counter(self.checks))
        self.mode, self.stale_hits = "fresh", 0
        fn()
        if self.fail is not None and self.stale_hits:
            fresh_fail = self.fail
            self.P, self.U, self.checks, self.fail = st[0], st[1], st[2], None
            self.mode = "stale"
            try:
                fn()
            finally:
                self.mode = "fresh"
            if self.fail is None:
                self.stale_obs += 1          # the implementation used the stale cached reduction
                if self.report_stale:
                    self.fail = dict(step=j, op=self.case["ops"][j], kind="stale_reduction_cache",
                                     judged_with_current_reduction=fresh_fail)
            else:
                self.fail = fresh_fail

    def judge_trainer_raise(self, j, out):
        """trainer.update() raised: legitimate only if applying one of the accumulators raises (malformed parts, None
        limits); otherwise the trainer-level route is broken"""
        saved = (copy.deepcopy(self.P), copy.deepcopy(self.U))
        ok = True
        try:
            if 0 in self.cells and self.U is not None:
                for i in self.U:
                    a, p, n, d = self.expect_apply(j, i, self.P[i])
                    if d is not None and len(d) != len(self.P[i]):
                        raise Unjudged
        except (Unjudged, KeyError, TypeError):
            ok = False
        self.P, self.U = saved
        if ok:
            self.bad(j, "trainer_update_raised", raised=out[1:], cells=self.cells)

    def expect_apply(self, step, i, x):
        a = self.U[i]
        p = self.side_value(step, a, "pos")
        n = self.side_value(step, a, "neg")
        d = a.delta(x, p, n)
        return a, p, n, d

    def judge_apply(self, step, i, before, after):
        """before/after: parameter values around one application to parameter i"""
        a, p, n, d = self.expect_apply(step, i, before)
        if d is None:
            self.checks["empty_noop"] += 1
            if after != before:
                self.bad(step, "empty_noop", param=i, before=before, after=after)
            return
        if len(d) != len(before):
            raise Unjudged
        exp = [x + y for x, y in zip(before, d)]
        rc0 = range_claim(a)
        if rc0 is not None and any(v != v for v in after) and not any(v != v for v in before):
            # binary64 only (the real-number theorem scaled_power_stays_in_range holds): rounding carried the parameter
            # a few ulp beyond a limit, the next base of the fractional power is negative, the parameter becomes NaN
            mx0, mn0, cap0 = rc0
            eps0 = 1e-12 * (1 + abs(mx0) + abs(mn0))
            m0 = len(before)
            mags = (p if p is not None else [0.0] * m0) + (n if n is not None else [0.0] * m0)
            if all(mn0 - eps0 <= x <= mx0 + eps0 for x in before) and all(0 <= v <= cap0 * (1 + 1e-12) for v in mags):
                self.float_nan_obs += 1
                if self.report_float_nan:
                    self.bad(step, "float_range_nan", param=i, before=before, after=after, limits=[mx0, mn0], bind=a.bind)
        if any(v != v for v in exp) or any(v != v for v in after):
            raise Unjudged
        self.checks["apply_value"] += 1
        if not closev(exp, after):
            self.bad(step, "apply_value", param=i, before=before, expected=exp, after=after, pos=p, neg=n,
                     bind=a.bind, red=a.red)
        m = len(before)
        pz = p if p is not None else [0.0] * m
        nz = n if n is not None else [0.0] * m
        rc = range_claim(a)
        if rc is not None:
            mx, mn, cap = rc
            eps = 1e-12 * (1 + abs(mx) + abs(mn))
            ok_in = all(mn - eps <= x <= mx + eps for x in before) and all(0 <= v <= cap * (1 + 1e-12) for v in pz + nz)
            if ok_in:
                self.checks["range_invariant"] += 1
                if not all(mn - eps <= y <= mx + eps for y in after):
                    self.bad(step, "range_invariant", param=i, before=before, after=after, limits=[mx, mn])
        mx, mn = sharp_limits(a)
        if (mx is not None or mn is not None) and all(v >= 0 for v in pz + nz):
            for x, y in zip(before, after):
                if mx is not None and x >= mx:
                    self.checks["sharp_upper"] += 1
                    if y > x:
                        self.bad(step, "sharp_further", param=i, before=x, after=y, limit=mx)
                if mn is not None and x <= mn:
                    self.checks["sharp_lower"] += 1
                    if y < x:
                        self.bad(step, "sharp_further", param=i, before=x, after=y, limit=mn)

    def step(self, j, op, out, snap):
        k = op[0]
        raised = out[0] == 1
        U = self.U
        params_after = {i: dec_t(t) for i, t in snap[0]}
        try:
            if raised and k == "tupdate":
                self.judge_trainer_raise(j, out)
            if raised:
                raise Unjudged
            if k == "newupdater":
                self.U = {i: SpecAcc(op[2]) for i in op[1]}
            elif k == "delupdater":
                self.U = None
            elif k == "setparam":
                self.P[op[1]] = list(map(float, op[2]))
            elif k in ADDS:
                a = U[op[1]]
                if k == "add":
                    pn = (op[2], op[3])
                elif k == "addT" or k == "addpos":
                    pn = (op[2], None)
                else:
                    pn = (None, op[2])
                if pn[0] is not None:
                    a.pos.append(list(map(float, pn[0]))); a.touch("pos")
                if pn[1] is not None:
                    a.neg.append(list(map(float, pn[1]))); a.touch("neg")
            elif k in ("del", "delpos", "delneg"):
                a = U[op[1]]
                if k != "delneg":
                    a.pos = []; a.touch("pos")
                if k != "delpos":
                    a.neg = []; a.touch("neg")
            elif k == "clear":
                for a in (U or {}).values():
                    a.pos, a.neg = [], []
                    a.touch("pos"); a.touch("neg")
            elif k == "reduction":
                a = U[op[1]]
                new = op[2]
                if (new or "sum") != (a.red or "sum"):
                    for side in ("pos", "neg"):
                        if a.cached[side] and side not in a.stale:
                            a.stale[side] = a.red or "sum"
                a.red = new
            elif k in ("upper", "lower"):
                a = U[op[1]]
                u, l = (a.bind[1], a.bind[2]) if a.bind[0] == "half" else (None, None)
                slot = None if op[2] is None else (op[2], op[3])
                a.bind = ("half", slot, l) if k == "upper" else ("half", u, slot)
            elif k == "full":
                a = U[op[1]]
                a.bind = ("default",) if op[2] is None else ("full", op[2], op[3], op[4])
            elif k in ("getpos", "getneg"):
                def body():
                    a = self.U[op[1]]
                    side = "pos" if k == "getpos" else "neg"
                    exp = self.side_value(j, a, side)
                    got = None if out[1][0] == 1 else dec_t(out[1][1])
                    self.checks["reduce_value"] += 1
                    if (exp is None) != (got is None) or (exp is not None and not (
                            closev(exp, got) or any(v != v for v in exp + got))):
                        self.bad(j, "reduce_value", expected=exp, got=got, red=a.red)
                self.with_stale_retry(j, body)
            elif k in ("accupdate", "accforward"):
                def body():
                    i = op[1]
                    x = self.P[i]
                    a, p, n, d = self.expect_apply(j, i, x)
                    got = None if out[1][0] == 1 else dec_t(out[1][1])
                    if k == "accforward":
                        d = x if d is None else ([u + v for u, v in zip(x, d)] if len(d) == len(x) else None)
                        if d is None:
                            raise Unjudged
                    self.checks["output_value"] += 1
                    if (d is None) != (got is None) or (d is not None and not (
                            closev(d, got) or any(v != v for v in d + got))):
                        self.bad(j, "output_value", expected=d, got=got, bind=a.bind, red=a.red)
                self.with_stale_retry(j, body)
            elif k == "tupdate":
                # CellTrainer.update(**kwargs): every DISTINCT updater among the registered cells is applied exactly once
                # (cells without an updater are skipped), nothing is cleared, keyword arguments change nothing
                def body():
                    U = self.U
                    names = list(U.keys()) if (U is not None and 0 in self.cells) else []
                    for i in names:
                        self.judge_apply(j, i, self.P[i], params_after[i])
                        self.P[i] = params_after[i]
                self.with_stale_retry(j, body)
                self.checks["trainer_update"] += 1
                napp = out[1][1] if (isinstance(out[1], list) and len(out[1]) == 2 and out[1][0] == 3) else None
                want = 1 if 1 in self.cells else -1
                if napp != want:
                    self.bad(j, "trainer_second_updater_applications", expected=want, got=napp, cells=self.cells)
            elif k in ("update", "updatesome", "apply"):
                def body():
                    U = self.U
                    if U is None:
                        names = []
                    elif k == "update" or (k == "apply" and not op[1]):
                        names = list(U.keys())
                    else:
                        names = op[1]
                    clear = op[1] if k == "update" else (op[2] if k == "updatesome" else False)
                    for i in names:
                        before = self.P[i]
                        self.judge_apply(j, i, before, params_after[i])
                        self.P[i] = params_after[i]
                        if clear and k == "updatesome":
                            a = self.U[i]
                            a.pos, a.neg = [], []
                            a.touch("pos"); a.touch("neg")
                    if clear and k == "update":
                        for a in (U or {}).values():
                            a.pos, a.neg = [], []
                            a.touch("pos"); a.touch("neg")
                self.with_stale_retry(j, body)
            else:
                raise AssertionError(k)
            # frame: parameters the operation does not apply to are bit-identical
            for i, v in params_after.items():
                if i in self.P and self.P[i] != v:
                    if any(z != z for z in v):
                        raise Unjudged
                    self.bad(j, "frame", param=i, expected=self.P[i], after=v)
                    self.P[i] = v
            # pending parts are exactly what was contributed
            if self.U is not None and snap[1]:
                for i, pos, neg, _, _ in snap[1][0]:
                    a = self.U.get(i)
                    if a is not None and ([dec_t(t) for t in pos] != a.pos or [dec_t(t) for t in neg] != a.neg):
                        self.bad(j, "pending_parts", param=i)
                        self.resync(snap)
        except (Unjudged, KeyError, TypeError):
            self.checks["unjudged_steps"] += 1
            self.resync(snap)


def oracle_case(case, trace, report_stale=False, report_float_nan=False):
    o = Oracle(case, report_stale, report_float_nan)
    for j, (op, (out, snap)) in enumerate(zip(case["ops"], trace)):
        o.step(j, op, out, snap)
        if has_nan(snap):
            break
    return o


def perm_compare(case, t0, t1):
    """order independence: same parameters after every operation, same outputs of the non-contribution operations"""
    v = None
    for j, ((o0, s0), (o1, s1)) in enumerate(zip(t0, t1)):
        if has_nan(s0) or has_nan(s1):
            return None
        if case["ops"][j][0] == "add":
            continue
        if o0[0] != o1[0]:
            return {"step": j, "kind": "order_dependence", "detail": "one order raised", "a": o0, "b": o1}
        ps0 = [dec_t(t) for _, t in s0[0]]
        ps1 = [dec_t(t) for _, t in s1[0]]
        if not all(closev(a, b) for a, b in zip(ps0, ps1)):
            return {"step": j, "kind": "order_dependence", "op": case["ops"][j], "a": ps0, "b": ps1}
        if o0[0] == 0 and len(o0[1]) == 2 and len(o1[1]) == 2 and o0[1][0] == 2 and o1[1][0] == 2:
            a, b = dec_t(o0[1][1]), dec_t(o1[1][1])
            if not closev(a, b) and not any(z != z for z in a + b):
                return {"step": j, "kind": "order_dependence", "op": case["ops"][j], "a": a, "b": b}
    return v


def is_nontrivial(case):
    kinds = {o[0] for o in case["ops"]}
    return len(case["ops"]) >= 4 and "add" in kinds and bool(kinds & {"update", "updatesome", "apply", "tupdate"})


def listed(kind):
    """a behaviour outside / at the edge of the property statement is reported as an oracle failure (and then printed
    as KNOWN-FINDING) only once known_findings.json lists it; until then it is counted in the evidence"""
    for k in F.load_known().get("findings", []):
        if k.get("property") == ID and (k.get("match") or {}).get("kind") == kind:
            return True
    return False


def stale_listed():
    return listed("stale_reduction_cache")


def run(ctx):
    rng = random.Random(ctx["seed"])
    n = 500 if ctx["tier"] == "quick" else 5000
    base = load_corpus() + gen_cases(rng, n)
    if ctx["tier"] == "thorough":
        base += exhaustive_cases(3)
    cases = list(base)
    variants = []          # (index of original, index of variant)
    for idx, c in enumerate(base):
        if c.get("stream") in ("smooth", "sharp", "history", "sharpcase", "trainer") and not has_asym_red(c) and rng.random() < 0.5:
            v = perm_variant(c, rng)
            if v is not None:
                v = dict(v, stream=c["stream"] + "+perm")
                variants.append((idx, len(cases)))
                cases.append(v)
    impl = F.run_impl(IMPL, {"cases": cases})
    # the executable instance is no dependency of the obligations: (re)build it against the kernels just translated
    with F.BuildLock():
        F.make(["C10/UpdaterExec.vo"], timeout=600)
        # informational binary64 witness of the float_range_nan behaviour (not an obligation; see C10/FloatWitness.v)
        witness_ok, _ = F.make(["C10/FloatWitness.vo"], timeout=300)
    model = F.eval_terms(ID, HEADER, [q_case(c) for c in cases], shard=max(8, len(cases) // (2 * F.JOBS) + 1))
    report_stale = stale_listed()
    report_nan = listed("float_range_nan")
    float_nan_obs = 0
    mismatches, oracle_fail = [], []
    checks = Counter()
    nan_cut = 0
    stale_obs = 0
    for c, ti, tm in zip(cases, impl, model):
        if isinstance(tm, Exception):
            mismatches.append({"case": c, "detail": str(tm)})
        else:
            d, cut = compare(c, ti, tm)
            nan_cut += bool(cut)
            if d is not None:
                mismatches.append({"case": c, "detail": d})
        o = oracle_case(c, ti, report_stale, report_nan)
        checks.update(o.checks)
        stale_obs += o.stale_obs
        float_nan_obs += o.float_nan_obs
        if o.fail is not None:
            oracle_fail.append({"case": c, "detail": o.fail, "signature": {"kind": o.fail["kind"]}})
    for i0, i1 in variants:
        d = perm_compare(cases[i0], impl[i0], impl[i1])
        checks["order_pairs"] += 1
        if d is not None:
            oracle_fail.append({"case": {"pair": [cases[i0], cases[i1]], "stream": "perm-pair"}, "detail": d,
                                "signature": {"kind": "order_dependence"}})
    dist = Counter(o[0] for c in cases for o in c["ops"])
    errs = Counter(("err%d" % t[0][1]) for tr in impl for t in tr if t[0][0] == 1)
    return {
        "evaluations": len(cases),
        "distinct_nontrivial": len({json.dumps(c, sort_keys=True) for c in cases if is_nontrivial(c)}),
        "rule": "seeded Updater/Accumulator operation sequences on a real LinearDense connection or a minimal Updatable "
                "module (1-3 parameters, 5 shapes): general streams (23 operation kinds, incl. CellTrainer.update() for a trainer with "
                "0-3 cells sharing the connection's updater, a cell of a second connection and a cell without updater; dyadic 'sharp' flavour and decimal "
                "'smooth' flavour with power kernels, mean, l2), a malformed stream (wrong part sizes, unknown names, None "
                "limits, missing updater), long update histories (up to 40 rounds) under range-preserving dependence, sharp "
                "cases on/beyond the limits, and order-permuted twins of half of the cases; non-trivial = >=4 ops with a "
                "contribution and an application; distinct by full case text"
                + ("; plus every sequence of depth<=3 over a 12-operation alphabet on one parameter" if ctx["tier"] == "thorough" else ""),
        "op_distribution": dict(dist), "error_distribution": dict(errs),
        "stream_distribution": dict(Counter(c.get("stream", "corpus") for c in cases)),
        "oracle_checks": dict(checks),
        "comparisons_cut_at_nan": nan_cut,
        "stale_reduction_cache_observations": stale_obs,
        "float_range_nan_observations": float_nan_obs,
        "float_range_nan_witness_checked_in_coq": bool(witness_ok),
        "samples": cases[:2],
        "mismatches": mismatches, "oracle_failures": oracle_fail,
        "traces_validated_against_impl": len(cases) - len(mismatches),
    }


def load_corpus():
    import glob
    out = []
    for p in sorted(glob.glob(os.path.join(F.VERIF, "corpus", ID, "*.json"))):
        out.append(json.load(open(p)))
    return out


def _fails(case):
    if "pair" in case:
        a, b = case["pair"]
        t = F.run_impl(IMPL, {"cases": [a, b]})
        return perm_compare(a, t[0], t[1])
    t = F.run_impl(IMPL, {"cases": [case]})[0]
    return oracle_case(case, t, stale_listed(), listed("float_range_nan")).fail


def minimise(case, rounds=12):
    """drop operations after the failing step, then delta-debug the prefix"""
    if "pair" in case:
        return case, _fails(case)
    d = _fails(case)
    if d is None:
        return case, None
    ops = case["ops"][: d["step"] + 1]
    for _ in range(rounds):
        n = len(ops)
        if n <= 2:
            break
        chunk = max(1, n // 6)
        cands = [ops[:a] + ops[a + chunk:] for a in range(0, n - 1, chunk)]
        cands = [c for c in cands if c]
        tr = F.run_impl(IMPL, {"cases": [dict(case, ops=c) for c in cands]})
        better = None
        for c, t in zip(cands, tr):
            if oracle_case(dict(case, ops=c), t, stale_listed(), listed("float_range_nan")).fail is not None:
                better = c
                break
        if better is None:
            if chunk == 1:
                break
            continue
        ops = better
    c = dict(case, ops=ops)
    d = _fails(c)
    if d is not None:
        c = dict(c, ops=c["ops"][: d["step"] + 1])
    return c, d


def replay(case):
    d = _fails(case)
    if d is None:
        return True, "replay: the implementation satisfies the Updater property statement on this case"
    return False, "replay: still failing: " + repr(d)[:1500]
