"""C04 - synapse currents equal the impulse-response sum; delayed reads see the past.
Case generator, Coq rendering, model/implementation comparison, direct oracle (explicit convolution of the
observed spike train with the documented response + list-of-past-values reading of current_at / spike_at)."""
from __future__ import annotations
import math, os, random
from collections import Counter
from fractions import Fraction
import framework as F

ID = "C04"
GEN = ["Infra", "Interpolation", "SynapseClasses"]
LEVEL = "proof"
TECHNIQUE = ("Coq proof: the four synapse step functions are scans whose closed forms are the documented impulse-response "
             "sums (induction over the spike train, reals); the spike/current records are C01 rings, so a delayed read is "
             "an index into the list of past values (C01 hist_push lifted over runs); select/overbound arithmetic "
             "(round/ceil/floor/clamp) characterised on and off the step grid; model tied to the code by re-translating "
             "the interpolation kernels, recordsz and _unwind_ptr and by differential correspondence with the real classes")
LEVEL_TEXT = ("Machine-checked proofs (Coq; reals axioms only) about a branch-by-branch model of DeltaCurrent, DeltaPlusCurrent, "
              "SingleExponentialCurrent, DoubleExponentialCurrent, _synparam_at and the tensor path of RecordTensor.select: "
              "closed forms of the current for every spike train and injected current, spike record = input, "
              "value recorded k steps ago for every k < record size, on-grid / off-grid / beyond-range reads, "
              "in-place = out-of-place, clear = resting state; the per-element formulas and call structure of the four classes "
              "(forward: spike conversion, value pushed to each current record, records written; the current getters; clear; "
              "_synparam_at's clamp and overbound decision; the double exponential's current_at) are GENERATED from the "
              "classes on every run (Gen/SynapseClasses.v) and proved equal to the model's (tie_* obligations, one file per "
              "class); run-time configuration changes (dt / delay setters = constructor "
              "state of the new configuration, in-place flag, invariant over mixed runs).  The model is run (vm_compute, binary64) against the real "
              "classes on seeded operation sequences; a Python convolution / list-of-past-values oracle states the property "
              "independently of the model.")
LEVEL_NOTE = ("Trusted: Coq kernel; translator (interp_previous/nearest/expdecay, recordsz_expr, _unwind_ptr, and the pattern-checked "
              "extractor of the synapse classes: per-element reading, self.<attr> reads as parameters, fails closed on any "
              "other statement shape); the parts of the hand-written model C04/Synapse.v that are NOT tied to generated code "
              "(record mechanics via C01, tensor shapes / broadcasting, the argument wiring of current_at / spike_at, the tensor "
              "path of RecordTensor.select - proved equal to C02's model by the xm_* obligations) validated by "
              "correspondence only; torch broadcasting/gather/where modelled by their meaning. Batch-size changes and reassignment "
              "of spike_charge / time constants mid-run, and the three construction paths (direct, partialconstructor, connection "
              "constructor), are covered by correspondence + oracle only. Floating-point rounding is not "
              "proved (theorems are exact-arithmetic statements). Defect found by this check and since repaired in /repo (10db8c5): "
              "with maximum delay 0 a selector carrying the trailing D axis made _synparam_at raise / mis-broadcast; the "
              "witnesses stay in corpus/C04.")
TRUSTED = ["hand-written model coq/C04/Synapse.v: its per-element formulas, written records, getters, clear, clamp / overbound "
           "decision and DoubleExponentialCurrent.current_at combination are proved equal to Gen/SynapseClasses.v (generated "
           "from the classes each run); what stays hand-written and tied by the correspondence check only: record mechanics, "
           "tensor shapes and torch expand/where broadcasting, which record / interpolation / overbound current_at and spike_at "
           "pass to _synparam_at, the transcription of the tensor-time path of RecordTensor.select",
           "the synapse-class extractor in tools/translate.py (translate_synapse_classes): reading of the accepted statement shapes",
           "C01 ring model (coq/C01/Ring.v) for RecordTensor.push/peek/reset - owned and validated by property C01"]
ASSUMES = ["theorems are exact-arithmetic (real number) statements; binary64 rounding is not modelled (the check compares the "
           "binary64 run of the same model with the implementation to 1e-9 relative)",
           "constructor preconditions: dt > 0, delay >= 0; tolerance 0 <= tol < dt/2 (so that 'within tolerance of a step' is unambiguous)",
           "selectors have the synapse's batched shape, optionally followed by one axis D; injected currents have the synapse's batched shape",
           "float64 default dtype on the implementation side"]
EXPLANATION = ("For every sequence of operations from the constructor the three records hold exactly the past values determined by the "
               "inputs since the last clear (Inv, run_inv: axiom-free, any record size / pointer / shape / write mode); those values "
               "are the documented impulse-response sums (closed forms by induction over the train); a delayed query returns the "
               "value k steps ago when within tolerance of k*dt, the class's interpolation between the bracketing past values "
               "otherwise (exact continuous-time response for the exponential classes), the overbound value / the value at the limit "
               "outside [-tol, delay+tol]; in-place and out-of-place runs are equal.")
HEADER = ("From Coq Require Import List ZArith Bool PrimFloat.\n"
          "From Inferno Require Import Base.Num Base.NumF C01.Ring C04.Synapse C04.Config C04.SynapseExec.\n"
          "Import ListNotations.\n")
IMPL = os.path.join(F.VERIF, "tools", "impl", "c04_impl.py")
CLSN = ["DeltaCurrent", "DeltaPlusCurrent", "SingleExponentialCurrent", "DoubleExponentialCurrent"]
# label of oracle failures on an undelayed record queried with a selector that has the trailing D axis (repaired
# upstream defect, /repo 10db8c5; witnesses are kept in corpus/C04 so that a regression is reported as a VIOLATION)
FINDING_SIG = {"kind": "undelayed_selector_D_axis"}


def nel(shape):
    n = 1
    for s in shape:
        n *= s
    return n


def is_dyadic(x, bits=12):
    fr = Fraction(x)
    return fr.denominator <= (1 << bits) and abs(fr.numerator) < (1 << 40)


# ------------------------------------------------------------------ generator
def gen_selector_vals(rng, cur, count, dyadic, focus=None):
    """cur: the configuration in force (dt, delay, tol); focus = (old delay, new delay) right after the maximum
    delay was re-assigned: most values then lie between the two, exactly at the new one, or just beyond it"""
    dt, delay, tol = cur["dt"], cur["delay"], cur["tol"]
    nmax = int(math.ceil(delay / dt)) + 1
    out = []
    for _ in range(count):
        r = rng.random()
        k = rng.randint(0, nmax)
        if focus is not None and rng.random() < 0.75:
            old, new = focus
            lo, hi = min(old, new), max(old, new)
            just = (tol + dt / 8) if dyadic else (tol + 0.11 * dt)
            v = rng.choice([new, new, (lo + hi) / 2, lo + 0.75 * (hi - lo), hi, lo, new + just, new + tol, hi + just,
                            old + just, new - dt / 8 if dyadic else new - 0.13 * dt])
            out.append(float(v))
            continue
        if r < 0.30:
            v = k * dt                                    # on the grid (possibly beyond the delay)
        elif r < 0.55:
            v = (k + rng.choice([0.25, 0.5, 0.75, 0.3, 0.7] if dyadic else [0.3, 0.7, 0.41])) * dt
        elif r < 0.65:
            v = delay + rng.choice([0.0, tol, tol + dt / 8, dt / 4, 3 * dt]) if dyadic else delay + rng.choice([0.0, 0.31 * dt, 3 * dt])
        elif r < 0.75:
            v = -rng.choice([0.0, tol, tol + dt / 8, dt, 5.0]) if dyadic else -rng.choice([0.0, 0.37 * dt, 5.0])
        elif r < 0.87 and dyadic:
            v = k * dt + rng.choice([-1, 1]) * rng.choice([tol, tol + dt / 16, tol / 2])   # at / around the tolerance
        elif r < 0.93:
            v = delay
        else:
            v = rng.choice([100.0, 0.0, dt])
        out.append(float(v))
    return out


# What a caller gets by leaving an optional argument out.  Read ONCE from the class docstrings / signatures of
# inferno/neural/synapses/{current,expcurrent}.py and hard-coded here (never read from the code at run time):
#   delay 0.0, interp_tol 0.0, current_overbound 0.0, spike_overbound False, batch_size 1, inplace False - docstring and
#   signature agree, for __init__ and partialconstructor of all four classes;
#   interp_mode (DeltaCurrent, DeltaPlusCurrent): "previous" - docstring and signature agree;
#   spike_interp_mode (SingleExponentialCurrent, DoubleExponentialCurrent): the SIGNATURES of __init__ and
#   partialconstructor say "previous", their four docstrings say ``"nearest"``.  The harness follows the signatures
#   ("previous": the value both construction paths and the two delta classes share); the docstring discrepancy is reported
#   to the lead, not enforced.  LinearDense's own defaults (delay=None -> maximum delay 0, batch_size=1) apply when the
#   synapse is built by a connection.
DEFAULTS = {"mode": 0, "tol": 0.0, "cur_ob": 0.0, "spk_ob": False, "delay": 0.0, "batch": 1, "inplace": False}
OMITTABLE = {"direct": ["mode", "tol", "cur_ob", "spk_ob", "delay", "batch", "inplace"],
             "partial": ["mode", "tol", "cur_ob", "spk_ob", "inplace"],
             "connection": ["mode", "tol", "cur_ob", "spk_ob", "inplace", "delay", "batch"]}

DELAY_MULS = [0, 0, 0, 1, 2, 3, 2.5, 1.5, 4, 0.5, 2.875, 2.25, 0.75, 1.125]


def gen_setter(rng, case, cur, malformed):
    """one configuration change at a random point of the run; updates cur (the configuration in force)"""
    cls, dyadic = case["cls"], case["dyadic"]
    k = rng.choice(["set_dt", "set_dt", "set_delay", "set_delay", "set_inplace", "set_batch", "set_Q"]
                   + (["set_tau"] if cls in (2, 3) else []) + (["set_tr"] if cls == 3 else []))
    if k == "set_dt":
        if malformed and rng.random() < 0.3:
            return ["set_dt", rng.choice([0.0, -1.0])]
        base = [1.0, 0.5, 0.25, 2.0] if dyadic else [1.3, 0.1, 0.7, 0.9]
        # also step times close to the present one (often the same number of stored steps)
        near = [cur["dt"] * m for m in ((0.875, 1.125, 0.75) if dyadic else (0.9, 1.1))]
        cands = [d for d in base + near + near if cur["tol"] <= d / 4 and d != cur["dt"]]
        v = float(rng.choice(cands or [cur["dt"]]))
        cur["focus"] = (cur["delay"], cur["delay"])
        cur["dt"] = v
        return ["set_dt", v]
    if k == "set_delay":
        if malformed and rng.random() < 0.3:
            return ["set_delay", -1.0]
        dt, d = cur["dt"], cur["delay"]
        if rng.random() < 0.6:
            # a different maximum delay needing the SAME number of stored steps (either direction, off the grid)
            n = int(math.ceil(d / dt)) or rng.choice([1, 2, 3])
            fr = [0.125, 0.25, 0.5, 0.75, 0.875, 1.0] if dyadic else [0.3, 0.6, 0.9, 1.0]
            cands = [(n - 1 + f) * dt for f in fr if (n - 1 + f) * dt != d]
            v = float(rng.choice(cands))
        else:
            v = float(rng.choice(DELAY_MULS) * dt)
        cur["focus"] = (d, v)
        cur["delay"] = v
        return ["set_delay", v]
    if k == "set_inplace":
        return ["set_inplace", rng.random() < 0.5]
    if k == "set_batch":
        v = rng.choice([1, 2, 3])
        cur["batch"] = v
        return ["set_batch", v]
    if k == "set_Q":
        return ["set_Q", rng.choice([1.0, 2.0, -1.5, 0.7, 3.0])]
    if k == "set_tau":
        v = rng.choice([5.0, 2.3, 8.0, 3.1]) if cls == 2 else cur["tr"] + rng.choice([0.5, 2.0, 6.0])
        cur["tau"] = v
        return ["set_tau", v]
    v = rng.choice([x for x in [0.5, 1.7, 0.3, 1.1] if x < cur["tau"] - 0.25] or [cur["tr"]])
    cur["tr"] = v
    return ["set_tr", v]


def gen_case(rng: random.Random, idx: int):
    malformed = idx % 6 == 5
    cls = rng.randrange(4)
    dyadic = rng.random() < 0.7
    dt = rng.choice([1.0, 0.5, 0.25]) if dyadic else rng.choice([1.3, 0.1, 0.7])
    dmul = rng.choice(DELAY_MULS)
    delay = float(dmul * dt)
    shape = rng.choice([[1], [2], [3], [2, 2], [2]])
    batch = rng.choice([1, 1, 2, 3])
    tol = rng.choice([0.0, 0.0, 0.25 * dt, 0.125 * dt]) if dyadic else rng.choice([0.0, 0.05 * dt])
    tau = rng.choice([5.0, 2.3, 0.8, 8.0])
    tr = rng.choice([0.5, 1.7, 0.3])
    if tau <= tr:
        tau = tr + 2.0
    case = {
        "cls": cls, "shape": shape, "batch": batch, "dt": dt, "delay": delay,
        "Q": rng.choice([1.0, 2.0, -1.5, 0.7]), "tau": tau, "tr": tr,
        "mode": rng.randrange(2), "tol": float(tol),
        "cur_ob": rng.choice([0.0, 0.0, None, 7.5, -1.0]), "spk_ob": rng.choice([False, False, None, True]),
        "inplace": rng.random() < 0.5, "float_in": rng.random() < 0.25, "nonbinary": False, "dyadic": dyadic,
        "malformed": malformed,
        # how the synapse is built: directly, through Class.partialconstructor(...), or by a connection's constructor
        "build": rng.choice(["direct", "direct", "partial", "partial", "connection"]),
    }
    if case["float_in"] and rng.random() < 0.3:
        case["nonbinary"] = True
    # optional arguments left out (the documented defaults are expected instead)
    case["omit"] = []
    if rng.random() < (0.7 if case["build"] == "direct" else 0.4):
        om = [a for a in OMITTABLE[case["build"]] if rng.random() < (0.6 if a == "mode" else 0.35)] \
            or [rng.choice(OMITTABLE[case["build"]])]
        for a in om:
            case[a] = DEFAULTS[a]
        case["omit"] = om
        delay, batch, tol = case["delay"], case["batch"], case["tol"]
    if case["build"] == "connection":      # LinearDense gives its synapse the flattened input shape
        shape = [nel(shape)]
        case["shape"] = shape
    setters = rng.random() < 0.45          # configuration changes at random points of the run
    cur = {"dt": dt, "delay": delay, "tol": float(tol), "batch": batch, "tau": tau, "tr": tr}
    ops = []
    nops = rng.randint(4, 22)
    p_spike = rng.choice([0.2, 0.5, 0.8])
    pending = []          # forced follow-up after a dt / delay re-assignment: use the synapse, then query around the limits
    for _ in range(nops + 8):
        if len(ops) >= nops and not pending:
            break
        full = [cur["batch"]] + shape
        n = nel(full)
        r = rng.random()
        if pending:
            what = pending.pop(0)
            if what == "step":
                xs = [rng.choice([0.5, 2.0, -1.0, 1.0]) if case["nonbinary"] else (1.0 if rng.random() < 0.7 else 0.0) for _ in range(n)]
                inj = [[rng.choice([0.5, -1.25, 2.0]) for _ in range(n)]] if cls == 1 and rng.random() < 0.5 else []
                ops.append(["step", full, xs, inj])
            else:
                ssh = list(full) if rng.random() < 0.4 else full + [rng.choice([2, 3, 4])]
                ops.append([what, ssh, gen_selector_vals(rng, cur, nel(ssh), dyadic, focus=cur.get("focus"))])
                if not pending:
                    cur.pop("focus", None)
        elif setters and rng.random() < 0.14:
            op = gen_setter(rng, case, cur, malformed)
            ops.append(op)
            if op[0] in ("set_dt", "set_delay") and "focus" in cur:
                pending = ["step"] * rng.randint(2, 5) + ["cur_at", "spk_at"] + (["pos_at"] if cls == 3 and rng.random() < 0.5 else [])
        elif r < 0.50:
            if case["nonbinary"]:
                xs = [rng.choice([0.0, 0.0, 1.0, 0.5, 2.0, -1.0]) for _ in range(n)]
            else:
                xs = [1.0 if rng.random() < p_spike else 0.0 for _ in range(n)]
            inj = []
            if cls == 1 and rng.random() < 0.6:
                inj = [[rng.choice([0.0, 0.5, -1.25, 2.0, 0.1]) for _ in range(n)] for _ in range(rng.choice([1, 1, 2]))]
            if malformed and rng.random() < 0.2:
                bad = full[:-1] + [full[-1] + 1]
                ops.append(["step", bad, [0.0] * nel(bad), []])
            else:
                ops.append(["step", full, xs, inj])
        elif r < 0.56:
            ops.append(["cur"])
        elif r < 0.60:
            ops.append(["spk"])
        elif r < 0.96:
            kind = rng.choice(["cur_at", "cur_at", "spk_at"] + (["pos_at", "neg_at"] if cls == 3 else []))
            if malformed and rng.random() < 0.3:
                ssh = rng.choice([full + [2, 1], full[:-1] if len(full) > 1 else full + [1, 1]])
            elif rng.random() < 0.5:
                ssh = list(full)
            else:
                ssh = full + [rng.choice([1, 2, 3])]
            ops.append([kind, ssh, gen_selector_vals(rng, cur, nel(ssh), dyadic)])
        else:
            ops.append(["clear"])
    case["ops"] = ops
    return case


def gen_cases(rng, n):
    return [gen_case(rng, i) for i in range(n)]


def default_probe_cases():
    """always run: every class x construction path with every optional argument except the maximum delay left out,
    used for a few steps and read back between steps (where the interpolation mode shows), on the grid and beyond"""
    out = []
    sels = [0.25, 0.5, 0.75, 1.25, 1.75, 2.0, 0.0, 3.0, 1.0, 2.5]
    trains = [[1.0, 0.0], [0.0, 1.0], [1.0, 1.0], [0.0, 0.0], [1.0, 0.0]]
    for cls in range(4):
        for build in ("direct", "partial", "connection"):
            om = [a for a in OMITTABLE[build] if a not in ("delay", "batch")] + (["batch"] if build != "partial" else [])
            ops = []
            for i, x in enumerate(trains):
                ops.append(["step", [1, 2], list(x), [[0.5, -1.25]] if cls == 1 and i % 2 else []])
                if i >= 2:
                    ops.append(["spk_at", [1, 2, len(sels) // 2], list(sels)])
                    ops.append(["cur_at", [1, 2, len(sels) // 2], list(sels)])
            case = {"cls": cls, "shape": [2], "batch": 1, "dt": 1.0, "delay": 2.0, "Q": 2.0, "tau": 5.0, "tr": 0.5,
                    "mode": 1, "tol": 0.25, "cur_ob": 7.5, "spk_ob": True, "inplace": True,
                    "float_in": False, "nonbinary": False, "dyadic": True, "malformed": False,
                    "build": build, "omit": om, "ops": ops}
            for a in om:
                case[a] = DEFAULTS[a]
            out.append(case)
    return out


def exhaustive_cases(maxlen=4):
    """small scope, thorough tier: every spike train of length <= maxlen for one synapse x the 4 classes x both
    interpolation modes, read back at every step of the grid, between steps and beyond the delay (delay = 2 dt)"""
    import itertools
    out = []
    sels = [0.0, 0.5, 1.0, 1.5, 2.0, 2.25, 2.5, 3.0, -0.25, -0.5]
    for cls in range(4):
        for mode in (0, 1):
            for L in range(1, maxlen + 1):
                for train in itertools.product([0.0, 1.0], repeat=L):
                    ops = []
                    for x in train:
                        ops.append(["step", [1, 1], [x], []])
                    ops.append(["cur"])
                    ops.append(["cur_at", [1, 1, len(sels)], list(sels)])
                    ops.append(["spk_at", [1, 1, len(sels)], list(sels)])
                    out.append({"cls": cls, "shape": [1], "batch": 1, "dt": 1.0, "delay": 2.0, "Q": 2.0, "tau": 5.0, "tr": 0.5,
                                "mode": mode, "tol": 0.25, "cur_ob": 7.5, "spk_ob": True, "inplace": bool(L % 2),
                                "float_in": False, "nonbinary": False, "dyadic": True, "malformed": False,
                                "build": ["direct", "partial", "connection"][L % 3], "omit": [], "ops": ops})
    return out




# ------------------------------------------------------------------ rendering to Coq
def q_shape(sh):
    return F.coq_list([f"{int(s)}%nat" for s in sh])


def q_fs(xs):
    return F.coq_list([F.coq_float(float(x)) for x in xs])


def q_op(op):
    k = op[0]
    f = F.coq_float
    if k == "set_dt":
        return f"CSetDt FN {f(op[1])}"
    if k == "set_delay":
        return f"CSetDelay FN {f(op[1])}"
    if k == "set_inplace":
        return f"CSetInplace FN {F.coq_bool(op[1])}"
    if k == "set_batch":
        return f"CSetBatch FN {int(op[1])}%nat"
    if k == "set_Q":
        return f"CSetQ FN {f(op[1])}"
    if k == "set_tau":
        return f"CSetTau FN {f(op[1])}"
    if k == "set_tr":
        return f"CSetTr FN {f(op[1])}"
    return f"CSyn FN ({q_sop(op)})"


def q_sop(op):
    k = op[0]
    if k == "step":
        return f"OStep FN {q_shape(op[1])} {q_fs(op[2])} {F.coq_list([q_fs(i) for i in op[3]])}"
    if k == "cur":
        return "OCurrent FN"
    if k == "spk":
        return "OSpike FN"
    if k == "clear":
        return "OClear FN"
    name = {"cur_at": "OCurrentAt", "spk_at": "OSpikeAt", "pos_at": "OPosAt", "neg_at": "ONegAt"}[k]
    return f"{name} FN {q_shape(op[1])} {q_fs(op[2])}"


def q_case(case):
    f = F.coq_float
    full = [case["batch"]] + case["shape"]
    cob = "None" if case["cur_ob"] is None else f"(Some {f(case['cur_ob'])})"
    sob = "None" if case["spk_ob"] is None else f"(Some {F.coq_bool(case['spk_ob'])})"
    cfg = (f"(mkCfg FN (kind_of {case['cls']}%Z) {q_shape(full)} {f(case['dt'])} {f(case['delay'])} {f(case['Q'])} "
           f"{f(case['tau'])} {f(case['tr'])} (mode_of {case['mode']}%Z) {f(case['tol'])} {cob} {sob} "
           f"{F.coq_bool(case['inplace'])})")
    return f"run_ccase {cfg} {F.coq_list([q_op(o) for o in case['ops']])}"


# ------------------------------------------------------------------ model vs implementation
def dec_out_model(o):
    """model output tree -> canonical python value"""
    if o[0] == 0:
        return ("unit",)
    if o[0] == 1:
        return ("f", list(o[1]), [F.dec_float(x) for x in o[2]])
    return ("b", list(o[1]), [int(x) for x in o[2]])


def dec_out_impl(o):
    if o[0] in (0, 4):          # 4: a setter, carries the configuration the synapse reports afterwards (judged by the oracle)
        return ("unit",)
    if o[0] == 1:
        return ("f", list(o[1]), [F.dec_float(x) for x in o[2]])
    if o[0] == 2:
        return ("b", list(o[1]), [int(x) for x in o[2]])
    return ("baddtype", o[1], o[2])


def same_out(a, b):
    if a[0] != b[0]:
        return False
    if a[0] == "unit":
        return True
    if a[1] != b[1] or len(a[2]) != len(b[2]):
        return False
    if a[0] == "b":
        return a[2] == b[2]
    return all(F.close(x, y) for x, y in zip(a[2], b[2]))


def rings_of(case, mstate):
    k = case["cls"]
    idxs = [0] if k == 0 else ([0, 1] if k in (1, 2) else [0, 1, 2])
    return [mstate[i] for i in idxs]


def same_state(case, mstate, istate):
    mr = rings_of(case, mstate)
    if len(mr) != len(istate):
        return False
    for a, b in zip(mr, istate):
        if len(a) != 4 or a[0] != b[0] or a[1] != b[1] or list(a[2]) != list(b[2]) or len(a[3]) != len(b[3]):
            return False
        for ra, rb in zip(a[3], b[3]):
            if len(ra) != len(rb) or not all(F.close(F.dec_float(x), F.dec_float(y)) for x, y in zip(ra, rb)):
                return False
    return True


def compare(case, mtree, itrace):
    """returns list of (step index, description) where model and implementation disagree"""
    diffs = []
    if mtree[0][0] != itrace[0][0]:
        return [(-1, {"recordsz_model": mtree[0][0], "recordsz_impl": itrace[0][0]})]
    if len(mtree) != len(itrace):
        return [(-1, "trace length")]
    for i, (m, t) in enumerate(zip(mtree[1:], itrace[1:])):
        mo, ms = m
        io, istate = t
        if mo[0] != io[0]:
            diffs.append((i, {"model": mo, "impl": io}))
        elif mo[0] == 1:
            if mo[1] != io[1]:
                diffs.append((i, {"model_err": mo[1], "impl_err": io[1:]}))
        elif not same_out(dec_out_model(mo[1]), dec_out_impl(io[1])):
            diffs.append((i, {"model": dec_out_model(mo[1]), "impl": dec_out_impl(io[1])}))
        if not same_state(case, ms, istate):
            diffs.append((i, "state after the operation differs"))
    return diffs


# ------------------------------------------------------------------ direct oracle (the property statement)
class Oracle:
    """Keeps only what the property talks about: the configuration in force and the list of inputs since the last
    clear (each with the charge / time constants in force when it arrived).  Everything expected is computed from
    that list by explicit sums (no recurrence, no ring, no pointer).

    Semantics of configuration changes (as documented / coded, checked here on the implementation):
      dt / delay setters clear the synapse (InfernoSynapse.dt / .delay call self.clear()): all history is resting
        afterwards and every later value uses the new step time / maximum delay;
      inplace is only a write mode; batchsz keeps the last samples / prepends resting samples (ShapedTensor.reconstrain);
      spike_charge / time constants are plain attributes read at every step: a spike carries the charge in force
        when it arrives and decays with the constant in force at each later step.  The delta synapse derives its
        current from the spike record with the charge in force when READ, and the single exponential's current_at
        interpolates with the time constant captured at construction: where these differ from the arrival-time
        reading the oracle has no opinion (returns None)."""

    def __init__(self, case):
        self.c = dict(case)          # configuration in force (dt, delay, Q, tau, tr, batch, inplace are updated)
        self.tau0 = case["tau"]      # captured by SingleExponentialCurrent's interp_kwargs
        self.shape = list(case["shape"])
        self.full = [case["batch"]] + self.shape
        self.n = nel(self.full)
        self.steps = []          # per step: (xs, injected sum per element, Q, tau, tr) in force at arrival

    def expected_report(self):
        c = self.c
        k = c["cls"]
        return [c["dt"], c["delay"], bool(c["inplace"]), c["batch"], self.shape, c["Q"],
                c["tau"] if k in (2, 3) else None, c["tr"] if k == 3 else None,
                max(int(math.ceil(c["delay"] / c["dt"])) + 1, 1)]

    def setter(self, op):
        k, v = op[0], op[1]
        c = self.c
        if k == "set_dt":
            c["dt"] = v
            self.steps = []
        elif k == "set_delay":
            c["delay"] = v
            self.steps = []
        elif k == "set_inplace":
            c["inplace"] = bool(v)
        elif k == "set_Q":
            c["Q"] = v
        elif k == "set_tau":
            c["tau"] = v
        elif k == "set_tr":
            c["tr"] = v
        elif k == "set_batch":
            per = nel(self.shape)
            old = c["batch"]

            def rb(xs):
                return xs[(old - v) * per:] if v <= old else [0.0] * ((v - old) * per) + xs
            self.steps = [(rb(st[0]), rb(st[1])) + tuple(st[2:]) for st in self.steps]
            c["batch"] = v
            self.full = [v] + self.shape
            self.n = nel(self.full)

    # value of the response sum k steps ago, element e  (k >= 0; resting value before the first step)
    def spike_ago(self, k, e):
        m = len(self.steps) - k
        if m <= 0:
            return 0
        return 1 if self.steps[m - 1][0][e] != 0 else 0

    def comp_ago(self, k, e, which):
        """which: 'cur' (the synapse's current), 'pos', 'neg' (double exponential components); None = no opinion"""
        c = self.c
        m = len(self.steps) - k
        if m <= 0:
            return 0.0
        dt = c["dt"]
        cls = c["cls"]
        st = self.steps
        if cls == 0:
            spike = st[m - 1][0][e] != 0
            if spike and st[m - 1][2] != c["Q"]:
                return None       # derived from the spike record with the charge in force when read
            return (c["Q"] / dt) * (1.0 if spike else 0.0)
        if cls == 1:
            return (st[m - 1][2] / dt) * st[m - 1][0][e] + st[m - 1][1][e]

        def decay(j, idx):         # product of the per-step decay factors applied to the input of step j up to step m-1
            return math.exp(-math.fsum(dt / st[i][idx] for i in range(j + 1, m)))
        if cls == 2:
            return math.fsum((st[j][2] / st[j][3]) * st[j][0][e] * decay(j, 3) for j in range(m))
        pos = math.fsum(st[j][2] / (st[j][3] - st[j][4]) * st[j][0][e] * decay(j, 3) for j in range(m))
        neg = math.fsum(st[j][2] / (st[j][3] - st[j][4]) * st[j][0][e] * decay(j, 4) for j in range(m))
        return {"cur": pos - neg, "pos": pos, "neg": neg}[which]

    def read(self, what, t, e):
        """expected result of querying `what` at delay t for element e: ('v', value) or None when the query sits
        within rounding distance of a decision boundary of a non-dyadic configuration (no opinion)."""
        c = self.c
        exact = c["dyadic"] and is_dyadic(t)
        dt, delay, tol = Fraction(c["dt"]), Fraction(c["delay"]), Fraction(c["tol"])
        tf = Fraction(t)
        eps = Fraction(1, 10**9) * dt

        def near(a, b):
            return (not exact) and abs(a - b) < eps

        def v(x):
            return None if x is None else ("v", x)
        if near(tf, -tol) or near(tf, delay + tol):
            return None
        beyond = tf < -tol or tf > delay + tol
        ob = c["spk_ob"] if what == "spk" else c["cur_ob"]
        if beyond and ob is not None:
            return ("v", (1 if ob else 0) if what == "spk" else float(ob))
        tb = min(max(tf, Fraction(0)), delay)          # the limit when beyond and nothing is configured
        q = tb / dt
        k = math.floor(q + Fraction(1, 2))
        if near(abs(k * dt - tb), tol):
            return None
        if abs(k * dt - tb) <= tol:
            return v(self.value_ago(what, k, e))
        older, newer = math.ceil(q), math.floor(q)
        if older == newer:
            return None  # tol < 0 only
        since = older * dt - tb                          # time since the older sample
        cls = c["cls"]
        decays = (what in ("pos", "neg")) or (what == "cur" and cls in (2, 3))
        if not decays:
            if c["mode"] == 0:
                return v(self.value_ago(what, older, e))
            if near(since / dt, Fraction(1, 2)):
                return None
            return v(self.value_ago(what, newer if since / dt > Fraction(1, 2) else older, e))
        s = float(since)
        if what == "cur" and cls == 2:
            if c["tau"] != self.tau0:
                return None       # interpolation constant captured at construction
            return ("v", self.comp_ago(older, e, "cur") * math.exp(-s / c["tau"]))
        if what == "pos":
            return ("v", self.comp_ago(older, e, "pos") * math.exp(-s / c["tau"]))
        if what == "neg":
            return ("v", self.comp_ago(older, e, "neg") * math.exp(-s / c["tr"]))
        return ("v", self.comp_ago(older, e, "pos") * math.exp(-s / c["tau"])
                - self.comp_ago(older, e, "neg") * math.exp(-s / c["tr"]))

    def value_ago(self, what, k, e):
        if what == "spk":
            return self.spike_ago(k, e)
        return self.comp_ago(k, e, what)


def report_ok(got, exp):
    if len(got) != len(exp):
        return False
    for a, b in zip(got, exp):
        if isinstance(b, float) and a is not None:
            if not (isinstance(a, (int, float)) and float(a) == b):
                return False
        elif a != b:
            return False
    return True


def oracle_case(case, res):
    """evaluates the property on the implementation's traces; returns a list of failures
    (dict(step, op, detail, signature))"""
    fails = []
    own, twin = res["own"], res["twin"]
    # in-place and out-of-place modes produce identical results (outputs and records, bit for bit)
    if own != twin:
        j = next((i for i, (a, b) in enumerate(zip(own, twin)) if a != b), None)
        fails.append({"step": None if j is None else j - 1, "detail": {"inplace_vs_outofplace_differ_at": j},
                      "signature": {"kind": "inplace"}})
    o = Oracle(case)
    how = case.get("build", "direct")
    # the synapse, however it was built, reports the configuration it was given
    if len(own[0]) > 1 and not report_ok(own[0][1], o.expected_report()):
        fails.append({"step": -1, "detail": {"built": how, "reported": own[0][1], "expected": o.expected_report()},
                      "signature": {"kind": "constructor_report", "build": how}})
    for i, (op, (out, state)) in enumerate(zip(case["ops"], own[1:])):
        k = op[0]
        full = o.full
        n = o.n
        nrec = state[0][0]
        if k.startswith("set_"):
            invalid = (k == "set_dt" and op[1] <= 0) or (k == "set_delay" and op[1] < 0)
            if invalid:
                continue
            if out[0] != 0:
                fails.append({"step": i, "op": op, "detail": {"raised": out[1:]}, "signature": {"kind": "raised", "op": k}})
                continue
            o.setter(op)
            if out[1][0] == 4 and not report_ok(out[1][1], o.expected_report()):
                fails.append({"step": i, "op": op, "detail": {"reported": out[1][1], "expected": o.expected_report()},
                              "signature": {"kind": "setter_report", "op": k}})
            continue
        bad_input = k == "step" and list(op[1]) != full
        if bad_input:
            continue
        if k in ("cur_at", "spk_at", "pos_at", "neg_at") and not (list(op[1]) == full or list(op[1][:-1]) == full):
            continue
        undelayed_D = k in ("cur_at", "spk_at", "pos_at", "neg_at") and nrec == 1 and len(op[1]) == len(full) + 1
        sig_extra = dict(FINDING_SIG) if undelayed_D else None
        if out[0] != 0:
            fails.append({"step": i, "op": op, "detail": {"raised": out[1:]},
                          "signature": sig_extra or {"kind": "raised", "op": k}})
            continue
        val = dec_out_impl(out[1])
        if k == "clear":
            o.steps = []
            continue
        if k == "step":
            inj = [math.fsum(i[e] for i in op[3]) for e in range(n)] if op[3] else [0.0] * n
            o.steps.append((list(op[2]), inj, o.c["Q"], o.c["tau"], o.c["tr"]))
        if k in ("step", "cur"):
            exp = [o.comp_ago(0, e, "cur") for e in range(n)]
            if val[0] != "f" or val[1] != full or not all(b is None or F.close(a, b) for a, b in zip(val[2], exp)):
                fails.append({"step": i, "op": op if k == "cur" else ["step", "..."],
                              "detail": {"expected_current": exp, "got": val, "built": how},
                              "signature": {"kind": "closed_form", "cls": CLSN[case["cls"]]}})
            if k == "step":
                # the stored spike record equals the input spikes (newest first behind the pointer)
                N, ptr, _, rows = state[0]
                for kk in range(N):
                    row = [F.dec_float(x) for x in rows[(ptr - 1 - kk) % N]]
                    expr = [float(o.spike_ago(kk, e)) for e in range(n)]
                    if row != expr:
                        fails.append({"step": i, "op": ["step", "..."],
                                      "detail": {"spike_record_steps_ago": kk, "expected": expr, "got": row},
                                      "signature": {"kind": "spike_record"}})
                        break
            continue
        if k == "spk":
            exp = [o.spike_ago(0, e) for e in range(n)]
            if val[0] != "b" or val[1] != full or val[2] != exp:
                fails.append({"step": i, "op": op, "detail": {"expected_spike": exp, "got": val},
                              "signature": {"kind": "spike_record"}})
            continue
        # delayed queries
        what = {"cur_at": "cur", "spk_at": "spk", "pos_at": "pos", "neg_at": "neg"}[k]
        ssh = list(op[1])
        d = 1 if ssh == full else ssh[-1]
        want_kind = "b" if what == "spk" else "f"
        if val[0] != want_kind or val[1] != ssh:
            fails.append({"step": i, "op": op, "detail": {"expected_shape": ssh, "expected_kind": want_kind, "got": val[:2]},
                          "signature": sig_extra or {"kind": "query_shape", "op": k}})
            continue
        for e in range(n):
            for j in range(d):
                t = op[2][e * d + j]
                exp = o.read(what, t, e)
                if exp is None:
                    continue
                got = val[2][e * d + j]
                ok = (got == exp[1]) if what == "spk" else F.close(got, exp[1])
                if not ok:
                    tf, tol, delay = Fraction(t), Fraction(o.c["tol"]), Fraction(o.c["delay"])
                    kind = "overbound" if (tf < -tol or tf > delay + tol) else "read_at_delay"
                    fails.append({"step": i, "op": op,
                                  "detail": {"element": e, "selector_index": j, "time": t, "expected": exp[1], "got": got,
                                             "built": how, "dt": o.c["dt"], "delay": o.c["delay"]},
                                  "signature": {"kind": kind, "op": k}})
                    break
            else:
                continue
            break
    return fails


# ------------------------------------------------------------------ run
def is_nontrivial(case):
    kinds = {o[0] for o in case["ops"]}
    return sum(1 for o in case["ops"] if o[0] == "step") >= 2 and len(kinds) >= 2


def judge(case, mtree, res):
    """-> (mismatches, oracle_failures) for one case"""
    mism, ofail = [], []
    if "crash" in res:
        return [{"case": case, "detail": {"implementation_crashed": res["crash"]}}], []
    fails = oracle_case(case, res)
    for f in fails:
        ofail.append({"case": case, "detail": {k: v for k, v in f.items() if k != "signature"}, "signature": f["signature"]})
    if isinstance(mtree, Exception):
        mism.append({"case": case, "detail": str(mtree)})
        return mism, ofail
    for i, d in compare(case, mtree, res["own"]):
        mism.append({"case": case, "detail": {"step": i, "op": case["ops"][i] if i >= 0 else None, "diff": d}})
        break
    return mism, ofail


def run(ctx):
    rng = random.Random(ctx["seed"])
    n = 260 if ctx["tier"] == "quick" else 4000
    corpus = load_corpus()
    corpus = corpus + default_probe_cases()
    cases = corpus + gen_cases(rng, n)
    if ctx["tier"] == "thorough":
        cases += exhaustive_cases(4)
    impl = F.run_impl(IMPL, {"cases": cases})
    model = F.eval_terms(ID, HEADER, [q_case(c) for c in cases], shard=12 if ctx["tier"] == "quick" else 60)
    # a coqc shard killed under machine load comes back as exceptions: evaluate those cases once more
    bad = [i for i, m in enumerate(model) if isinstance(m, Exception)]
    if bad and len(bad) <= 60:
        again = F.eval_terms(ID, HEADER, [q_case(cases[i]) for i in bad], shard=6, tag="retry")
        for i, m in zip(bad, again):
            model[i] = m
    mismatches, oracle_fail = [], []
    n_ok = 0
    for c, res, mt in zip(cases, impl, model):
        m, o = judge(c, mt, res)
        mismatches += m
        oracle_fail += o
        n_ok += 0 if m else 1
    ops = Counter(o[0] for c in cases for o in c["ops"])
    errs = Counter()
    for res in impl:
        for t in res.get("own", [])[1:]:
            if t[0][0] == 1:
                errs["err%d" % t[0][1]] += 1
    nq = sum(len(o[2]) for c in cases for o in c["ops"] if o[0].endswith("_at"))
    return {
        "evaluations": len(cases),
        "distinct_nontrivial": len({repr(c) for c in cases if is_nontrivial(c)}),
        "rule": "seeded random operation sequences (4-22 ops: forward steps with random spike trains / injected currents, "
                "configuration changes at random points in ~45% of the cases (dt, delay, inplace, batchsz setters, spike_charge / "
                "time constant assignment; dt through Connection.dt when built by a connection), "
                "current, spike, current_at / spike_at (/ pos_current_at, neg_current_at) with per-element selectors on the "
                "grid, off the grid, at and around +-tolerance, at / beyond the maximum delay, negative; clear) over the 4 "
                "classes x dt in {1,.5,.25,1.3,.1,.7} x max delay in {0,.5,1,1.5,2,2.5,3,4} dt x tol x overbound value/None x "
                "interpolation mode x batch 1-3 x 5 shapes x inplace x built directly / through partialconstructor / by a LinearDense "
                "constructor (every keyword non-default somewhere; in ~40% of the cases a random subset of the optional arguments is left "
                "out and the documented defaults are expected); each case is run with both inplace settings; every 6th "
                "case from a malformed stream (wrong input shape, wrong selector rank); non-trivial = >=2 steps and >=2 op "
                "kinds; distinct by full case text"
                + ("; plus every spike train of length <= 4 x class x interpolation mode read back on / off the grid" if ctx["tier"] == "thorough" else ""),
        "op_distribution": dict(ops), "error_distribution": dict(errs),
        "class_distribution": dict(Counter(CLSN[c["cls"]] for c in cases)),
        "undelayed_cases": sum(1 for c in cases if c["delay"] == 0),
        "build_distribution": dict(Counter(c.get("build", "direct") for c in cases)),
        "omitted_argument_distribution": dict(Counter(a for c in cases for a in c.get("omit", []))),
        "cases_with_configuration_changes": sum(1 for c in cases if any(o[0].startswith("set_") for o in c["ops"])),
        "selector_values_queried": nq,
        "samples": cases[len(corpus):len(corpus) + 2],
        "mismatches": mismatches, "oracle_failures": oracle_fail,
        "traces_validated_against_impl": n_ok,
    }


def load_corpus():
    import glob, json
    out = []
    for p in sorted(glob.glob(os.path.join(F.VERIF, "corpus", ID, "*.json"))):
        out.append(json.load(open(p)))
    return out


def minimise(case, rounds=12):
    """drop operations while the oracle still fails with the same signature kind"""
    def fails_of(c):
        res = F.run_impl(IMPL, {"cases": [c]})[0]
        if "crash" in res:
            return []
        return oracle_case(c, res)
    f0 = fails_of(case)
    if not f0:
        return case, None
    kind = f0[0]["signature"].get("kind")
    # cut after the first failing step
    st = f0[0].get("step")
    ops = case["ops"][: (st + 1)] if st is not None else case["ops"]
    for _ in range(rounds):
        changed = False
        for a in range(len(ops) - 1):
            cand = dict(case, ops=ops[:a] + ops[a + 1:])
            ff = fails_of(cand)
            if ff and ff[0]["signature"].get("kind") == kind:
                ops = cand["ops"]
                changed = True
                break
        if not changed:
            break
    c = dict(case, ops=ops)
    ff = fails_of(c)
    return c, ({k: v for k, v in ff[0].items()} if ff else None)


def replay(case):
    res = F.run_impl(IMPL, {"cases": [case]})[0]
    if "crash" in res:
        return False, "replay: implementation crashed: " + res["crash"]
    ff = oracle_case(case, res)
    if not ff:
        return True, "replay: the implementation satisfies the property on this case"
    return False, "replay: still failing: " + repr(ff[0])[:1500]
