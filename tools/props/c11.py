"""C11 - batch samples never interact (level: other).

Coq side (coq/C11/*.v): batch-independence theorems proved ABOUT THE FINISHED MODELS OF THE OTHER PROPERTIES (imported read-only):
sample b of a batched run of the C03 neuron model / C04 synapse model / C05+C06 connection models / C17 layer model equals the run
of the identically parameterised batch-1 instance on sample b's inputs, for every operation sequence those models support; the
adaptation batch mean is shown to be the only coupling of the neurons; for the C08/C09/C18 trainer models with the sum reduction both
update parts of a batched call / run are the sums of the per-sample parts.  Those models are tied to the code by THEIR properties'
correspondence checks (C03, C04, C05, C06, C08, C09, C17, C18), not by this check.
Harness side: the relational differential check on the real implementation - a batch of B samples against B independent
batch-size-1 copies with identical parameters, compared at every step - remains the deciding evidence for the *code*."""
from __future__ import annotations
import os, random
from collections import Counter
import framework as F

ID = "C11"
# the kernels the imported models are built from (re-translated before the obligations are rebuilt); that the neuron / trace
# kernels translate under the element-wise subset at all is itself part of the argument (any cross-batch operation fails closed)
GEN = ["NeuronDynamics", "NeuronAdaptation", "Trace", "Infra", "Interpolation", "Conv", "Bounding", "Stdkernels"]
LEVEL = "other"
TECHNIQUE = ("Coq: forward-simulation proofs 'sample b of the batched run = run of the batch-1 copy on sample b' about the other "
             "properties' models (C03 neurons, C04 synapses, C05/C06 connections with and without delays, C17 layers; induction over "
             "operation sequences, index arithmetic of the flat batch-major layouts), 'adaptation batch mean is the only coupling' "
             "(C03, C17), 'sum reduction: batched parts = sum of per-sample parts' (C08/C09/C18 trainer models) "
             "+ relational differential runs (batch B vs B batch-1 copies) on the real implementation")
LEVEL_TEXT = ("Level 'other'. PROVED IN COQ (73 obligations incl. 3 non-vacuity witnesses; coq/C11/{NeuronBatch,NeuronCoupling,SynapseBatch,ConnBatchC05,ConnBatch,"
              "LayerBatch,LayerBatchC17,TrainerBatchStdp,TrainerBatchDelayAdj,TrainerBatchHomeo}.v), each about a model that another "
              "property ties to the code: "
              "(1) C03 neuron model, all 8 classes, any number type: for EVERY operation sequence (forward with any flags/inputs, "
              "clear, train/eval, voltage/refrac/adaptation setters, in-place adaptation edits, load_state_dict) in which no forward "
              "call runs an adaptation update, outputs and complete state of sample b after every operation = those of the batch-1 "
              "instance on sample b's operations (neuron_batch_independent, also from the constructors); with the update running, "
              "spikes/voltages/refracs of sample b are still the batch-1 ones and every new adaptation entry is the batch mean of "
              "the entries the B batch-1 instances compute (neuron_forward_coupling, reals): the documented reduction is the ONLY "
              "coupling. "
              "(2) C04 synapse model, all 4 classes, any number type: every operation that does not raise on the batch (forward, "
              "current/spike, current_at/spike_at/pos_/neg_current_at with per-synapse or trailing-D PER-SAMPLE selectors, delayed "
              "and undelayed records, with/without out-of-bounds values, both write modes, clear) commutes with taking sample b "
              "(slice of the flat batch-major storage of every record); for every operation sequence, and from the constructors "
              "(synapse_batch_independent[_from_init]). "
              "(3) C05 undelayed maps and C06 connection+synapse compositions (LinearDense, LinearDirect, LinearLateral, Conv2D; "
              "undelayed branch and delayed einsum branch; syncurrent/synspike/selector/delay assignment/clear): the same, for every "
              "operation sequence (connection_batch_independent[_from_init]); sample b of the delay selector of the batched "
              "connection IS the selector of the batch-1 copy (connection_selector_sample: 'expanded, not mixed'). "
              "(4) C17 layer model: Serial, Biclique, RecurrentSerial are PARAMETRIC in their components - any forward simulation "
              "between two component instantiations lifts to every operation sequence of the three layer kinds incl. clear and "
              "learn steps (*_run_sim, generic, axiom-free); instantiated with C17's concrete components (LinearDense+DeltaCurrent "
              "with step delays, LIF/ALIF with adaptation frozen, built-in combine modes, transforms) and the relation 'sample b' "
              "(*_c17_batch_independent, *_c17_outputs_are_samples). "
              "(5) trainers, sum reduction, reals: C08/C09 (STDP, stable, triplet, MSTDP, MSTDPET; none/scalar/per-sample signals): "
              "monitor state of sample b independent of the other samples; BOTH update parts of one call, of every step of a run and "
              "of the accumulator = sums over b of the batch-1 parts; C18 (delay-adjusted and kernel trainers, all six) and C09 "
              "LinearHomeostasis likewise (da_*_sum_persample, h_*_sum_persample). "
              "Essential premise of (2)-(4): the operation does not raise on the batch - one sample's invalid selector / shape raises "
              "for the whole batch, which is the one inherent cross-sample effect. "
              "NOT PROVED / why still 'other': these are theorems about models; the tie of those models to the code is the "
              "correspondence checks of C03, C04, C05, C06, C08, C09, C17, C18 (differential, bounded by their generators) and is not "
              "re-run by this check; (4) is instantiated only with C17's own component models (the generic theorem takes the C03/C04/"
              "C06 results as hypotheses but those models use different state representations and are not plugged into C17's "
              "signature); binary64 is not modelled. DECIDING EVIDENCE FOR THE CODE remains the relational check on the real "
              "implementation: every step of every sample of a batched run equals the run of that sample alone in an identically "
              "parameterised batch-1 copy (8 neurons with adaptation frozen, 4 synapses incl. delayed reads, 4 connections "
              "with/without delays, Serial/Biclique/RecurrentSerial, 9 trainers with batch_reduction=sum: batched parts == sum of "
              "per-sample parts; the same components with the batch size reached through the batchsz setters after warm-up at other "
              "sizes; 14 trainer configurations with sum and all hyperparameters given as per-cell overrides, several cells per "
              "trainer; delayed reads (current_at/spike_at/pos_/neg_current_at) with PER-SAMPLE selectors on all 4 synapse classes "
              "and on the synapses of the 4 connection classes - off-grid maximum delays, selectors in (delay, span], beyond the "
              "span, negative, near stored steps within / outside non-zero interpolation tolerances, overbound values present / "
              "None: sample b of the batched query == the batch-1 query of sample b; the 4 adaptive neuron classes with the "
              "adaptation update RUNNING under batch_reduction in {default, mean, sum, amax, amin, a custom callable}: per-sample "
              "spikes/voltages/refracs == batch-1 ones and batched adaptation == that reduction of the B batch-1 adaptations; "
              "the 8 neuron classes with reset_v == rest_v, zero-input phases for some samples only, identical drive within a "
              "sample and per-sample state assignments).")
LEVEL_NOTE = ("Not a proof about the code. Trusted: the other properties' models as readings of the code (their correspondence checks), "
              "the comparison harness (tools/impl/c11_impl.py), float64, tolerance 1e-9 relative for continuous values (vectorised vs "
              "scalar libm paths), spikes compared exactly. Axioms: none for the neuron (frozen) / synapse / connection / layer "
              "obligations (closed under the global context, any number type); the standard-library real-number axioms for the "
              "adaptation-coupling and trainer obligations. In the component/layer differential runs adaptation updates (documented "
              "batch reduction) are frozen with adapt=False / eval(); the coupling itself is checked by a separate relational stream "
              "(adaptation running, every step restarted from the shared adaptation). The Coq coupling theorem "
              "(C11/NeuronCoupling.v) is stated for the MEAN only: that the batched adaptation is the CONFIGURED reduction (sum, "
              "amax, amin, custom callable) of the per-sample ones is a differential check on the code, not a theorem. Likewise "
              "the per-sample-selector stream is differential evidence (the C04 model theorem covers per-sample selectors, its tie "
              "to the code is C04's correspondence check). mean/amax reductions of the trainers are not covered (sum only, as the "
              "property says).")
EXPLANATION = LEVEL_TEXT
IMPL = os.path.join(F.VERIF, "tools", "impl", "c11_impl.py")

NEURONS = ["LIF", "ALIF", "GLIF1", "GLIF2", "QIF", "Izhikevich", "EIF", "AdEx"]
SYNAPSES = ["DeltaCurrent", "DeltaPlusCurrent", "SingleExponentialCurrent", "DoubleExponentialCurrent"]
TRAINERS = ["STDP", "STDP-nearest", "TripletSTDP", "MSTDP", "MSTDPET", "KernelSTDP", "KernelSTDP-mixed", "DelayAdjustedSTDP",
            "DelayAdjustedSTDPD", "DelayAdjustedMSTDP"]
DTS = [1.0, 0.5, 1.3]


def syn_spec(rng, delay=None):
    return {"cls": rng.choice(SYNAPSES)}


def conn_spec(rng, cls, dt, delay, ins=None, outs=None):
    syn = {"cls": rng.choice(SYNAPSES)}
    if cls == "LinearDense":
        return {"cls": cls, "in": ins or rng.choice([[3], [2, 2]]), "out": outs or rng.choice([[2], [3]]), "dt": dt,
                "bias": rng.random() < 0.5, "delay": delay, "synapse": syn}
    if cls in ("LinearDirect", "LinearLateral"):
        return {"cls": cls, "in": ins or rng.choice([[3], [2, 2]]), "dt": dt, "bias": rng.random() < 0.5, "delay": delay,
                "synapse": syn}
    return {"cls": "Conv2D", "height": rng.choice([4, 5]), "width": rng.choice([4, 5]), "channels": rng.choice([1, 2]),
            "filters": rng.choice([1, 2]), "kernel": rng.choice([2, 3]), "stride": rng.choice([1, 2]),
            "padding": rng.choice([0, 1]), "dt": dt, "bias": rng.random() < 0.5, "delay": delay, "synapse": syn}


def gen_cases(rng, n):
    cases = []
    for i in range(n):
        kind = ["neuron", "synapse", "connection", "layer", "trainer"][i % 5]
        B = rng.choice([2, 2, 3, 4])
        dt = rng.choice(DTS)
        seed = rng.randrange(1 << 30)
        if kind == "neuron":
            cls = NEURONS[(i // 5) % len(NEURONS)]
            kw = {"refrac_t": rng.choice([0.0, dt / 2, dt, 2 * dt, 2.5 * dt])}
            cases.append({"kind": kind, "spec": {"cls": cls, "shape": rng.choice([[3], [2, 2]]), "dt": dt, "kw": kw},
                          "B": B, "T": rng.randint(15, 40), "seed": seed, "scale": rng.choice([60.0, 80.0, 120.0])})
        elif kind == "synapse":
            cls = SYNAPSES[(i // 5) % len(SYNAPSES)]
            k = rng.choice([0, 1, 3])
            kw = {"delay": k * dt}
            if rng.random() < 0.5:
                kw["interp_tol"] = 0.0
            cases.append({"kind": kind, "spec": {"cls": cls, "shape": rng.choice([[3], [2, 2]]), "dt": dt, "kw": kw},
                          "B": B, "T": rng.randint(8, 20), "seed": seed, "ongrid": rng.random() < 0.5})
        elif kind == "connection":
            cls = ["LinearDense", "LinearDirect", "LinearLateral", "Conv2D"][(i // 5) % 4]
            delay = rng.choice([None, None, dt, 3 * dt])
            cases.append({"kind": kind, "spec": conn_spec(rng, cls, dt, delay), "B": B, "T": rng.randint(6, 14),
                          "seed": seed, "ongrid": rng.random() < 0.5})
        elif kind == "layer":
            lk = ["Serial", "Biclique", "RecurrentSerial"][(i // 5) % 3]
            delay = rng.choice([None, 2 * dt])
            n1, n2 = rng.choice(NEURONS), rng.choice(NEURONS)
            if lk == "Serial":
                spec = {"cls": "Serial", "connection": conn_spec(rng, "LinearDense", dt, delay, [3], [2]),
                        "neuron": {"cls": n1, "shape": [2], "dt": dt}}
            elif lk == "Biclique":
                spec = {"cls": "Biclique",
                        "connections": [["a", conn_spec(rng, "LinearDense", dt, delay, [3], [2])],
                                        ["b", conn_spec(rng, "LinearDense", dt, None, [3], [2])]],
                        "neurons": [["x", {"cls": n1, "shape": [2], "dt": dt}], ["y", {"cls": n2, "shape": [2], "dt": dt}]],
                        "combine": rng.choice(["sum", "mean", "max", "min", "prod"])}
            else:
                spec = {"cls": "RecurrentSerial", "feedfwd": conn_spec(rng, "LinearDense", dt, delay, [3], [2]),
                        "lateral": conn_spec(rng, "LinearDense", dt, None, [2], [2]),
                        "feedback": conn_spec(rng, "LinearDense", dt, None, [2], [2]),
                        "ff_neuron": {"cls": n1, "shape": [2], "dt": dt}, "fb_neuron": {"cls": n2, "shape": [2], "dt": dt}}
            cases.append({"kind": kind, "in": [3], "spec": spec, "B": B, "T": rng.randint(10, 25), "seed": seed})
        else:
            tr = TRAINERS[(i // 5) % len(TRAINERS)]
            delayed = tr.startswith("DelayAdjusted")
            spec = {"cls": "Serial",
                    "connection": dict(conn_spec(rng, "LinearDense", dt, 3 * dt if delayed else rng.choice([None, 2 * dt]),
                                                 [3], [2]), synapse={"cls": "DeltaCurrent"}),
                    "neuron": {"cls": "LIF", "shape": [2], "dt": dt, "kw": {"refrac_t": rng.choice([0.0, dt])}}}
            cases.append({"kind": kind, "trainer": tr, "in": [3], "spec": spec, "B": B, "T": rng.randint(10, 25), "seed": seed})
    return cases


TRAINERS2 = ["STDP", "STDP-nearest", "STDP-antihebbian", "TripletSTDP", "MSTDP", "STDP-ltp", "MSTDPET", "KernelSTDP",
             "STDP-ltd", "KernelSTDP-mixed", "DelayAdjustedSTDP", "DelayAdjustedSTDPD", "DelayAdjustedMSTDP",
             "DelayAdjustedMSTDPD"]


def resize_spec(rng, B):
    """batch sizes the batched object goes through (constructor first, then ``batchsz`` setter) before it is set to B
    with the setter: enlarge (mostly from the default 1), shrink, and two-step paths; ``warm`` steps are run at each"""
    paths = [[1], [1], [1], [B + 1], [B + 2], [1, B + 1], [B + 2, 1], [B, 1]]
    if B > 2:
        paths += [[B - 1], [2]]
    return {"path": rng.choice(paths), "warm": rng.randint(2, 5), "clear_first": rng.random() < 0.5}


def gen_cases2(rng, n):
    """second stream: (a) components whose batch size is reached through the ``batchsz`` setters after warm-up steps
    at other batch sizes, compared with fresh batch-1 copies; (b) trainers whose sum reduction / hyperparameters are
    given as per-cell register_cell overrides (trainer-level defaults differ) and trainers driving several cells"""
    cases = []
    for i in range(n):
        kind = ["neuron", "synapse", "connection", "layer", "trainer"][i % 5]
        j = i // 5
        B = rng.choice([2, 3, 3, 4])
        dt = rng.choice(DTS)
        seed = rng.randrange(1 << 30)
        if kind == "neuron":
            kw = {"refrac_t": rng.choice([0.0, dt, 2 * dt, 2.5 * dt])}
            cases.append({"kind": kind, "spec": {"cls": NEURONS[j % len(NEURONS)], "shape": rng.choice([[3], [2, 2]]),
                                                 "dt": dt, "kw": kw},
                          "B": B, "T": rng.randint(12, 30), "seed": seed, "scale": rng.choice([20.0, 60.0, 120.0]),
                          "resize": resize_spec(rng, B)})
        elif kind == "synapse":
            kw = {"delay": rng.choice([0, 1, 3]) * dt}
            if rng.random() < 0.5:
                kw["interp_tol"] = 0.0
            cases.append({"kind": kind, "spec": {"cls": SYNAPSES[j % len(SYNAPSES)], "shape": rng.choice([[3], [2, 2]]),
                                                 "dt": dt, "kw": kw},
                          "B": B, "T": rng.randint(8, 16), "seed": seed, "ongrid": rng.random() < 0.5,
                          "resize": resize_spec(rng, B)})
        elif kind == "connection":
            cls = ["Conv2D", "LinearDense", "LinearDirect", "LinearLateral"][j % 4]
            delay = rng.choice([None, dt, 2 * dt, 3 * dt])
            if cls == "Conv2D" and (j // 4) % 2 == 0:
                delay = rng.choice([dt, 2 * dt, 3 * dt])
            cases.append({"kind": kind, "spec": conn_spec(rng, cls, dt, delay), "B": B, "T": rng.randint(6, 12),
                          "seed": seed, "ongrid": rng.random() < 0.5, "resize": resize_spec(rng, B)})
        elif kind == "layer":
            lk = ["Serial", "Biclique", "RecurrentSerial", "Serial"][j % 4]
            delay = rng.choice([None, dt, 2 * dt])
            n1, n2 = rng.choice(NEURONS), rng.choice(NEURONS)
            if lk == "Serial":
                ccls = rng.choice(["LinearDense", "Conv2D", "LinearDirect", "LinearLateral"])
                cs = conn_spec(rng, ccls, dt, delay, [3], [2])
                if ccls == "Conv2D":
                    cs.update(height=4, width=4, channels=1, kernel=2, stride=1, padding=0)
                    ishape = [1, 4, 4]
                    nshape = [cs["filters"], 3, 3]
                else:
                    ishape, nshape = [3], ([2] if ccls == "LinearDense" else [3])
                spec = {"cls": "Serial", "connection": cs, "neuron": {"cls": n1, "shape": nshape, "dt": dt}}
            elif lk == "Biclique":
                ishape = [3]
                spec = {"cls": "Biclique",
                        "connections": [["a", conn_spec(rng, "LinearDense", dt, delay, [3], [2])],
                                        ["b", conn_spec(rng, "LinearDense", dt, None, [3], [2])]],
                        "neurons": [["x", {"cls": n1, "shape": [2], "dt": dt}], ["y", {"cls": n2, "shape": [2], "dt": dt}]],
                        "combine": rng.choice(["sum", "mean", "max", "min", "prod"])}
            else:
                ishape = [3]
                spec = {"cls": "RecurrentSerial", "feedfwd": conn_spec(rng, "LinearDense", dt, delay, [3], [2]),
                        "lateral": conn_spec(rng, "LinearDense", dt, None, [2], [2]),
                        "feedback": conn_spec(rng, "LinearDense", dt, rng.choice([None, dt]), [2], [2]),
                        "ff_neuron": {"cls": n1, "shape": [2], "dt": dt}, "fb_neuron": {"cls": n2, "shape": [2], "dt": dt}}
            cases.append({"kind": kind, "in": ishape, "spec": spec, "B": B, "T": rng.randint(8, 18), "seed": seed,
                          "resize": resize_spec(rng, B)})
        else:
            tr = TRAINERS2[j % len(TRAINERS2)]
            delayed = tr.startswith("DelayAdjusted")
            spec = {"cls": "Serial",
                    "connection": dict(conn_spec(rng, "LinearDense", dt, 3 * dt if delayed else rng.choice([None, 2 * dt]),
                                                 [3], [2]), synapse={"cls": "DeltaCurrent"}),
                    "neuron": {"cls": "LIF", "shape": [2], "dt": dt, "kw": {"refrac_t": rng.choice([0.0, dt])}}}
            mode = rng.choice(["cell", "cell", "cell", "mixed"])
            cells = rng.choice([1, 2, 2, 3]) if mode == "cell" else rng.choice([2, 3])
            cases.append({"kind": kind, "trainer": tr, "in": [3], "spec": spec, "B": B, "T": rng.randint(8, 16), "seed": seed,
                          "hp": mode, "cells": cells, "default_reduction": rng.choice(["none", "none", "mean", "amax"]),
                          "shared": rng.random() < 0.35})
    return cases


ADAPTIVE = ["ALIF", "GLIF2", "Izhikevich", "AdEx"]
NEURON_REDUCTIONS = ["sum", "amax", "mean", "amin", "custom", "none"]


def sel_synapse_kw(rng, cls, dt):
    """synapse options that matter for delayed reads: non-zero interpolation tolerances, overbound values present / absent
    (None = clamp to the record ends), both interpolation modes"""
    kw = {"interp_tol": rng.choice([0.0, 1e-3, 1e-2, 1e-3, dt / 16]),
          "current_overbound": rng.choice([0.0, 0.0, None, 7.5]),
          "spike_overbound": rng.choice([False, None, True])}
    kw["interp_mode" if cls.startswith("Delta") else "spike_interp_mode"] = rng.choice(["previous", "previous", "nearest"])
    return kw


def offgrid_delay(rng, dt):
    """maximum delays that are mostly NOT a multiple of dt (the record then spans more time than the delay)"""
    return (rng.choice([1, 2, 2, 3, 5, 8]) + rng.choice([0.0, 0.5, 0.5, 0.25, 0.75])) * dt


def gen_cases3(rng, n):
    """third stream: (a) delayed reads with PER-SAMPLE selectors on synapses (all four classes, by index) and on the
    synapses of connections; (b) adaptive neurons with the adaptation update RUNNING under every batch reduction: the
    batched adaptation must be that reduction of the batch-1 instances' adaptations"""
    cases = []
    for i in range(n):
        kind = ["synapse_sel", "neuron_adapt", "synapse_sel", "connection", "neuron_adapt"][i % 5]
        j = i // 5
        B = rng.choice([2, 2, 3, 4])
        dt = rng.choice(DTS)
        seed = rng.randrange(1 << 30)
        if kind == "synapse_sel":
            cls = SYNAPSES[(j + (i % 5) // 2) % len(SYNAPSES)]
            kw = dict(sel_synapse_kw(rng, cls, dt), delay=offgrid_delay(rng, dt))
            cases.append({"kind": kind, "spec": {"cls": cls, "shape": rng.choice([[3], [2, 2], [4]]), "dt": dt, "kw": kw},
                          "B": B, "T": rng.randint(6, 12), "seed": seed, "D": rng.choice([0, 0, 1, 2, 3]), "queries": 2,
                          "p": rng.choice([0.35, 0.5, 0.6])})
        elif kind == "connection":
            cls = ["LinearDense", "Conv2D", "LinearDirect", "LinearLateral"][j % 4]
            cs = conn_spec(rng, cls, dt, offgrid_delay(rng, dt))
            scls = SYNAPSES[(j // 4) % len(SYNAPSES)]
            cs["synapse"] = {"cls": scls, "kw": sel_synapse_kw(rng, scls, dt)}
            cases.append({"kind": kind, "spec": cs, "B": B, "T": rng.randint(5, 9), "seed": seed, "ongrid": rng.random() < 0.3,
                          "sel": {"D": rng.choice([0, 1, 2]), "queries": 1}})
        else:
            ja = 2 * j + (1 if i % 5 == 4 else 0)
            cls = ADAPTIVE[ja % len(ADAPTIVE)]
            red = NEURON_REDUCTIONS[(ja // len(ADAPTIVE)) % len(NEURON_REDUCTIONS)]
            kw = {"refrac_t": rng.choice([0.0, dt, 2 * dt])}
            cases.append({"kind": kind, "spec": {"cls": cls, "shape": rng.choice([[3], [2, 2]]), "dt": dt, "kw": kw},
                          "B": B, "T": rng.randint(10, 25), "seed": seed, "scale": rng.choice([60.0, 80.0, 120.0]),
                          "reduction": red, "via": rng.choice(["train", "adapt"])})
    return cases


# parameters that make the reset voltage EXACTLY the resting voltage (factory defaults: rest_v = -60 everywhere)
RESET_AT_REST = {"LIF": {"reset_v": -60.0}, "GLIF1": {"reset_v": -60.0}, "ALIF": {"reset_v": -60.0},
                 "GLIF2": {"reset_v_add": 0.0, "reset_v_mul": 0.0}, "QIF": {"reset_v": -60.0},
                 "Izhikevich": {"reset_v": -60.0}, "EIF": {"reset_v": -60.0}, "AdEx": {"reset_v": -60.0}}
THRESH = {"LIF": -50.0, "GLIF1": -50.0, "ALIF": -50.0, "GLIF2": -50.0, "QIF": -30.0, "Izhikevich": -30.0, "EIF": -30.0,
          "AdEx": -30.0}


def gen_cases4(rng, n):
    """fourth stream, neurons with exact coincidences, all 8 classes by index: reset voltage == resting voltage (a neuron
    that just fired sits exactly at rest while refractory), refractory periods longer than a step, per-sample phases of
    exactly zero input lasting several steps while other samples are driven, neurons of a sample driven identically (fire
    together), voltages set exactly to rest / reset / threshold and refractory times set through the setters"""
    cases = []
    for i in range(n):
        cls = NEURONS[i % len(NEURONS)]
        B = rng.choice([2, 2, 3, 4])
        dt = rng.choice(DTS)
        kw = {"refrac_t": rng.choice([2 * dt, 3 * dt, 2.5 * dt, dt, 4 * dt])}
        at_rest = (i // len(NEURONS)) % 3 != 2
        if at_rest:
            kw.update(RESET_AT_REST[cls])
        reset = -60.0 if at_rest else -65.0
        cases.append({"kind": "neuron", "spec": {"cls": cls, "shape": rng.choice([[1], [2], [3], [2, 2]]), "dt": dt, "kw": kw},
                      "B": B, "T": rng.randint(20, 45), "seed": rng.randrange(1 << 30), "scale": rng.choice([120.0, 240.0, 400.0]),
                      "exact": {"uniform": rng.random() < 0.6, "setstate": rng.random() < 0.4,
                                "levels": [-60.0, reset, THRESH[cls]]}})
    return cases


def run(ctx):
    rng = random.Random(ctx["seed"])
    n = 200 if ctx["tier"] == "quick" else 2000
    cases = load_corpus() + gen_cases(rng, n)
    # independent generator: the first stream is exactly what it was before the second one existed
    cases += gen_cases2(random.Random(ctx["seed"] * 7919 + 11), 160 if ctx["tier"] == "quick" else 1600)
    cases += gen_cases3(random.Random(ctx["seed"] * 104729 + 13), 150 if ctx["tier"] == "quick" else 1500)
    cases += gen_cases4(random.Random(ctx["seed"] * 1299709 + 17), 64 if ctx["tier"] == "quick" else 640)
    res = []
    # shard over a few processes
    import concurrent.futures as cf
    k = 8
    shards = [cases[i::k] for i in range(k)]
    with cf.ThreadPoolExecutor(k) as ex:
        outs = list(ex.map(lambda sh: F.run_impl(IMPL, {"cases": sh}) if sh else [], shards))
    res = [None] * len(cases)
    for i, o in enumerate(outs):
        for j, r in enumerate(o):
            res[i + j * k] = r
    fails = []
    for c, r in zip(cases, res):
        if not r["ok"]:
            fails.append({"case": c, "detail": {k2: v for k2, v in r.items() if k2 != "trace"},
                          "signature": {"kind": "batch_interaction", "component": c["kind"]}})
    dist = Counter(c["kind"] + ":" + (c.get("trainer") or c["spec"]["cls"]) + ("/resized" if c.get("resize") else "")
                   + ("/hp=" + c["hp"] if c.get("hp") else "") + ("/per-sample-selectors" if c.get("sel") else "")
                   + ("/" + c["reduction"] if c.get("reduction") else "") + ("/exact" if c.get("exact") else "") for c in cases)
    active = sum(1 for r in res if r.get("events", 0) > 0)
    return {
        "evaluations": len(cases),
        "distinct_nontrivial": len({repr(c) for c, r in zip(cases, res) if r.get("events", 0) > 0}),
        "rule": "seeded component/configuration/input-sequence cases (B in 2..4, dt in {1, 0.5, 1.3}, T in 6..40), each comparing every "
                "step of a batched run with B batch-1 copies; second stream: batch size reached through the batchsz setters "
                "(enlarge/shrink/two-step paths after warm-up steps at the other sizes; neurons, synapses, connections incl. "
                "delayed Conv2D, layers via their components) vs fresh batch-1 copies from the cleared state, and trainers "
                "whose sum reduction and hyperparameters are per-cell register_cell overrides (trainer-level defaults differ; "
                "1-3 cells per trainer object, optionally ONE trainer object for the batched cells and all their copies); "
                "third stream: delayed reads with per-sample selectors (trailing-D and plain per-sample shapes; off-grid maximum "
                "delays, selectors in (delay, span], beyond the span, negative, near-grid within/outside interp tolerances "
                "{0, 1e-3, 1e-2, dt/16}, overbound values {default, None, 7.5 / True}) on all 4 synapse classes and on connection "
                "synapses: batched query sample b == batch-1 query; adaptive neurons (ALIF, GLIF2, Izhikevich, AdEx) x "
                "batch_reduction {sum, amax, mean, amin, custom, default} with the adaptation update running: batched adaptation "
                "== the reduction of the batch-1 adaptations; "
                "fourth stream: all 8 neuron classes with exact coincidences - reset voltage == resting voltage, refractory "
                "periods of several steps, per-sample phases of exactly zero input while other samples are driven, neurons of a "
                "sample driven identically, voltage (rest / reset / threshold) and refractory time assigned per sample through "
                "the setters; "
                "non-trivial = the run produced spikes / non-zero parts",
        "samples": cases[:2], "component_distribution": dict(dist), "cases_with_activity": active,
        "mismatches": [], "oracle_failures": fails, "traces_validated_against_impl": len(cases) - len(fails),
    }


def load_corpus():
    import glob, json
    return [json.load(open(p)) for p in sorted(glob.glob(os.path.join(F.VERIF, "corpus", ID, "*.json")))]


def replay(case):
    r = F.run_impl(IMPL, {"cases": [case]})[0]
    return r["ok"], "replay: " + repr({k: v for k, v in r.items() if k != "trace"})[:1500]
