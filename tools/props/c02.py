"""C02 - time-indexed select / insert: case generator, Coq rendering, correspondence, direct oracle."""
from __future__ import annotations
import math, os, random, struct
from collections import Counter
from fractions import Fraction as Q
import framework as F

ID = "C02"
GEN = ["Infra", "Interpolation", "Extrapolation"]
LEVEL = "proof"
TECHNIQUE = ("Coq proof over the reals: case analysis on the snap-to-grid test (nearest integer minimises distance), "
             "floor/ceil bracketing, frame lemmas over the C01 ring model, algebraic round trips of the generated "
             "interp_*/extrap_* kernels; model tied to the code by kernel translation and differential correspondence")
LEVEL_TEXT = ("Machine-checked proof (Coq, real-number reading) that the model of RecordTensor.select/insert returns / writes "
              "exactly the stored observation when the time is within tolerance of a multiple of dt (the coded round/tolerance test "
              "is shown equivalent to 'some grid point is within tolerance', for every tolerance) and otherwise applies the "
              "interpolation (extrapolation) to the older and newer bracketing samples with the time elapsed since the older one, "
              "touches no other slot, rejects exactly the times outside [-tol, dt(N-1)+tol], that the scalar-time and tensor-time "
              "branches (and the in-place / out-of-place insert paths) agree, and that insert followed by select at the same time "
              "returns the inserted value for every shipped matching extrapolation/interpolation pair (algebraic round trips proved "
              "about the generated kernels); for all N, pointer positions, offsets, shapes, dt>0, 0<=tol<dt/2, and - by an invariant "
              "over every run of pushes, pointer moves, selects and inserts - after every history.")
LEVEL_NOTE = ("Trusted: Coq kernel + stdlib real axioms (sig_forall_dec, sig_not_dec, functional_extensionality_dep, classic); "
              "translator for _unwind_ptr and the 6+8 interp/extrap kernels; the hand-written model C02/Select.v on top of C01/Ring.v "
              "(validated against the real class by correspondence only: generator coverage); torch gather/scatter/where/round/"
              "remainder modelled by their meaning; `x % 1` read as x - floor x; _unwind_tensor_ptr read as _unwind_ptr element-wise. "
              "NOT proved: floating-point rounding (theorems are exact-arithmetic; e.g. with tolerance 0 a time one ulp off the grid "
              "can make offset+shift round to an integer in binary64), integer/bool storage data types (a single float type is "
              "modelled in Coq; int64 and bool records are covered by the implementation-side oracle stream ONLY: expected values from "
              "the list-of-observations history with exact Fractions, scalar/tensor agreement, range rejection, frame, round trips; likewise records whose step time is changed by load_state_dict / set_extra_state instead of the setter: "
              "the Coq model has a fixed dt per record, the oracle stream checks them with the new dt), time tensors whose shape differs from the observation's while having the right number of dimensions, "
              "empty observations (nel = 0) for the out-of-place scalar insert. Mixed precision: the Coq model and the oracle read every "
              "time exactly (the documented rule does not depend on the storage or time dtype); values are compared with a tolerance for "
              "the dtype, decisions exactly (stored values 0.25 apart, probe interpolations). float32 TIME tensors are only generated "
              "with a tolerance (>= 0.02) far above their resolution: with a tolerance below the float32 resolution of the time the "
              "float32 evaluation of the on-grid test is noise on the unchanged code and is not judged.")
HEADER = ("From Coq Require Import List ZArith Bool PrimFloat.\n"
          "From Inferno Require Import Base.NumF C01.Ring C02.Select C02.SelectExec.\n"
          "Import ListNotations.\nOpen Scope Z_scope.\n")
IMPL = os.path.join(F.VERIF, "tools", "impl", "c02_impl.py")

DTS = [1.0, 0.5, 0.25, 1.3, 0.1]
DYADIC = {1.0, 0.5, 0.25}
SHAPES = [[], [2], [2, 2], [3], [1]]
# matching (extrapolation code -> interpolation codes) pairs shipped by the library
MATCH = {0: [0], 1: [1], 2: [0, 1, 2, 3], 3: [2], 4: [3], 5: [3], 6: [4], 7: [5]}
EPS = 2.0 ** -20


def nel(shape):
    n = 1
    for s in shape:
        n *= s
    return n


# ------------------------------------------------------------------ generator
def gen_val(rng, dtype="f64"):
    if dtype == "i64":
        return float(rng.randint(-9, 9))
    if dtype == "bool":
        return float(rng.randint(0, 1))
    return round(rng.uniform(-9, 9), 3) + 0.1


def gen_tol(rng, dt):
    if dt in DYADIC:
        return rng.choice([0.0, 2.0 ** -10, dt / 8, dt / 8, 1e-6])
    return rng.choice([1e-6, 1e-3, dt * 0.2])


def gen_time(rng, N, dt, tol, bad):
    """returns (time, kind). Times exactly on a decision boundary only with dyadic dt and tol."""
    dy = dt in DYADIC and (tol == 0.0 or math.frexp(tol)[0] == 0.5)
    k = rng.randint(0, N - 1)
    kinds = ["grid", "grid", "tol_in", "lim_lo", "lim_hi", "just_out"]
    if dy:
        kinds += ["edge", "edge"]
    if N >= 2:
        kinds += ["off"] * 6
    if bad:
        kinds += ["out"] * 4
    kind = rng.choice(kinds)
    sgn = rng.choice([-1.0, 1.0])
    if kind == "grid":
        return k * dt, kind
    if kind == "tol_in":
        return k * dt + sgn * tol * 0.5, kind
    if kind == "edge":
        return k * dt + sgn * tol, kind
    if kind == "just_out":
        d = tol * (1 + EPS) if dy and tol > 0 else (2.0 ** -30 if tol == 0 else tol * 2)
        return k * dt + sgn * d, kind
    if kind == "lim_lo":
        return (-tol if dy else -tol * 0.5), kind
    if kind == "lim_hi":
        return dt * (N - 1) + (tol if dy else tol * 0.5), kind
    if kind == "off":
        k = rng.randint(0, N - 2)
        f = rng.choice([0.37, 0.73, 0.123, 0.9, 0.25, 0.5] if dt in DYADIC else [0.37, 0.73, 0.123, 0.9, 0.26])
        return (k + f) * dt, kind
    # out of range
    return rng.choice([-tol * 2 - 1e-3, -dt, dt * (N - 1) + 2 * tol + 1e-3, dt * N, dt * (N + 2.5)]), kind


def gen_interp(rng, dtype="f64"):
    if dtype == "bool":          # bool tensors support neither subtraction nor a meaningful decay
        return rng.randint(0, 2), 0.0
    if dtype == "i64":           # mostly the interpolations whose result stays an integer
        ic = rng.choice([0, 1, 2, 2, 2, 3, 3, 4, 5])
        return ic, (rng.choice([2.0, 0.7, 5.0]) if ic >= 4 else 0.0)
    ic = rng.randint(0, 5)
    return ic, (rng.choice([2.0, 0.7, 5.0]) if ic >= 4 else 0.0)


def gen_extrap(rng, dtype="f64"):
    if dtype != "f64":           # extrapolations that write storable (integer / bool) values
        return rng.randint(0, 3), 0.0
    ec = rng.randint(0, 7)
    if ec in (4, 5):
        return ec, rng.choice([0.0, 0.0, 0.5, 1.5])
    return ec, (rng.choice([2.0, 0.7, 5.0]) if ec >= 6 else 0.0)


def other_shape(rng, shape):
    return rng.choice([s for s in SHAPES if s != shape])


def match_of(ec, dtype):
    return [ic for ic in MATCH[ec] if not (dtype == "bool" and ic == 3)]


def gen_case(rng: random.Random, malformed: bool, dtype: str = "f64"):
    N = rng.choice([1, 2, 2, 3, 3, 4, 5, 6])
    dt = rng.choice(DTS)
    shape = rng.choice(SHAPES)
    n = nel(shape)
    ops, rt = [], []
    if malformed and rng.random() < 0.25:
        # operations on uninitialised storage
        ic, par = gen_interp(rng, dtype)
        ops.append(["selS", 1e-6, 1, 0.0, ic, par])
        ec, par = gen_extrap(rng, dtype)
        ops.append(["insS", shape, [gen_val(rng, dtype) for _ in range(n)], 1e-6, 0, 0.0, ec, par, False])
    for _ in range(N + rng.randint(0, N)):          # fill the record; pointer ends anywhere
        ops.append(["push", [gen_val(rng, dtype) for _ in range(n)]])
    for _ in range(rng.randint(3, 9)):
        tol = gen_tol(rng, dt)
        off = rng.randint(-1, N + 1)
        bad = malformed and rng.random() < 0.3 or rng.random() < 0.05
        kind = rng.choice(["selS", "selS", "selT", "selT", "insS", "insS", "insT", "insT", "rtS", "rtT", "push", "incr"]
                          if dtype == "f64" else
                          ["selS", "selS", "selS", "selS", "selT", "selT", "selT", "insS", "insT", "rtS", "rtS", "rtT",
                           "push", "incr"])
        if kind == "push":
            ops.append(["push", [gen_val(rng, dtype) for _ in range(n)]])
        elif kind == "incr":
            ops.append(["incr", rng.randint(0, N)])
        elif kind == "selS":
            ic, par = gen_interp(rng, dtype)
            ops.append(["selS", tol, off, gen_time(rng, N, dt, tol, bad)[0], ic, par])
        elif kind == "selT":
            ic, par = gen_interp(rng, dtype)
            if malformed and rng.random() < 0.15:
                tshape = shape + [2, 1]
            elif rng.random() < 0.4:
                tshape = list(shape)
            else:
                tshape = shape + [rng.randint(1, 3)]
            ops.append(["selT", tol, off, tshape, [gen_time(rng, N, dt, tol, bad and rng.random() < 0.3)[0]
                                                   for _ in range(nel(tshape))], ic, par])
        elif kind in ("insS", "rtS"):
            ec, par = gen_extrap(rng, dtype)
            sh = other_shape(rng, shape) if (malformed and rng.random() < 0.1) else shape
            t = gen_time(rng, N, dt, tol, bad)[0]
            ops.append(["insS", sh, [gen_val(rng, dtype) for _ in range(nel(sh))], tol, off, t, ec, par, rng.random() < 0.5])
            if kind == "rtS":
                rt.append(len(ops) - 1)
                ops.append(["selS", tol, off, t, rng.choice(match_of(ec, dtype)), par])
        else:
            ec, par = gen_extrap(rng, dtype)
            sh = other_shape(rng, shape) if (malformed and rng.random() < 0.1) else shape
            tsh = other_shape(rng, shape) if (malformed and rng.random() < 0.1) else sh
            times = [gen_time(rng, N, dt, tol, bad and rng.random() < 0.3)[0] for _ in range(nel(tsh))]
            ops.append(["insT", sh, [gen_val(rng, dtype) for _ in range(nel(sh))], tol, off, tsh, times, ec, par,
                        rng.random() < 0.5])
            if kind == "rtT" and tsh == shape and sh == shape:
                rt.append(len(ops) - 1)
                ops.append(["selT", tol, off, tsh, times, rng.choice(match_of(ec, dtype)), par])
    case = {"N": N, "dt": dt, "shape": shape, "ops": ops, "rt": rt}
    if dtype != "f64":
        case["dtype"] = dtype
    return case


def gen_cases(rng, n):
    return [gen_case(rng, malformed=(i % 4 == 3)) for i in range(n)]


def gen_nonfloat_cases(rng, n):
    """records with int64 / bool storage: implementation + oracle only (the Coq model fixes one float type)"""
    return [gen_case(rng, malformed=(i % 8 == 7), dtype=("i64" if i % 3 else "bool")) for i in range(n)]


def gen_restore_cases(rng, n):
    """float records created with persist_temporal=True and ANOTHER step time (same number of slots) whose
    temporal configuration is replaced, without the setters, by load_state_dict from / set_extra_state of a
    record with the case's step time; implementation + oracle only.  'at' = index of the first operation run
    on the restored record (earlier ones run on the source record, whose data and pointer travel with lsd)"""
    out = []
    for i in range(n):
        c = gen_case(rng, malformed=(i % 8 == 7))
        via = "lsd" if i % 3 else "ses"
        lead = 0
        while lead < len(c["ops"]) and c["ops"][lead][0] == "push":
            lead += 1
        at = 0 if (via == "ses" or c["rt"] or rng.random() < 0.3) else rng.choice([lead, lead, rng.randint(0, len(c["ops"]) - 1)])
        if any(j < at <= j + 1 for j in c["rt"]):
            at = lead
        c["restore"] = {"dt0": rng.choice([d for d in DTS + [2.0, 0.7] if d != c["dt"]]), "via": via, "at": at}
        out.append(c)
    return out


# ---- mixed precision: storage dtype x time dtype, long records, non-representable dt
MIX_DTS = [1.3, 0.9, 0.45, 0.1]
MIX_N = [24, 80, 161, 220]
MIX_SHAPES = [[], [2], [3]]


def r32(x):
    """the float32 value nearest to x, as a python float"""
    return struct.unpack("f", struct.pack("f", x))[0]


def gen_val_mixed(rng, dtype):
    """values every storage type holds exactly, pairwise at least 0.25 apart or equal"""
    if dtype == "bool":
        return float(rng.randint(0, 1))
    if dtype == "i64":
        return float(rng.randint(-20, 20))
    return rng.randint(-80, 80) * 0.25


def gen_mixed_case(rng, i):
    """storage in {float32, float64, int64, bool}, time tensors / scalar times in float64 or float32
    independently, records of 24..256 slots (times up to ~330), dt in {1.3, .9, .45, .1}.
    float64 times: on grid as computed in float64 (k*dt), within (tol/2) and outside (2 tol) tolerance, tol down to
    the default 1e-6.  float32 times: the float32 roundings of the same kinds with a tolerance (0.02 or dt/5) well
    above the float32 resolution of the times (<= 3e-5), so that the exact reading of every decision has a margin
    no float32 evaluation of the documented rule can cross."""
    sdt = ["f32", "f32", "f64", "f32", "i64", "bool", "f32", "f32"][i % 8]
    tdt = "f32" if i % 5 in (1, 3) else "f64"
    N, dt, shape = rng.choice(MIX_N), rng.choice(MIX_DTS), rng.choice(MIX_SHAPES)
    n = nel(shape)
    rt = []
    ops = [["fill", [[gen_val_mixed(rng, sdt) for _ in range(n)] for _ in range(N + rng.randint(0, N))]]]

    def time(tol, bad=False, near=False):
        # mostly on or near the grid, anywhere along the record (k up to N-1): k*dt as computed in float64, within
        # tolerance (tol/2), outside (2 tol), both limits, off grid, rarely out of range
        k = rng.randint(0, N - 1)
        kind = rng.choice(["grid", "grid", "tol_in", "just_out"] if near else
                          ["grid"] * 5 + ["tol_in"] * 2 + ["just_out"] * 2 + ["off"] * 4 + ["lim_lo", "lim_hi"] + (["out"] * 4 if bad else []))
        sgn = rng.choice([-1.0, 1.0])
        if kind == "grid":
            t = k * dt
        elif kind == "tol_in":
            t = k * dt + sgn * tol * 0.5
        elif kind == "just_out":
            t = k * dt + sgn * tol * 2
        elif kind == "off":
            t = (rng.randint(0, N - 2) + rng.choice([0.37, 0.73, 0.123, 0.9, 0.26])) * dt
        elif kind == "lim_lo":
            t = -tol * 0.5
        elif kind == "lim_hi":
            t = dt * (N - 1) + tol * 0.5
        else:
            t = rng.choice([-tol * 2 - 1e-3, -dt, dt * (N - 1) + 2 * tol + 1e-3, dt * N, dt * (N + 2.5)])
        return r32(t) if tdt == "f32" else t

    def interp():
        ic = rng.choice([0, 1, 2, 6, 7] if sdt == "bool" else [0, 1, 2, 3, 4, 5, 6, 6, 6, 7, 7, 7])
        return ic, (rng.choice([2.0, 0.7, 5.0]) if ic in (4, 5) else 0.0)

    def extrap():
        if sdt in ("i64", "bool"):
            return rng.randint(0, 3), 0.0
        # no linear extrapolation here: from a time 2e-6 off the grid it writes values ~1e7 times the data, which the
        # first (float64, short record) stream judges with its relative tolerance; here stored values may be exactly 0
        # and float32 storage / times make the cancellation ill-conditioned
        ec = rng.choice([0, 1, 2, 3, 6, 7])
        if ec in (4, 5):
            return ec, rng.choice([0.0, 0.0, 0.5, 1.5])
        return ec, (rng.choice([2.0, 0.7, 5.0]) if ec >= 6 else 0.0)
    odt = {}

    def obs_dtype():
        # the observation's data type is independent of the record's: wider, narrower, int <-> float <-> bool
        return rng.choice([d for d in ("f32", "f64", "i64", "bool") if d != sdt]) if rng.random() < 0.6 else sdt
    for _ in range(rng.randint(6, 10)):
        tol = rng.choice([0.02, dt * 0.2]) if tdt == "f32" else rng.choice([1e-6, 1e-6, 1e-6, 1e-6, 1e-3, dt * 0.2])
        off = rng.randint(-1, N + 1)
        bad = rng.random() < 0.06
        kind = rng.choice(["selT", "selT", "selT", "selT", "selT", "selS", "selS", "rtT", "rtT", "rtS", "rtS", "insT", "insS", "insS"])
        if kind == "selS":
            ic, par = interp()
            ops.append(["selS", tol, off, time(tol, bad), ic, par])
        elif kind == "selT":
            ic, par = interp()
            tshape = list(shape) if rng.random() < 0.3 else shape + [rng.randint(1, 3)]
            ops.append(["selT", tol, off, tshape, [time(tol, bad and rng.random() < 0.3) for _ in range(nel(tshape))], ic, par])
        elif kind in ("insS", "rtS"):
            ec, par = extrap()
            t = time(tol, bad)
            od = obs_dtype()
            ops.append(["insS", shape, [gen_val_mixed(rng, od) for _ in range(n)], tol, off, t, ec, par, rng.random() < 0.5])
            if od != sdt:
                odt[str(len(ops) - 1)] = od
            if kind == "rtS":
                rt.append(len(ops) - 1)
                ops.append(["selS", tol, off, t, rng.choice(match_of(ec, sdt)), par])
        else:
            ec, par = extrap()
            times = [time(tol, bad and rng.random() < 0.3) for _ in range(n)]
            od = obs_dtype()
            ops.append(["insT", shape, [gen_val_mixed(rng, od) for _ in range(n)], tol, off, shape, times, ec, par,
                        rng.random() < 0.5])
            if od != sdt:
                odt[str(len(ops) - 1)] = od
            if kind == "rtT":
                rt.append(len(ops) - 1)
                ops.append(["selT", tol, off, shape, times, rng.choice(match_of(ec, sdt)), par])
    # a sweep along the whole record: 8 times per element on / just around the grid, read through the two probe
    # interpolations (an exact read returns the bare sample, an interpolation the older + 100 / the newer + 300)
    tol = 0.02 if tdt == "f32" else 1e-6
    for ic in (6, 7):
        ops.append(["selT", tol, rng.randint(0, N), shape + [8], [time(tol, near=True) for _ in range(8 * n)], ic, 0.0])
    case = {"N": N, "dt": dt, "shape": shape, "ops": ops, "rt": rt, "dtype": sdt, "tdtype": tdt, "mixed": True}
    if odt:
        case["odt"] = odt
    return case


def gen_mixed_cases(rng, n):
    return [gen_mixed_case(rng, i) for i in range(n)]


def vtol(case):
    """(relative, absolute) tolerance for VALUES; decisions (exact read vs interpolation, which bracket) are
    never subject to it: stored values are >= 0.25 apart and the probe interpolations add 100 / 300"""
    if case.get("tdtype", "f64") == "f32":
        return 1e-3, 5e-3      # the elapsed time itself is computed in float32 from times of resolution ~2e-5
    if case.get("dtype", "f64") == "f32":
        return 1e-5, 2e-4      # values rounded to float32 when stored
    return None


# ---- optional arguments left out of the call
# DOCUMENTED defaults, read once from the docstrings of RecordTensor.select / RecordTensor.insert
# (inferno/core/infrastructure.py) and hard-coded here on purpose - never read from the code at run time:
#   select(time, interp=None -> nearest, *, tolerance=1e-6, offset=1, interp_kwargs=None)
#   insert(obs, time, extrap=None -> nearest, *, tolerance=1e-6, offset=0, inplace=False, extrap_kwargs=None)
DOC_TOL = 1e-6
DOC_SELECT_OFFSET = 1
DOC_INSERT_OFFSET = 0
DOC_INPLACE = False
DOC_INTERP = 2        # interp_nearest
DOC_EXTRAP = 3        # extrap_nearest


def apply_omissions(case, rng, frac=0.35):
    """For a fraction of the select / insert operations choose optional arguments that the implementation-side call
    will NOT pass; the operation itself is rewritten to the documented default of each omitted argument, so the
    Coq model and the oracle (which only see the operation) use the documented defaults.  Insert + select round-trip
    pairs are kept consistent (same tolerance, same offset, matching pair)."""
    ops = case["ops"]
    omit = {}
    f32t = case.get("tdtype", "f64") == "f32"       # float32 times need a tolerance above their resolution
    rts = set(case.get("rt", []))

    def choose(names):
        names = [x for x in names if not (f32t and x == "tolerance")]
        k = rng.choice([1, 1, 2, 3, len(names)])
        return set(rng.sample(names, min(k, len(names))))
    i = 0
    while i < len(ops):
        op = ops[i]
        k = op[0]
        pair = i in rts
        if k not in ("selS", "selT", "insS", "insT") or rng.random() >= frac:
            i += 2 if pair else 1
            continue
        sel = k in ("selS", "selT")
        if sel:
            ic_i = len(op) - 2
            cand = ["tolerance", "offset", "interp"] + (["interp_kwargs"] if op[ic_i] < 4 else [])
        else:
            ec_i = len(op) - 3
            cand = ["tolerance", "offset", "extrap", "inplace"] + (["extrap_kwargs"] if op[ec_i] not in (4, 5, 6, 7) or
                                                                   (op[ec_i] in (4, 5) and op[ec_i + 1] == 0) else [])
        om = choose(cand)
        if sel:
            if "interp" in om:
                op[ic_i], op[ic_i + 1] = DOC_INTERP, 0.0
                om.add("interp_kwargs")
            if "tolerance" in om:
                op[1] = DOC_TOL
            if "offset" in om:
                op[2] = DOC_SELECT_OFFSET
        else:
            if "extrap" in om:
                op[ec_i], op[ec_i + 1] = DOC_EXTRAP, 0.0
                om.add("extrap_kwargs")
            if "tolerance" in om:
                op[3] = DOC_TOL
            if "offset" in om:
                op[4] = DOC_INSERT_OFFSET
            if "inplace" in om:
                op[-1] = DOC_INPLACE
            if pair:
                # the select of the pair passes everything explicitly, with the values the insert ended up with
                so = ops[i + 1]
                so[1], so[2] = op[3], op[4]
                if "extrap" in om:
                    so[-2], so[-1] = DOC_INTERP, 0.0
        omit[str(i)] = sorted(om)
        i += 2 if pair else 1
    if omit:
        case["omit"] = omit
    return case


def drop_op(case, ops, rt, i):
    """the case without operation i (indices of the round-trip pairs and of the per-operation annotations shifted)"""
    c = dict(case, ops=ops[:i] + ops[i + 1:], rt=[j - 1 if j > i else j for j in rt if j != i])
    for key in ("omit", "odt"):
        if key in case:
            c[key] = {str(int(j) - 1 if int(j) > i else int(j)): v for j, v in case[key].items() if int(j) != i}
    return c


def exhaustive_cases():
    """small scope: N <= 3, every pointer position, every offset 0..N, a fixed set of times covering every
    kind, every interpolation, scalar and tensor time; dyadic dt so that boundaries are exact"""
    cases = []
    dt, tol = 0.5, 2.0 ** -10
    for N in (1, 2, 3):
        times = []
        for k in range(N):
            times += [k * dt, k * dt + tol, k * dt - tol, k * dt + tol * (1 + EPS), k * dt - tol * (1 + EPS)]
            if k < N - 1:
                times += [(k + 0.25) * dt, (k + 0.5) * dt, (k + 0.75) * dt]
        times += [dt * (N - 1) + tol * (1 + EPS), -tol * (1 + EPS)]
        for extra in range(N):
            ops = [["push", [float(i) + 0.1]] for i in range(N + extra)]
            for off in range(0, N + 1):
                for ic in range(6):
                    par = 2.0 if ic >= 4 else 0.0
                    for t in times:
                        ops.append(["selS", tol, off, t, ic, par])
                    inr = [t for t in times if -tol <= t <= dt * (N - 1) + tol]
                    ops.append(["selT", tol, off, [len(inr)], inr, ic, par])
            cases.append({"N": N, "dt": dt, "shape": [], "ops": ops, "rt": []})
    return cases


# ------------------------------------------------------------------ rendering to Coq
def q_shape(sh):
    return F.coq_list([f"{int(s)}%nat" for s in sh])


def q_fs(xs):
    return F.coq_list([F.coq_float(float(x)) for x in xs])


def elem_major(shape, tshape, times):
    n = nel(shape)
    if len(tshape) == len(shape) + 1 and n > 0:
        d = len(times) // n
        return [times[e * d:(e + 1) * d] for e in range(n)]
    return [[t] for t in times]


def q_op(op, shape):
    k = op[0]
    f, b = F.coq_float, F.coq_bool
    if k == "push":
        return f"SPush {q_fs(op[1])}"
    if k == "fill":
        return f"SFill {F.coq_list([q_fs(r) for r in op[1]])}"
    if k == "incr":
        return f"SIncr ({op[1]})"
    if k == "selS":
        _, tol, off, t, ic, par = op
        return f"SSelS {f(tol)} ({off}) {f(t)} {ic} {f(par)}"
    if k == "selT":
        _, tol, off, tshape, times, ic, par = op
        em = elem_major(shape, tshape, times)
        return f"SSelT {f(tol)} ({off}) {len(tshape)}%nat {F.coq_list([q_fs(r) for r in em])} {ic} {f(par)}"
    if k == "insS":
        _, sh, els, tol, off, t, ec, par, ip = op
        return f"SInsS {q_shape(sh)} {q_fs(els)} {f(tol)} ({off}) {f(t)} {ec} {f(par)} {b(ip)}"
    if k == "insT":
        _, sh, els, tol, off, tsh, times, ec, par, ip = op
        return f"SInsT {q_shape(sh)} {q_fs(els)} {f(tol)} ({off}) {q_shape(tsh)} {q_fs(times)} {ec} {f(par)} {b(ip)}"
    raise AssertionError(k)


def q_case(case):
    return (f"{'run_case_lite' if case.get('mixed') else 'run_case'} {case['N']}%nat {F.coq_float(case['dt'])} {q_shape(case['shape'])} "
            f"{F.coq_list([q_op(o, case['shape']) for o in case['ops']])}")


# ------------------------------------------------------------------ canonical forms and comparison
def is_ftriple(t):
    return isinstance(t, list) and len(t) == 3 and all(isinstance(x, int) for x in t)


def dec_state(t):
    """[N, ptr, kind, shape, rows-of-float-triples] -> same with python floats"""
    if t[2] != 2:
        return t[:3]
    return [t[0], t[1], 2, t[3], [[F.dec_float(x) for x in r] for r in t[4]]]


def dec_out(t):
    """[0,[tag,...]] / [1,code]"""
    if t[0] == 1:
        return t
    o = t[1]
    if o[0] == 3:
        return [0, [3, o[1], [F.dec_float(x) for x in o[2]]]]
    if o[0] == 4:
        return [0, [4, o[1], [[F.dec_float(x) for x in r] for r in o[2]]]]
    return t


def same(a, b, rel=1e-9, ab=1e-12):
    if isinstance(a, float) or isinstance(b, float):
        return isinstance(a, (int, float)) and isinstance(b, (int, float)) and F.close(float(a), float(b), rel, ab)
    if isinstance(a, list) and isinstance(b, list):
        return len(a) == len(b) and all(same(x, y, rel, ab) for x, y in zip(a, b))
    return a == b


# ------------------------------------------------------------------ direct oracle (independent of the Coq model)
def interp_ref(ic, par, p, n, sa, dt):
    if ic == 0:
        return p
    if ic == 1:
        return n
    if ic == 2:
        return n if Q(sa) / Q(dt) > Q(1, 2) else p
    if ic == 3:
        return p + (n - p) / dt * sa
    if ic == 4:
        return p * math.exp(-sa / par)
    if ic == 5:
        return p * math.exp(-sa * par)
    return p + 100.0 if ic == 6 else n + 300.0


def extrap_ref(ec, par, x, sa, p, n, dt):
    if ec == 0:
        return x, n
    if ec == 1:
        return p, x
    if ec == 2:
        return x, x
    if ec == 3:
        return (p, x) if Q(sa) > Q(dt) / 2 else (x, n)
    if ec == 4:
        p = p * par if par != 0 else p
        return p, p + (x - p) / sa * dt
    if ec == 5:
        n = n * par if par != 0 else n
        return n - (n - x) / (dt - sa) * dt, n
    if ec == 6:
        return x * math.exp(sa / par), x * math.exp((sa - dt) / par)
    return x * math.exp(sa * par), x * math.exp((sa - dt) * par)


def conv(x, sdt):
    """an observation element converted to the record's data type (torch .to(dtype) semantics)"""
    if sdt == "i64":
        return float(math.trunc(x))
    if sdt == "bool":
        return 1.0 if x != 0 else 0.0
    if sdt == "f32":
        return r32(x)
    return x


def locate(N, dt, tol, t):
    """The property's own reading of a time, in exact rational arithmetic:
    ('out',) / ('grid', k) / ('between', k, elapsed since the older sample = (k+1)dt - t)"""
    qd, qt, ql = Q(dt), Q(t), Q(tol)
    if qt < -ql or qt > qd * (N - 1) + ql:
        return ("out",)
    k = math.floor(qt / qd)
    for kk in (k, k + 1):
        if abs(kk * qd - qt) <= ql:
            return ("grid", kk)
    return ("between", k, float((k + 1) * qd - qt))


class Hist:
    """h(k) = the observation k steps before the write position, from an implementation snapshot"""

    def __init__(self, snap):
        self.N, self.ptr, self.rows = snap[0], snap[1], [list(r) for r in snap[4]]

    def at(self, k):
        return self.rows[(self.ptr - k) % self.N]


def expect_select(h, dt, tol, off, e, t, ic, par):
    loc = locate(h.N, dt, tol, t)
    if loc[0] == "grid":
        return h.at(off + loc[1])[e]
    k, sa = loc[1], loc[2]
    return interp_ref(ic, par, h.at(off + k + 1)[e], h.at(off + k)[e], sa, dt)


def oracle_case(case, trace):
    """returns a list of failures {step, op, what, expected, got}"""
    fails = []
    shape, dt = case["shape"], case["dt"]
    n = nel(shape)
    prev = None          # decoded snapshot before the operation
    rel, ab = vtol(case) or (1e-6, 1e-9)
    srel, sab = vtol(case) or (1e-9, 1e-12)       # scalar vs tensor branch
    rrel, rab = vtol(case) or (1e-7, 1e-9)        # round trip
    late = []            # reported after the select/insert failures of the same case
    sdt = case.get("dtype", "f64")
    dtype_bad = []
    for i, (op, ent) in enumerate(zip(case["ops"], trace)):
        out, snap, aux = ent[0], ent[1], ent[2]
        if "restore" in case and i >= case["restore"]["at"]:
            # restored record: it must report (and use) the step time it was given, with the same slots
            if F.dec_float(ent[4]) != dt or ent[5] != case["N"]:
                if not late:
                    late.append({"step": i, "op": op, "what": "restored-dt", "expected": [dt, case["N"]],
                                 "got": [F.dec_float(ent[4]), ent[5]]})
        # the record's data type: created by the first push (the observation's), never changed by select / insert
        if len(ent) > 3 and ent[3] is not None and ent[3] != sdt and not dtype_bad:
            dtype_bad.append({"step": i, "op": op, "what": "record-dtype-changed", "expected": sdt, "got": ent[3],
                              "observation_dtype": case.get("odt", {}).get(str(i), sdt)})
        snap = dec_state(snap)
        out = dec_out(out)
        pre, prev = prev, snap
        k = op[0]
        if k in ("push", "fill", "incr") or pre is None or pre[2] != 2:
            continue
        h = Hist(pre)
        N = h.N

        def fail(what, exp, got):
            fails.append({"step": i, "op": op, "what": what, "expected": exp, "got": got})
        if k in ("selS", "selT"):
            if k == "selS":
                _, tol, off, t, ic, par = op
                tshape, times = list(shape), [t] * n
            else:
                _, tol, off, tshape, times, ic, par = op
                if len(tshape) not in (len(shape), len(shape) + 1):
                    continue
            locs = [locate(N, dt, tol, t) for t in times]
            if any(l[0] == "out" for l in locs):
                if out != [1, 2]:
                    fail("range-not-rejected", "ValueError", out)
                continue
            if out[0] != 0:
                fail("range-rejected-in-range", "a value", out)
                continue
            em = elem_major(shape, tshape, times) if k == "selT" else [[t] for t in times]
            exp = [[expect_select(h, dt, tol, off, e, t, ic, par) for t in em[e]] for e in range(n)]
            got = out[1][2]
            if out[1][0] == 3:
                got = [[g] for g in got]
            if not same(exp, got, rel, ab):
                kinds = sorted({l[0] for l in locs})
                fail("select-value-" + "+".join(kinds), exp, got)
            if snap != pre:
                fail("select-changed-state", pre, snap)
            if aux is not None:
                sc = [[F.dec_float(x) for x in r] for r in aux]
                if not same(sc, got, srel, sab):
                    fail("scalar-tensor-disagree", sc, got)
        else:
            if k == "insS":
                _, sh, els, tol, off, t, ec, par, ip = op
                tsh, times = list(sh), [t] * nel(sh)
            else:
                _, sh, els, tol, off, tsh, times, ec, par, ip = op
            if sh != shape or tsh != shape:
                continue
            locs = [locate(N, dt, tol, t) for t in times]
            if any(l[0] == "out" for l in locs):
                if out != [1, 2]:
                    fail("range-not-rejected", "ValueError", out)
                continue
            if out[0] != 0:
                fail("range-rejected-in-range", "no error", out)
                continue
            new = Hist(pre)
            for e in range(n):
                l = locs[e]
                if l[0] == "grid":
                    new.at(off + l[1])[e] = conv(els[e], sdt)
                else:
                    kk, sa = l[1], l[2]
                    pe, ne = extrap_ref(ec, par, els[e], sa, h.at(off + kk + 1)[e], h.at(off + kk)[e], dt)
                    new.at(off + kk + 1)[e] = conv(pe, sdt)
                    new.at(off + kk)[e] = conv(ne, sdt)
            exp = [pre[0], pre[1], 2, pre[3], new.rows]
            if not same(exp, snap, rel, ab):
                # frame or value?
                touched = set()
                for e in range(n):
                    l = locs[e]
                    ks = [l[1]] if l[0] == "grid" else [l[1], l[1] + 1]
                    touched |= {((h.ptr - (off + kk)) % N, e) for kk in ks}
                frame_bad = (snap[:4] != exp[:4]) or any(
                    not same(snap[4][r][e], pre[4][r][e]) for r in range(N) for e in range(n) if (r, e) not in touched)
                kinds = sorted({l[0] for l in locs})
                fail(("insert-frame-" if frame_bad else "insert-value-") + "+".join(kinds), exp, snap)
    # insert followed by select at the same time with a matching pair returns the inserted value
    for i in case.get("rt", []):
        o1, o2 = trace[i][0], trace[i + 1][0]
        if o1[0] != 0 or o2[0] != 0:
            continue
        els = case["ops"][i][2]
        got = dec_out(o2)[1][2]
        if dec_out(o2)[1][0] == 4:
            got = [g[0] for g in got]
        els = [conv(x, sdt) for x in els]
        if not same(list(els), got, rrel, rab):
            fails.append({"step": i + 1, "op": case["ops"][i + 1], "what": "roundtrip", "expected": els, "got": got,
                          "pair": [case["ops"][i][-3], case["ops"][i + 1][-2]]})
    return dtype_bad + fails + late


def signature(f, case=None):
    sig = {"what": f["what"], "op": f["op"][0]}
    if case is not None and case.get("dtype", "f64") != "f64":
        sig["dtype"] = case["dtype"]
    if case is not None and "restore" in case:
        sig["restore"] = case["restore"]["via"]
    if case is not None and case.get("mixed"):
        sig["tdtype"] = case.get("tdtype", "f64")
    if case is not None and "step" in f and str(f["step"]) in case.get("omit", {}):
        sig["omitted"] = True
    return sig


# ------------------------------------------------------------------ run
def classify(case):
    """kinds of in-range times exercised by a case (for the evidence)"""
    out = Counter()
    N, dt = case["N"], case["dt"]
    for op in case["ops"]:
        if op[0] == "selS":
            ts, tol = [op[3]], op[1]
        elif op[0] == "selT":
            ts, tol = op[4], op[1]
        elif op[0] == "insS":
            ts, tol = [op[5]], op[3]
        elif op[0] == "insT":
            ts, tol = op[6], op[3]
        else:
            continue
        for t in ts:
            out[locate(N, dt, tol, t)[0]] += 1
    return out


def compare(case, ti, tm):
    """model trace vs implementation trace; None or the first difference"""
    if len(ti) != len(tm):
        return {"detail": "trace lengths differ", "impl": len(ti), "model": len(tm)}
    rel, ab = vtol(case) or (1e-9, 1e-12)
    for j, (ient, (mo, msn)) in enumerate(zip(ti, tm)):
        io, isn = ient[0], ient[1]
        a, b = dec_out(io), dec_out(mo)
        if not same(a, b, rel, ab):
            return {"first_diff_step": j, "op": case["ops"][j], "where": "output", "impl": a, "model": b}
        if msn == []:            # long records: the model reports the state only after operations that can change it
            continue
        a, b = dec_state(isn), dec_state(msn)
        if not same(a, b, rel, ab):
            return {"first_diff_step": j, "op": case["ops"][j], "where": "state", "impl": a, "model": b}
    return None


def is_float_case(c):
    """cases that also go through the Coq model"""
    return c.get("dtype", "f64") in ("f64", "f32") and "restore" not in c


def run(ctx):
    rng = random.Random(ctx["seed"])
    quick = ctx["tier"] == "quick"
    n = 260 if quick else 3000
    corpus = load_corpus()
    fcases = [c for c in corpus if is_float_case(c)] + gen_cases(rng, n)
    exhaustive = not quick
    if exhaustive:
        fcases += exhaustive_cases()
    # non-float storage (int64 / bool records): implementation-side oracle only, own random stream
    ncases = [c for c in corpus if not is_float_case(c)] + \
        gen_nonfloat_cases(random.Random(ctx["seed"] * 7919 + 13), 120 if quick else 1500)
    # records whose step time arrives through load_state_dict / set_extra_state: oracle only, own random stream
    ncases += gen_restore_cases(random.Random(ctx["seed"] * 104729 + 7), 60 if quick else 800)
    # mixed precision (storage dtype x time dtype, long records, non-representable dt), own random stream; the cases with
    # floating storage also go through the Coq model, evaluated in binary64 on the exact times
    mixed = gen_mixed_cases(random.Random(ctx["seed"] * 15485863 + 3), 40 if quick else 400)
    fcases += [c for c in mixed if is_float_case(c)]
    ncases += [c for c in mixed if not is_float_case(c)]
    cases = fcases + ncases
    orng = random.Random(ctx["seed"] * 32452843 + 11)          # own stream: the cases themselves are as before
    for c in cases:
        if c not in corpus:
            apply_omissions(c, orng)
    impl = F.run_impl(IMPL, {"cases": cases})
    nshort = len([c for c in fcases if not c.get("mixed")])
    model = F.eval_terms(ID, HEADER, [q_case(c) for c in fcases[:nshort]], shard=20 if quick else 100) + \
        F.eval_terms(ID, HEADER, [q_case(c) for c in fcases[nshort:]], shard=2 if quick else 8, tag="mixed")
    mismatches, oracle_fail = [], []
    for c, ti, tm in zip(fcases, impl, model):
        if isinstance(tm, Exception):
            mismatches.append({"case": c, "detail": str(tm)})
        else:
            d = compare(c, ti, tm)
            if d is not None:
                mismatches.append({"case": c, "detail": d})
    for c, ti in zip(cases, impl):
        for f in oracle_case(c, ti)[:1]:
            oracle_fail.append({"case": c, "detail": f, "signature": signature(f, c)})
    dist = Counter(o[0] for c in cases for o in c["ops"])
    errs = Counter(("err%d" % t[0][1]) for tr in impl for t in tr if t[0][0] == 1)
    kinds = Counter()
    for c in cases:
        kinds.update(classify(c))
    pairs = Counter()
    for c in cases:
        for i in c.get("rt", []):
            pairs[f"extrap{c['ops'][i][-3]}/interp{c['ops'][i + 1][-2]}"] += 1
    nontrivial = {repr(c) for c in cases if classify(c)["between"] >= 1 and classify(c)["grid"] >= 1}
    return {
        "evaluations": len(cases),
        "distinct_nontrivial": len(nontrivial),
        "rule": "seeded random select/insert sequences on a filled RecordTensor (N in 1..6, dt in {1,.5,.25,1.3,.1}, pointer anywhere, "
                "offsets -1..N+1, 5 shapes, scalar and tensor times on grid / within tolerance / exactly at +-tol (dyadic) / just "
                "outside / off grid / at both range limits / out of range, 6 interpolations, 8 extrapolations, in-place and not, "
                "insert+select round trips over the shipped matching pairs; every 4th case from a malformed stream); "
                "non-trivial = at least one on-grid and one off-grid in-range time; distinct by full case text"
                + ("; plus exhaustive small scope: N<=3, every pointer, offsets 0..N, 6 interpolations, all time kinds" if exhaustive else "")
                + "; plus an oracle-only stream of the same sequences on int64 and bool records (integer-preserving extrapolations; "
                  "expected values from the list-of-observations history with exact Fractions; scalar vs tensor agreement) and an "
                  "oracle-only stream on persist_temporal=True records built with another step time (same slot count) whose "
                  "dt/duration arrive through load_state_dict or set_extra_state before the selects/inserts (expected values with the NEW dt)"
                  "; plus a mixed-precision stream: storage float32/float64/int64/bool x time tensors and scalar times in float64 or "
                  "float32, records of 24..256 slots (times to ~330), dt in {1.3,.9,.45,.1}, on-grid times as computed in float64, "
                  "within / outside tolerance (default 1e-6 for float64 times), probe interpolations exposing the decision; floating "
                  "storage cases also through the Coq model in binary64 on the exact times; in it the observation of every insert has a data "
                  "type chosen independently of the record's (wider / narrower / int <-> float <-> bool): the record's type must never "
                  "change and the stored values are the observation converted to it. In every stream ~35% of the select / insert calls "
                  "leave optional arguments out (offset, tolerance, interp / extrap, *_kwargs, inplace): model and oracle then use the "
                  "DOCUMENTED defaults hard-coded in this file",
        "op_distribution": dict(dist), "error_distribution": dict(errs), "time_kind_distribution": dict(kinds),
        "roundtrip_pairs": dict(pairs),
        "N_distribution": dict(Counter(c["N"] for c in cases)),
        "dt_distribution": dict(Counter(str(c["dt"]) for c in cases)),
        "samples": cases[:2],
        "mismatches": mismatches, "oracle_failures": oracle_fail,
        "traces_validated_against_impl": len(fcases) - len(mismatches),
        "model_correspondence_cases": len(fcases), "oracle_only_cases": len(ncases),
        "restored_step_time_cases": dict(Counter(c["restore"]["via"] for c in cases if "restore" in c)),
        "calls_with_omitted_optional_arguments": dict(Counter(nm for c in cases for v in c.get("omit", {}).values() for nm in v)),
        "insert_observation_dtype_vs_storage": dict(Counter(f"{od} into {c['dtype']}" for c in cases for od in c.get("odt", {}).values())),
        "storage_dtype_distribution": dict(Counter(c.get("dtype", "f64") for c in cases)),
        "mixed_precision_cases": dict(Counter(f"storage {c['dtype']} / times {c['tdtype']}" for c in cases if c.get("mixed"))),
    }


def load_corpus():
    import glob, json
    out = []
    for p in sorted(glob.glob(os.path.join(F.VERIF, "corpus", ID, "*.json"))):
        out.append(json.load(open(p)))
    return out


def first_failure(case):
    t = F.run_impl(IMPL, {"cases": [case]})[0]
    fs = oracle_case(case, t)
    return fs[0] if fs else None


def minimise(case):
    """keep the pushes, drop every other operation that is not needed for the first failure"""
    d = first_failure(case)
    if d is None:
        return case, None
    what = d["what"]
    ops = list(case["ops"][: d["step"] + 1])
    rt = [i for i in case.get("rt", []) if i + 1 <= d["step"]]
    i = len(ops) - 2
    while i >= 0:
        if not (what == "roundtrip" and i == len(ops) - 2):
            cand = drop_op(case, ops, rt, i)
            try:
                d2 = first_failure(cand)
            except Exception:
                d2 = None
            if d2 is not None and d2["what"] == what:
                case, ops, rt, d = cand, cand["ops"], cand["rt"], d2
        i -= 1
    return dict(case, ops=ops, rt=rt), d


def replay(case):
    d = first_failure(case)
    if d is None:
        return True, "replay: the implementation satisfies the select/insert property on this case"
    return False, "replay: still failing: " + repr(d)[:1500]
