"""C01 - RecordTensor is a faithful ring buffer: case generator, Coq rendering, direct oracle."""
from __future__ import annotations
import copy, os, random
import framework as F

ID = "C01"
GEN = ["Infra"]
LEVEL = "proof"
TECHNIQUE = "Coq proof: refinement of the RecordTensor model to a list-of-observations spec, by induction over operation sequences (model tied to the code by translation of _unwind_ptr and by differential correspondence)"
LEVEL_TEXT = ("Machine-checked proof (Coq, axiom-free) that every RecordTensor operation of the model acts on "
              "'the observation k steps before the write position' exactly as a list-of-observations model says, for every "
              "record size N>=1, pointer position, shape and operation sequence (invariant lifted over runs); the model is "
              "tied to the code by re-translating _unwind_ptr on every run and by a differential correspondence check of all 13 "
              "operations against the real class; a pointer-free Python list model is the direct oracle / failing-input search.")
LEVEL_NOTE = ("Trusted: Coq kernel; translator for _unwind_ptr; hand-written model C01/Ring.v validated by correspondence only "
              "(generator coverage); torch indexing/cat/gather/scatter/roll modelled by their meaning. Proved: read, write (both "
              "branches), incr/decr, push (incl. storage creation and dtype adoption), pop/peek, align, reset, readrange "
              "scalar+tensor and their agreement, writerange scalar (all three code paths) and tensor (scatter), well-formedness "
              "over every run. Negative align indices and dtype promotion corner cases are covered by correspondence only. "
              "Aliasing is outside the value-based Coq model: that the record holds its own copy of what it was given (caller "
              "overwrites its observation / offset tensors after the call, reuses offset tensor objects) is checked by the "
              "differential harness only (the model and the oracle get the values at call time); tensors returned by pop / peek / "
              "read / scalar-offset readrange are views of the storage on the unchanged code and are not written to. The oracle "
              "judges observations of another data type on every write path (conversion to the record's own type, storage type "
              "unchanged, no raise); disagreements that are only about that carry the signature kind 'range_write_dtype'.")
HEADER = ("From Coq Require Import List ZArith Bool.\nFrom Inferno Require Import Base.NumF C01.Ring C01.RingExec.\n"
          "Import ListNotations.\nOpen Scope Z_scope.\n")
IMPL = os.path.join(F.VERIF, "tools", "impl", "c01_impl.py")

SHAPES = [[], [2], [2, 3], [1], [3, 1]]
# integer dtypes in which tensor offsets are handed to the implementation (last field of 'rrt' / 'wrt'; used by the
# implementation side only: the Coq model and the oracle see the same integer offsets).  Values are identical in all
# of them (default stream: offsets <= 2N <= 14, lengths <= 7, so nothing the caller passes is out of range).
OFFSET_DTYPES = ["int64", "int32", "int16", "uint8"]


def nel(shape):
    n = 1
    for s in shape:
        n *= s
    return n


def rand_val(rng, d):
    if d == 0:
        return rng.choice([0, 2])
    if d == 1:
        return 2 * rng.randint(-9, 9)
    return rng.randint(-19, 19)  # halves


# Optional arguments of the RecordTensor operations: op kind -> {keyword: (index of its field in the op, DOCUMENTED default)}.
# The defaults were read ONCE from the signatures / "Defaults to" lines of the docstrings of inferno/core/infrastructure.py
# (push(obs, inplace=False); read(offset=1); write(obs, offset=0, inplace=False); incr(pos=1); decr(pos=1); align(index=0);
# reset(fill=0); readrange(length, offset=1, forward=False); writerange(obs, offset=0, forward=False, inplace=False); pop() and
# peek() take no arguments) and are hard-coded here on purpose: they are NOT read from the code at run time, so a changed
# default is a disagreement with the documented behaviour.  An op whose last element is {"omit": [keywords]} is called
# WITHOUT those keywords by the implementation side; its fields hold the documented defaults, which is what the Coq model and
# the oracle (which never look at the trailing dict) use.  Tensor-offset ranges cannot omit the offset (that is the scalar op).
OPTIONAL = {
    "push": {"inplace": (4, False)},
    "read": {"offset": (1, 1)},
    "write": {"offset": (4, 0), "inplace": (5, False)},
    "incr": {"pos": (1, 1)},
    "decr": {"pos": (1, 1)},
    "align": {"index": (1, 0)},
    "reset": {"fill": (1, 0)},
    "rrs": {"offset": (2, 1), "forward": (3, False)},
    "rrt": {"forward": (4, False)},
    "wrs": {"offset": (4, 0), "forward": (5, False), "inplace": (6, False)},
    "wrt": {"forward": (6, False), "inplace": (7, False)},
}


def omit_args(op, aux, p_op=0.3, p_arg=0.6):
    """with probability p_op: leave out a random subset of the optional arguments of this call (fields set to the
    documented defaults).  `inplace` of a scalar-offset writerange is only left out when it already is the default (the
    generator chose the observation dtype depending on it)."""
    opt = OPTIONAL.get(op[0])
    if not opt or isinstance(op[-1], dict) or aux.random() >= p_op:
        return op
    names = []
    for name, (idx, default) in opt.items():
        if aux.random() < p_arg:
            if op[0] == "wrs" and name == "inplace" and op[idx] != default:
                continue
            if op[0] == "push" and name == "inplace" and "latest" in op[5:]:
                continue
            op[idx] = default
            names.append(name)
    if names:
        op.append({"omit": names})
    return op


def op_omits(op):
    return op[-1]["omit"] if isinstance(op[-1], dict) else []


def gen_case(rng: random.Random, malformed: bool, aux: random.Random | None = None):
    """aux: independent generator for the implementation-only fields (keeps the main stream what it was)"""
    aux = aux or random.Random(0)
    N = rng.choice([1, 1, 2, 2, 3, 3, 4, 5, 6, 7])
    shape = rng.choice(SHAPES)
    d0 = rng.choice([0, 1, 1, 2, 2])
    kind = rng.choice(["none", "empty", "full", "full", "full"])
    if kind == "none":
        init = ["none"]
    elif kind == "empty":
        init = ["empty", d0]
    else:
        init = ["full", d0, shape, [rand_val(rng, d0) for _ in range(nel(shape))]]
    # data type the record will have (first push adopts the observation's type for None storage)
    dcur = d0 if kind != "none" else None
    # what the caller does with its own tensors (implementation-only, see tools/impl/c01_impl.py): overwrite the tensors it
    # handed in / got back, reuse one offset tensor object per (shape, dtype) and update it in place between uses
    alias = {"obs": aux.random() < 0.8, "ret": aux.random() < 0.8, "pool": aux.random() < 0.8}
    case_odt = aux.choice(OFFSET_DTYPES) if aux.random() < 0.75 else None     # one offset dtype per case: the pool gets reused
    ops = []
    nops = rng.randint(3, 40)
    inited = kind == "full"
    for _ in range(nops):
        choices = ["push"] * 6 + ["pop", "peek", "read", "read", "write", "write", "incr", "decr", "align",
                                  "reset", "rrs", "rrs", "rrs", "rrt", "rrt", "wrs", "wrs", "wrs", "wrt", "wrt"]
        k = rng.choice(choices)
        bad_shape = malformed and rng.random() < 0.15
        sh = rng.choice([s for s in SHAPES if s != shape]) if bad_shape else shape
        mixed = rng.random() < 0.3
        dd = rng.choice([0, 1, 2]) if (mixed or dcur is None) else dcur
        if k == "push":
            ops.append(["push", dd, sh, [rand_val(rng, dd) for _ in range(nel(sh))], rng.random() < 0.5])
            if not ops[-1][4] and aux.random() < 0.3:
                ops[-1].append("latest")        # implementation side: `rec.latest = obs` (alias of the out-of-place push)
            if not bad_shape or not inited:
                if dcur is None:
                    dcur = dd
                if not inited:
                    inited = True
                    shape = sh
        elif k in ("pop", "peek"):
            ops.append([k])
            if k == "peek" and aux.random() < 0.4:
                ops[-1].append("latest")        # implementation side: the `latest` getter (alias of peek)
        elif k == "read":
            ops.append(["read", rng.randint(0, 2 * N)])
        elif k == "write":
            ops.append(["write", dd, sh, [rand_val(rng, dd) for _ in range(nel(sh))], rng.randint(0, 2 * N),
                        rng.random() < 0.5])
        elif k in ("incr", "decr"):
            ops.append([k, rng.randint(0, 2 * N)])
        elif k == "align":
            ops.append(["align", rng.randint(0, N - 1) if not (malformed and rng.random() < 0.3) else N + rng.randint(0, 2)])
        elif k == "reset":
            ops.append(["reset", rng.choice([None, 0, 2, 3, -4])])
        elif k == "rrs":
            ln = rng.choice([N, rng.randint(1, N)])
            ops.append(["rrs", ln, rng.randint(0, 2 * N), rng.random() < 0.5])
        elif k == "rrt":
            ln = rng.choice([N, rng.randint(1, N)])
            ops.append(["rrt", ln, [rng.randint(0, 2 * N) for _ in range(nel(sh))], sh, rng.random() < 0.5,
                        case_odt or aux.choice(OFFSET_DTYPES)])
        elif k == "wrs":
            ln = rng.choice([N, rng.randint(1, N)]) if not (malformed and rng.random() < 0.2) else N + 1
            inplace = rng.random() < 0.5
            # out-of-place contiguous writes promote the storage type (documented); keep the record's type
            # unless the write is in place
            de = dd if inplace else (dcur if dcur is not None else dd)
            ops.append(["wrs", de, sh, [[rand_val(rng, de) for _ in range(ln)] for _ in range(nel(sh))],
                        rng.randint(0, 2 * N), rng.random() < 0.5, inplace])
        elif k == "wrt":
            ln = rng.choice([N, rng.randint(1, N)])
            de = dcur if (dcur is not None and not (malformed and rng.random() < 0.3)) else dd
            ops.append(["wrt", de, sh, [[rand_val(rng, de) for _ in range(ln)] for _ in range(nel(sh))],
                        [rng.randint(0, 2 * N) for _ in range(nel(sh))], sh, rng.random() < 0.5, rng.random() < 0.5,
                        case_odt or aux.choice(OFFSET_DTYPES)])
    for o in ops:
        omit_args(o, aux)
    return {"N": N, "init": init, "ops": ops, "alias": alias}


def gen_cases(rng, n, aux=None):
    return [gen_case(rng, malformed=(i % 4 == 3), aux=aux) for i in range(n)]


def gen_offset_cases(rng, n):
    """second stream, aimed at the tensor-offset paths of readrange / writerange: record sizes that do not divide 256
    (and a few that do), distinguishable contents, ranges in both directions whose offsets are small (some element with
    offset < length-1, so that a forward range reaches past the write position) or large (up to 2N), the offsets handed
    over in every integer dtype of OFFSET_DTYPES in turn"""
    cases = []
    for i in range(n):
        N = [3, 5, 6, 7, 3, 5, 6, 7, 2, 4][i % 10]
        shape = rng.choice([[2], [2, 3], [], [3, 1], [1]])
        d = rng.choice([1, 2, 2])
        ne = nel(shape)
        ops = []
        c = 1
        for _ in range(rng.randint(N - 1, N + 2)):       # distinct observations, pointer anywhere
            ops.append(["push", d, shape, [2 * (c + 20 * e) for e in range(ne)], rng.random() < 0.5])
            c += 1
        for r in range(rng.randint(3, 6)):
            odt = OFFSET_DTYPES[(i + r) % len(OFFSET_DTYPES)]
            ln = rng.choice([N, N, max(1, N - 1), rng.randint(1, N)])
            fwd = rng.random() < 0.7
            small = rng.random() < 0.7
            offs = [rng.randint(0, max(0, ln - 2)) if (small and rng.random() < 0.7) else rng.randint(0, 2 * N)
                    for _ in range(ne)]
            if rng.random() < 0.35:
                ops.append(["wrt", d, shape, [[2 * (100 + 10 * e + j) for j in range(ln)] for e in range(ne)], offs, shape,
                            fwd, rng.random() < 0.5, odt])
                ops.append(["rrs", N, 1, False])
            else:
                ops.append(["rrt", ln, offs, shape, fwd, odt])
            if rng.random() < 0.3:
                ops.append(["push", d, shape, [2 * (c + 20 * e) for e in range(ne)], rng.random() < 0.5])
                c += 1
        cases.append({"N": N, "init": ["full", d, shape, [-2] * ne], "ops": ops})
    return cases


def gen_alias_cases(rng, n):
    """third stream, aimed at ALIASING between the record and the caller's tensors: all record sizes incl. 1 and 2, every
    observation dtype, storage given / auto-created; every observation tensor is overwritten by the caller after the call,
    the same offset tensor object is reused (updated in place) for repeated tensor-offset range reads / writes with the
    same length and direction, and every write is followed by reads of what must be there."""
    cases = []
    for i in range(n):
        N = [1, 2, 1, 3, 2, 1, 5, 2, 4, 7][i % 10]
        shape = rng.choice([[2], [2, 3], [], [3, 1], [1], [2]])
        d = [1, 2, 0, 2, 1][i % 5]
        ne = nel(shape)
        odt = OFFSET_DTYPES[(i // 3) % len(OFFSET_DTYPES)]
        c = [1]

        def val(e):
            return (2 if (c[0] + e) % 2 else 0) if d == 0 else (2 * (c[0] + 20 * e) if d == 1 else 2 * (c[0] + 20 * e) + 1)

        def obs():
            c[0] += 1
            return [val(e) for e in range(ne)]

        def cols(ln):
            c[0] += 1
            return [[(val(e) + 2 * j * (d != 0)) if d else (2 if (c[0] + e + j) % 2 else 0) for j in range(ln)]
                    for e in range(ne)]

        kind = rng.choice(["none", "full", "full"])
        init = ["none"] if kind == "none" else ["full", d, shape, obs()]
        ops = [["push", d, shape, obs(), False]] if kind == "none" else []
        ln0, fwd0 = rng.choice([N, rng.randint(1, N)]), rng.random() < 0.5      # the repeated range read
        for _ in range(rng.randint(6, 14)):
            k = rng.choice(["push", "push", "push", "write", "wrs", "wrt", "rrt", "rrt", "rrt", "incr"])
            if k == "push":
                ip = rng.random() < 0.35
                ops.append(["push", d, shape, obs(), ip] + (["latest"] if not ip and rng.random() < 0.4 else []))
                ops.append(["read", rng.choice([1, 1, N, N + 1])])
            elif k == "write":
                off = rng.randint(0, 2 * N)
                ops.append(["write", d, shape, obs(), off, rng.random() < 0.35])
                ops.append(["read", off])
            elif k == "wrs":
                ln = rng.choice([N, rng.randint(1, N)])
                ops.append(["wrs", d, shape, cols(ln), rng.randint(0, 2 * N), rng.random() < 0.5, rng.random() < 0.35])
                ops.append(["rrs", N, 1, False])
            elif k == "wrt":
                ln = rng.choice([ln0, rng.randint(1, N)])
                ops.append(["wrt", d, shape, cols(ln), [rng.randint(0, 2 * N) for _ in range(ne)], shape,
                            rng.choice([fwd0, rng.random() < 0.5]), rng.random() < 0.5, odt])
                ops.append(["rrs", N, 1, False])
            elif k == "rrt":
                ops.append(["rrt", ln0, [rng.randint(0, 2 * N) for _ in range(ne)], shape, fwd0, odt])
            else:
                ops.append(["incr", rng.randint(0, N)])
        ops.append(["rrs", N, 1, False])
        cases.append({"N": N, "init": init, "ops": ops, "alias": {"obs": True, "ret": True, "pool": True}})
    return cases


def gen_dtype_cases(rng, n):
    """fourth stream: observations whose data type differs from the record's, through every write path (push / latest=,
    write, scalar- and tensor-offset writerange, in place and out of place, contiguous and wrapped ranges, N >= 1): the
    property says they are converted to the record's own data type - nothing else may change, in particular not the data
    type of the storage, and nothing may raise."""
    cases = []
    for i in range(n):
        N = [3, 2, 4, 1, 5][i % 5]
        shape = rng.choice([[2], [], [2, 3], [1]])
        d0 = [1, 2, 0][i % 3]
        de = rng.choice([x for x in (0, 1, 2) if x != d0])
        ne = nel(shape)
        ops = [["push", d0, shape, [rand_val(rng, d0) for _ in range(ne)], rng.random() < 0.5]
               for _ in range(rng.randint(0, N + 1))]
        for _ in range(rng.randint(2, 4)):
            k = ["wrs", "wrt", "wrs", "wrt", "push", "write"][(i + len(ops)) % 6] if rng.random() < 0.7 else rng.choice(
                ["wrs", "wrt", "push", "write"])
            if k == "push":
                ops.append(["push", de, shape, [rand_val(rng, de) for _ in range(ne)], rng.random() < 0.5])
            elif k == "write":
                ops.append(["write", de, shape, [rand_val(rng, de) for _ in range(ne)], rng.randint(0, 2 * N),
                            rng.random() < 0.5])
            elif k == "wrs":
                ln = rng.choice([N, rng.randint(1, N)])
                ops.append(["wrs", de, shape, [[rand_val(rng, de) for _ in range(ln)] for _ in range(ne)],
                            rng.randint(0, 2 * N), rng.random() < 0.5, rng.random() < 0.4])
            else:
                ln = rng.choice([N, rng.randint(1, N)])
                ops.append(["wrt", de, shape, [[rand_val(rng, de) for _ in range(ln)] for _ in range(ne)],
                            [rng.randint(0, 2 * N) for _ in range(ne)], shape, rng.random() < 0.5, rng.random() < 0.5,
                            rng.choice(OFFSET_DTYPES)])
            ops.append(["rrs", N, 1, False])
            ops.append(["push", d0, shape, [rand_val(rng, d0) for _ in range(ne)], rng.random() < 0.5])
        cases.append({"N": N, "init": ["full", d0, shape, [rand_val(rng, d0) for _ in range(ne)]], "ops": ops,
                      "alias": {"obs": rng.random() < 0.5, "ret": False, "pool": False}})
    return cases


def narrow_offset_overflow_cases():
    """NOT part of the default stream (finding candidate on the unchanged code, reported to the lead): tensor offsets of a
    narrow integer dtype close to its maximum; the backward path computes ``offset + (length - 1)`` in that dtype."""
    mk = lambda odt, offs: {"N": 3, "init": ["full", 2, [2], [-2, -2]],
                            "ops": [["push", 2, [2], [2 * k, 20 * k], False] for k in (1, 2, 3)]
                            + [["rrt", 3, offs, [2], False, odt]]}
    return [mk("uint8", [254, 253]), mk("int8", [126, 125]), mk("int16", [32766, 32765]), mk("int64", [254, 253])]


def exhaustive_cases(maxN=3, depth=3):
    """every operation sequence up to `depth` over a reduced alphabet, N <= maxN, scalar shape, int64"""
    cases = []
    for N in range(1, maxN + 1):
        alpha = [["push", 1, [], [2], False], ["push", 1, [], [4], True], ["pop"], ["read", 1], ["incr", 1],
                 ["write", 1, [], [6], 1, False], ["align", 0], ["rrs", N, 1, False], ["rrs", 1, 0, True],
                 ["rrt", N, [N], [], False], ["wrs", 1, [], [[8] * N], 0, False, False],
                 ["wrs", 1, [], [[10]], 1, True, True], ["wrt", 1, [], [[12] * N], [1], [], False, False],
                 ["reset", 0]]
        import itertools
        for dpt in range(1, depth + 1):
            for seq in itertools.product(range(len(alpha)), repeat=dpt):
                ops = []
                v = 0
                for i in seq:
                    o = copy.deepcopy(alpha[i])
                    ops.append(o)
                # make pushes distinguishable
                c = 1
                for o in ops:
                    if o[0] == "push":
                        o[3] = [2 * c]; c += 1
                ops += [["rrs", N, 1, False]]
                cases.append({"N": N, "init": ["full", 1, [], [-2]], "ops": ops})
    return cases


# ------------------------------------------------------------------ rendering to Coq
def q_shape(sh):
    return F.coq_list([f"{int(s)}%nat" for s in sh])


def q_zs(zs):
    return F.coq_list([str(int(z)) if z >= 0 else f"({int(z)})" for z in zs])


def q_obs(d, sh, els):
    return f"(mkObs {d} {q_shape(sh)} {q_zs(els)})"


def q_rng(d, sh, cols):
    return f"(mkRng {d} {q_shape(sh)} {F.coq_list([q_zs(c) for c in cols])})"


def q_op(op):
    k = op[0]
    b = F.coq_bool
    if k == "push":
        return f"OpPush {q_obs(op[1], op[2], op[3])} {b(op[4])}"
    if k == "pop":
        return "OpPop"
    if k == "peek":
        return "OpPeek"
    if k == "read":
        return f"OpRead ({op[1]})"
    if k == "write":
        return f"OpWrite {q_obs(op[1], op[2], op[3])} ({op[4]}) {b(op[5])}"
    if k == "incr":
        return f"OpIncr ({op[1]})"
    if k == "decr":
        return f"OpDecr ({op[1]})"
    if k == "align":
        return f"OpAlign ({op[1]})"
    if k == "reset":
        return "OpReset None" if op[1] is None else f"OpReset (Some ({op[1]}))"
    if k == "rrs":
        return f"OpReadRangeS {op[1]}%nat ({op[2]}) {b(op[3])}"
    if k == "rrt":
        return f"OpReadRangeT {op[1]}%nat {q_zs(op[2])} {q_shape(op[3])} {b(op[4])}"
    if k == "wrs":
        return f"OpWriteRangeS {q_rng(op[1], op[2], op[3])} ({op[4]}) {b(op[5])} {b(op[6])}"
    if k == "wrt":
        return f"OpWriteRangeT {q_rng(op[1], op[2], op[3])} {q_zs(op[4])} {q_shape(op[5])} {b(op[6])} {b(op[7])}"
    raise AssertionError(k)


def q_case(case):
    init = case["init"]
    if init[0] == "none":
        st = "SNone"
    elif init[0] == "empty":
        st = f"(SEmpty {init[1]})"
    else:
        st = f"(SFull {init[1]} {q_shape(init[2])} (repeat {q_zs(init[3])} {case['N']}%nat))"
    return f"run_case {case['N']}%nat {st} {F.coq_list([q_op(o) for o in case['ops']])}"


# ------------------------------------------------------------------ direct oracle
def cast(d, z):
    if d == 0:
        return 2 if z != 0 else 0
    if d == 1:
        return 2 * int(z / 2) if z >= 0 else -2 * int(-z / 2)
    return z


class ListModel:
    """The property's own model: h[k] is the observation k steps before the write position (k taken
    modulo N): h[1] the newest, h[0] (= h[N]) the oldest / the slot overwritten next."""

    def __init__(self, case):
        self.N = case["N"]
        init = case["init"]
        self.d = None if init[0] == "none" else init[1]
        self.shape = None
        self.h = None
        if init[0] == "full":
            self.shape = init[2]
            self.h = [list(init[3]) for _ in range(self.N)]

    def at(self, k):
        return self.h[k % self.N]

    def step(self, op):
        """returns expected output (same encoding as the implementation trace) or None when the oracle
        has no opinion (error paths are judged by the model correspondence, not by the property)"""
        k = op[0]
        N = self.N
        if self.h is None:
            if k == "push":
                if self.d is None:
                    self.d = op[1]           # storage created by the first push adopts the observation's type
                self.shape = op[2]
                self.h = [[0] * nel(op[2]) for _ in range(N)]
            elif k in ("pop", "peek"):
                return [0]
            else:
                return None
        if k == "push":
            if op[2] != self.shape:
                return None
            self.h[0] = [cast(self.d, z) for z in op[3]]
            self.h = [self.h[(i - 1) % N] for i in range(N)]
            return [1]
        if k == "peek":
            return [3, self.d, self.shape, self.at(1)]
        if k == "pop":
            out = self.at(1)
            self.h = [self.h[(i + 1) % N] for i in range(N)]
            return [3, self.d, self.shape, out]
        if k == "read":
            return [3, self.d, self.shape, self.at(op[1])]
        if k == "write":
            if op[2] != self.shape:
                return None
            self.h[op[4] % N] = [cast(self.d, z) for z in op[3]]
            return [1]
        if k == "incr":
            j = op[1]
            self.h = [self.h[(i - j) % N] for i in range(N)]
            return "int"
        if k == "decr":
            j = op[1]
            self.h = [self.h[(i + j) % N] for i in range(N)]
            return "int"
        if k == "align":
            return None
        if k == "reset":
            if op[1] is not None:
                self.h = [[cast(self.d, op[1])] * nel(self.shape) for _ in range(N)]
            return [1]
        if k in ("rrs", "rrt"):
            ln = op[1]
            fwd = op[3] if k == "rrs" else op[4]
            if k == "rrt" and op[3] != self.shape:
                return None
            n = nel(self.shape)
            offs = [op[2]] * n if k == "rrs" else op[2]
            cols = []
            for e in range(n):
                o = offs[e] if fwd else offs[e] + ln - 1
                cols.append([self.at(o - j)[e] for j in range(ln)])   # oldest first
            return [4, self.d, self.shape, cols]
        if k in ("wrs", "wrt"):
            d, sh, cols = op[1], op[2], op[3]
            ln = len(cols[0])
            if sh != self.shape or ln > N:
                return None
            if k == "wrt" and op[5] != self.shape:
                return None
            # an observation data type other than the record's: converted to the record's own type like everywhere else
            # (the property statement); judged on every path
            fwd = op[5] if k == "wrs" else op[6]
            n = nel(self.shape)
            offs = [op[4]] * n if k == "wrs" else op[4]
            newh = [list(r) for r in self.h]
            for e in range(n):
                o = offs[e] if fwd else offs[e] + ln - 1
                for j in range(ln):
                    newh[(o - j) % N][e] = cast(self.d, cols[e][j])
            self.h = newh
            return [1]
        raise AssertionError(k)


def mismatched_range_write(m, op):
    """a writerange the record can take (shape, length, offsets all fine) whose observations have another data type"""
    if m.h is None or op[0] not in ("wrs", "wrt") or op[1] == m.d or op[2] != m.shape or not op[3]:
        return False
    if len(op[3][0]) > m.N or (op[0] == "wrt" and op[5] != m.shape):
        return False
    return True


def oracle_case(case, trace):
    """compare the implementation's trace with the list-of-observations model; returns None or a description of the first
    disagreement (with a 'signature').  Disagreements that are only about the DATA TYPE after a range write with
    observations of another type (signature kind 'range_write_dtype') do not stop the comparison: the model is
    re-synchronised with the implementation and the rest of the case is still judged; such a disagreement is returned
    only if the case has no other."""
    m = ListModel(case)
    dfind = None
    for i, (op, (out, snap)) in enumerate(zip(case["ops"], trace)):
        if mismatched_range_write(m, op) and out[0] != 0:
            if dfind is None:
                dfind = {"step": i, "op": op, "expected": "observations converted to the record's data type %r and written" % m.d,
                         "got": {"raised": out[1:]},
                         "signature": {"kind": "range_write_dtype", "op": op[0], "how": "raises"}}
            m = resync(m, snap)
            continue
        d_before = m.d
        exp = m.step(op)
        if exp is None:
            if out[0] == 0 and op[0] not in ("align",):
                # the implementation accepted an operation the oracle does not judge: resynchronise
                m = resync(m, snap)
            elif out[0] == 0 and op[0] == "align":
                pass
            continue
        if out[0] != 0:
            return {"step": i, "op": op, "expected": exp, "got": {"raised": out[1:]}, "signature": {"kind": "history"}}
        if m.h is not None and snap[2] == 2 and d_before is not None and snap[3] != d_before:
            # the record's own data type changed under a write
            f = {"step": i, "op": op, "expected": "storage keeps the record's data type %r" % d_before,
                 "got": {"storage_dtype": snap[3]},
                 "signature": ({"kind": "range_write_dtype", "op": op[0], "how": "storage_dtype_changed"}
                               if op[0] in ("wrs", "wrt") and op[1] != d_before else {"kind": "history"})}
            if f["signature"]["kind"] == "history":
                return f
            if op[0] == "wrs" and not op[6]:
                # DOCUMENTED: an out-of-place scalar-offset range write does not convert `obs` ("this may cause the data
                # type of the stored tensor to change", RecordTensor.writerange, Important) - the Coq model promotes too
                # (Ring.writerange_scalar); the values are judged after re-synchronising on the promoted type
                m = resync(m, snap)
                continue
            dfind = dfind or f
            m = resync(m, snap)
            continue
        if exp == "int":
            continue
        if out[1] != exp:
            return {"step": i, "op": op, "expected": exp, "got": out[1], "signature": {"kind": "history"}}
    return dfind


def resync(m, snap):
    if snap[2] != 2:
        m.h = None
        return m
    N, p = snap[0], snap[1]
    m.d, m.shape = snap[3], snap[4]
    m.h = [snap[5][(p - k) % N] for k in range(N)]
    return m


def is_nontrivial(case):
    kinds = {o[0] for o in case["ops"]}
    return len(case["ops"]) >= 3 and len(kinds) >= 2


def run(ctx):
    """correspondence + oracle.  ctx: dict(seed, tier, n)"""
    rng = random.Random(ctx["seed"])
    n = 400 if ctx["tier"] == "quick" else 4000
    cases = load_corpus() + gen_cases(rng, n, random.Random(ctx["seed"] * 31 + 7))
    cases += gen_offset_cases(random.Random(ctx["seed"] * 131 + 5), 60 if ctx["tier"] == "quick" else 600)
    cases += gen_alias_cases(random.Random(ctx["seed"] * 257 + 3), 80 if ctx["tier"] == "quick" else 800)
    cases += gen_dtype_cases(random.Random(ctx["seed"] * 521 + 9), 30 if ctx["tier"] == "quick" else 300)
    # narrow integer offsets close to their dtype maximum (overflowed before the repair 0084b90): always run
    cases += narrow_offset_overflow_cases()
    exhaustive = False
    if ctx["tier"] == "thorough":
        cases += exhaustive_cases(3, 3)
        exhaustive = True
    impl = F.run_impl(IMPL, {"cases": cases})
    model = F.eval_terms(ID, HEADER, [q_case(c) for c in cases], shard=120)
    mismatches, oracle_fail = [], []
    for c, ti, tm in zip(cases, impl, model):
        if isinstance(tm, Exception):
            mismatches.append({"case": c, "detail": str(tm)})
            continue
        if ti != tm:
            j = next((k for k, (a, b) in enumerate(zip(ti, tm)) if a != b), None)
            mismatches.append({"case": c, "detail": {"first_diff_step": j, "op": c["ops"][j] if j is not None else None,
                                                     "impl": ti[j] if j is not None else None,
                                                     "model": tm[j] if j is not None else None}})
        o = oracle_case(c, ti)
        if o is not None:
            oracle_fail.append({"case": c, "detail": o, "signature": o.get("signature")})
    from collections import Counter
    dist = Counter(o[0] for c in cases for o in c["ops"])
    errs = Counter(("err%d" % t[0][1]) for tr in impl for t in tr if t[0][0] == 1)
    return {
        "evaluations": len(cases),
        "distinct_nontrivial": len({repr(c) for c in cases if is_nontrivial(c)}),
        "rule": "seeded random RecordTensor operation sequences (3-40 ops over 13 operation kinds, N in 1..7, 5 shapes, "
                "3 dtypes, storage None/empty/initialised; every 4th case from a malformed stream; tensor offsets handed to the "
                "implementation as int64/int32/int16/uint8 tensors with identical values) plus a stream aimed at the tensor-"
                "offset range paths (N in {3,5,6,7,2,4}, distinguishable contents, forward/backward ranges with small and "
                "large offsets, every offset dtype in turn), a stream aimed at aliasing (N in {1,2,1,3,2,1,5,2,4,7}, every dtype: the "
                "caller overwrites every observation tensor it handed in right after the call and every tensor a tensor-offset "
                "readrange returned, and reuses ONE offset tensor object per (shape, dtype), updated in place, for repeated "
                "range reads/writes of the same length and direction; the same caller behaviour in ~80% of the first stream, "
                "incl. `latest =` / `latest` for push / peek) and a stream of observations whose dtype differs from the "
                "record's through every write path; in ~30% of the calls of the first stream a random subset of the OPTIONAL "
                "arguments (push inplace, read/write offset, write inplace, incr/decr pos, align index, reset fill, readrange "
                "offset/forward, writerange offset/forward/inplace) is left out by the caller, the model and the oracle using the "
                "documented defaults hard-coded in OPTIONAL; non-trivial = "
                ">=3 ops of >=2 kinds; distinct by full case text"
                + ("; plus every sequence of depth<=3 over a 14-op alphabet for N<=3" if exhaustive else ""),
        "op_distribution": dict(dist), "error_distribution": dict(errs),
        "N_distribution": dict(Counter(c["N"] for c in cases)),
        "tensor_offset_dtype_distribution": dict(Counter(x for c in cases for o in c["ops"] if o[0] in ("rrt", "wrt")
                                                         for x in o[5:] if isinstance(x, str) and x in OFFSET_DTYPES)),
        "omitted_optional_arguments": dict(Counter(o[0] + "." + a for c in cases for o in c["ops"] for a in op_omits(o))),
        "forward_tensor_ranges_reaching_past_the_write_position": sum(
            1 for c in cases for o in c["ops"]
            if (o[0] == "rrt" and o[4] and min(o[2], default=99) < o[1] - 1)
            or (o[0] == "wrt" and o[6] and o[3] and min(o[4], default=99) < len(o[3][0]) - 1)),
        "caller_aliasing_distribution": dict(Counter(
            "+".join(k for k in ("obs", "ret", "pool") if (c.get("alias") or {}).get(k)) or "none" for c in cases)),
        "repeated_tensor_offset_reads_same_object_length_direction": sum(
            1 for c in cases if (c.get("alias") or {}).get("pool")
            for k, n in Counter((tuple(o[3]), o[5], o[1], o[4]) for o in c["ops"] if o[0] == "rrt" and len(o) > 5).items()
            if n > 1),
        "samples": cases[:2],
        "mismatches": mismatches, "oracle_failures": oracle_fail,
        "traces_validated_against_impl": len(cases) - len(mismatches),
    }


def load_corpus():
    import glob, json
    out = []
    for p in sorted(glob.glob(os.path.join(F.VERIF, "corpus", ID, "*.json"))):
        out.append(json.load(open(p)))
    return out


def minimise(case, rounds=10):
    """delta-debugging on the operation list against the implementation + oracle; one subprocess per round"""
    ops = case["ops"]
    d0 = oracle_case(case, F.run_impl(IMPL, {"cases": [case]})[0])
    kind0 = d0["signature"]["kind"] if d0 else None      # keep the KIND of failure while shrinking

    def same(o):
        return o is not None and (kind0 is None or o["signature"]["kind"] == kind0)
    for _ in range(rounds):
        n = len(ops)
        if n <= 1:
            break
        cands = []
        # drop everything after the failing step, then try removing single ops / chunks
        chunk = max(1, n // 8)
        for a in range(0, n, chunk):
            c = ops[:a] + ops[a + chunk:]
            if c:
                cands.append(c)
        tr = F.run_impl(IMPL, {"cases": [dict(case, ops=c) for c in cands]})
        better = None
        for c, t in zip(cands, tr):
            cc = dict(case, ops=c)
            if same(oracle_case(cc, t)):
                better = c
                break
        if better is None:
            if chunk == 1:
                break
            continue
        ops = better
    c = dict(case, ops=ops)
    t = F.run_impl(IMPL, {"cases": [c]})[0]
    d = oracle_case(c, t)
    if d is not None:
        c = dict(c, ops=c["ops"][: d["step"] + 1])
    return c, d


def replay(case):
    t = F.run_impl(IMPL, {"cases": [case]})[0]
    d = oracle_case(case, t)
    if d is None:
        return True, "replay: the implementation agrees with the list-of-observations model on this case"
    return False, "replay: still failing: " + repr(d)[:1500]
