"""C20 - numerical helpers are self-consistent (interp/extrap, isi, Victor-Purpura, inferno.stats):
case generator, Coq rendering, correspondence (model in Coq by vm_compute vs the real functions) and the
direct oracle (the property's own laws evaluated on the implementation's outputs; the integral / series
sub-claims by numeric quadrature on the implementation - a TEST, labelled as such)."""
from __future__ import annotations
import math, os, random
from collections import Counter
from functools import lru_cache
import framework as F

ID = "C20"
GEN = ["Interpolation", "Extrapolation", "Distributions", "SpikeMath"]
LEVEL = "proof"
TECHNIQUE = ("Coq proof over the reals about kernels GENERATED from the source on every run: the 14 interp_*/extrap_* kernels, "
             "the 20 closed-form classmethods of inferno.stats (math.tau and erf / lgamma / gammaincc as parameters) and the "
             "element-wise bodies inside isi and the Victor-Purpura loops; list induction for the hand-modelled sequence code "
             "around them (ISI pipeline, dynamic-programme grid; refinement to the recursive edit distance and to a minimum over "
             "edit scripts, then metric laws); real analysis (derivatives, limits, series) for the distributions; correspondence "
             "of every model with the real functions; numeric quadrature of the implementation's densities as a labelled test")
LEVEL_TEXT = ("Machine-checked proofs (Coq reals), stated about definitions re-translated from the source on every run, that: every "
              "shipped matching extrapolation/interpolation pair round-trips (side conditions are only the divisions actually "
              "performed), linear interpolation stays between and at the ends equals the brackets; the isi pipeline "
              "(pad/nonzero/split/pad_sequence/diff, both layouts; the spike-time expression generated) equals the successive "
              "spike-time differences padded with NaN and re-integrates to the spike times, for every raster; the Victor-Purpura "
              "grid computation (loop body generated) equals the recursive edit distance = minimum cost over edit scripts, and is "
              "non-negative, within |n-m|..n+m, equal to the documented limits at cost 0 and inf (so the scalar shortcuts agree "
              "with the dynamic programme), symmetric, zero exactly on equal trains (finite positive cost), monotone in the cost "
              "and satisfies the triangle inequality; for the generated Normal/LogNormal/Poisson formulas: "
              "exp(log-density)=density, log-cdf=log(cdf), density = derivative of the cdf and integrates to cdf differences, cdf "
              "limits and total mass one, first/second moments equal the stated mean/variance (antiderivatives + limits; Poisson "
              "as convergent series, cdf = partial sum of the pmf, the rate = 0 point mass), mean/variance parameter round trips "
              "in both directions.")
LEVEL_NOTE = ("Trusted: Coq kernel + stdlib real axioms; the translator's reading of the Python subset (now including classmethods, "
              "torch.log/sqrt/floor, x ** k for a literal k, xlogy and expm1 by their definitions, `_astensorsfloat`/`astensors` as "
              "the identity per element, math.tau and erf/lgamma/gammaincc as parameters); the hand-written SEQUENCE models of isi "
              "and victor_purpura_pair_dist (C20/Model.v: pad/nonzero/split/pad_sequence/diff, the two loops over the grid, the "
              "cost = inf reading of nan_to_num) and the explicit-infinity reading of Poisson at rate 0, validated by correspondence "
              "only. Special functions enter the theorems through hypotheses on the parameter: erf' = 2/sqrt(pi) exp(-x^2), "
              "lgamma(k+1) = ln k!, gammaincc(a, x) = e^-x sum_{j<a} x^j/j! for integer a (functions with these properties are "
              "exhibited in nonvacuous.v); erf(+-inf) = +-1, i.e. the Gaussian integral, is assumed and NOT derived. Deviation from "
              "the property text, proved: at cost = inf d(a,a) = 2|a| (documented in the docstring), at cost 0 the distance is a "
              "pseudo-metric. NOT proved: float rounding; non-integer Poisson support in pmf; the quadrature / series sums run on "
              "the implementation are a numeric test only; so are the dtype-independence and float32-accuracy streams (exp(x)-1 and "
              "expm1(x) are deliberately the same real-number term). Not translated: validate, sample, sample_mv.")
TRUSTED = ["C20/Model.v: hand-written sequence code of inferno/core/math.py:255-402 (isi: pad/nonzero/split/pad_sequence/diff; "
           "victor_purpura_pair_dist: grid initialisation, the two loops, cost = inf) around the generated element-wise "
           "expressions, tied to the code by the correspondence check only",
           "special functions: torch.special.erf, torch.lgamma, torch.special.gammaincc are parameters of the generated "
           "functions (float instance: series implementations in C20/ModelExec.v, compared at 1e-9); xlogy, expm1, floor are "
           "read by their mathematical definitions in the translator"]
ASSUMES = ["erf has derivative 2/sqrt(pi) exp(-z^2) (hypothesis of the calculus theorems; satisfiable: nonvacuous.v)",
           "erf tends to +-1 at +-infinity (hypothesis of the total-mass / moment-limit theorems; not derived in Coq)",
           "gammaincc(a, x) = exp(-x) sum_{j<a} x^j/j! for integer a >= 1 (DLMF 8.4.10), lgamma(k+1) = ln(k!) "
           "(hypotheses on the function parameters of the generated Poisson formulas; satisfiable: nonvacuous.v)"]
EXPLANATION = ("interp/extrap, distribution and loop-body theorems are about Gen/*.v (re-translated each run: an edit of a formula "
               "re-checks them); the isi / Victor-Purpura sequence theorems are about C20/Model.v, which calls the generated "
               "expressions, and refine it to the independent specifications in C20/Spec.v; the harness runs the generated and "
               "hand-written definitions in binary64 inside Coq against the real functions and evaluates the property's laws "
               "directly on the implementation.")
HEADER = ("From Coq Require Import List ZArith Bool PrimFloat.\n"
          "From Inferno Require Import Base.NumF Gen.Distributions C20.Model C20.ModelExec.\n"
          "Import ListNotations.\nOpen Scope float_scope.\n")
IMPL = os.path.join(F.VERIF, "tools", "impl", "c20_impl.py")

PAIRS = {0: "previous/previous", 1: "next/next", 2: "nearest/nearest", 3: "neighbors/previous", 4: "neighbors/next",
         5: "neighbors/nearest", 6: "neighbors/linear", 7: "linear_forward/linear", 8: "linear_backward/linear",
         9: "expdecay/expdecay", 10: "expratedecay/expratedecay"}
DTS = [1.0, 0.5, 0.25, 1.3, 0.1]


def r3(rng, lo, hi):
    return round(rng.uniform(lo, hi), 3)


# ------------------------------------------------------------------ generators
def gen_ie(rng):
    k = rng.randrange(11)
    dt = rng.choice(DTS)
    u = rng.random()
    if k in (2, 5) and u < 0.35:
        u = 0.75                       # nearest: sit on the decision boundary often
    if u < 0.70:
        t = dt * rng.uniform(0.05, 0.95)
    elif u < 0.80:
        t = dt / 2 if dt in (1.0, 0.5, 0.25) else dt * 0.5000001       # the nearest-neighbour decision boundary
    elif u < 0.90:
        t = 0.0
    else:
        t = dt
    return {"kind": "ie", "k": k, "adj": rng.random() < 0.4, "s": r3(rng, -5, 5), "t": t, "p": r3(rng, -5, 5),
            "n": r3(rng, -5, 5), "dt": dt, "c": rng.choice([0.5, 2.0, 20.0, 1.7, 0.3])}


POPS = [[], [1], [3], [2, 2], [2, 3], [4], [9], [2, 7]]


def prod(sh):
    n = 1
    for s in sh:
        n *= s
    return n


def gen_isi(rng, malformed=False):
    pop = rng.choice(POPS)
    if malformed:
        pop = rng.choice([[0], [2, 0]])
    Tn = rng.choice([0, 1, 2, 3, 5, 8, 12])
    m = prod(pop)
    dens = rng.choice([0.0, 0.15, 0.4, 0.7, 1.0])
    tf = rng.random() < 0.5
    # trains (m x T), some forced empty / single-spike so that counts are ragged
    trains = []
    for _ in range(m):
        mode = rng.random()
        if mode < 0.15:
            tr = [0] * Tn
        elif mode < 0.25 and Tn > 0:
            tr = [0] * Tn
            tr[rng.randrange(Tn)] = 1
        else:
            tr = [1 if rng.random() < dens else 0 for _ in range(Tn)]
        trains.append(tr)
    if tf:
        data = [trains[j][t] for t in range(Tn) for j in range(m)]
        shape = [Tn] + pop
    else:
        data = [trains[j][t] for j in range(m) for t in range(Tn)]
        shape = pop + [Tn]
    return {"kind": "isi", "dt": rng.choice([1.0, 0.5, 0.1, 1.3]), "time_first": tf, "shape": shape, "pop": pop,
            "m": m, "T": Tn, "data": data,
            # half of the time-first rasters are passed WITHOUT the time_first argument (documented default: True)
            "default_layout": bool(tf and len(shape) >= 1 and rng.random() < 0.5)}


COSTS = [0.0, 0.5, 1.0, 2.0, 0.3, 7.7, "inf", 1e-3, 40.0]


def gen_train(rng):
    n = rng.choice([0, 0, 1, 2, 3, 4, 5, 6])
    if rng.random() < 0.6:
        ts = sorted(rng.randrange(0, 24) * 0.25 for _ in range(n))     # dyadic grid: coincident spikes are common
    else:
        ts = sorted(r3(rng, 0, 6) for _ in range(n))
    if rng.random() < 0.1:
        rng.shuffle(ts)
    return ts


def gen_vp(rng):
    a, b, c = gen_train(rng), gen_train(rng), gen_train(rng)
    if rng.random() < 0.15:
        b = list(a)
    return {"kind": "vp_triple", "a": a, "b": b, "c": c, "cost": rng.choice(COSTS), "scalar": rng.random() < 0.5}


def gen_dist(rng):
    kind = rng.choice(["normal", "normal_mv", "lognormal", "lognormal_mv", "poisson", "poisson"])
    if kind == "normal":
        loc, scale = r3(rng, -3, 3), r3(rng, 0.2, 3)
        return {"kind": kind, "x": loc + scale * r3(rng, -3, 3), "loc": loc, "scale": scale}
    if kind == "lognormal":
        loc, scale = r3(rng, -1, 1.5), r3(rng, 0.1, 1.2)
        return {"kind": kind, "x": math.exp(loc + scale * r3(rng, -3, 3)), "loc": loc, "scale": scale}
    if kind in ("normal_mv", "lognormal_mv"):
        return {"kind": kind, "m": r3(rng, 0.2, 5) * (1 if kind == "lognormal_mv" or rng.random() < 0.7 else -1),
                "v": r3(rng, 0.05, 4)}
    k = rng.choice([0, 0, 1, 2, 3, 5, 8, 13, 21])
    return {"kind": kind, "k": k, "support": k + rng.choice([0.0, 0.5, 0.25]), "rate": r3(rng, 0.1, 12)}


def edge_cases():
    """boundary parameters the validators accept (deterministic, run on every tier):
    Poisson rate exactly 0 (the point mass at 0) at k = 0 and k >= 1, integer and fractional support;
    Normal support exactly at loc and far in both tails (cdf exactly 0 / 1 in binary64); LogNormal support
    at exp(loc) and near 0; mean/variance targets with variance 0; small and large Poisson rates."""
    out = []
    for k in (0, 1, 2, 5, 13):
        for frac in (0.0, 0.5):
            out.append({"kind": "poisson", "k": k, "support": k + frac, "rate": 0.0})
    for rate in (1e-9, 1e-3, 60.0, 200.0):
        for k in (0, 1, 40):
            out.append({"kind": "poisson", "k": k, "support": float(k), "rate": rate})
    for loc, scale in ((0.0, 1.0), (1.3, 0.7), (-2.75, 3.0), (0.1, 1e-3)):
        out.append({"kind": "normal", "x": loc, "loc": loc, "scale": scale})
        for z in (-40.0, -12.0, 12.0, 40.0):
            out.append({"kind": "normal", "x": loc + z * scale, "loc": loc, "scale": scale})
    for loc, scale in ((0.0, 1.0), (0.5, 0.25), (-1.0, 1.2)):
        out.append({"kind": "lognormal", "x": math.exp(loc), "loc": loc, "scale": scale})
        for x in (1e-300, 1e-100, 1e-12, 1e12, 1e100):
            if abs((math.log(x) - loc) / scale) >= 12:
                out.append({"kind": "lognormal", "x": x, "loc": loc, "scale": scale})
    for m in (2.0, 0.3):
        out.append({"kind": "normal_mv", "m": m, "v": 0.0})
        out.append({"kind": "normal_mv", "m": -m, "v": 0.0})
        out.append({"kind": "lognormal_mv", "m": m, "v": 0.0})
    # isi with the default layout on a short recording of a wide population (T < last dimension) and on a square one
    for Tn, pop in ((6, [9]), (3, [2, 7]), (4, [4]), (2, [3])):
        m = prod(pop)
        data = [1 if (3 * t + 2 * j) % 5 in (0, 1) else 0 for t in range(Tn) for j in range(m)]
        out.append({"kind": "isi", "dt": 0.5, "time_first": True, "shape": [Tn] + pop, "pop": pop, "m": m, "T": Tn,
                    "data": data, "default_layout": True})
    out += dtype_cases() + f32_edge_cases() + kind_cases()
    out.append({"kind": "quad_poisson", "rate": 0.0})
    out.append({"kind": "quad_poisson", "rate": 1e-6})
    out.append({"kind": "quad_cont", "dist": "normal", "loc": 0.0, "scale": 1e-3})
    out.append({"kind": "quad_cont", "dist": "lognormal", "loc": -1.0, "scale": 0.05})
    return out


SUPPORTS = {"poisson": [0, 1, 2, 3, 5, 8], "normal": [-2, -1, 0, 1, 2, 4], "lognormal": [1, 2, 3, 5]}
PARAMS = {"poisson": [[2.5], [0.75], [3.0]], "normal": [[0.5, 1.5], [1.0, 2.0]], "lognormal": [[0.25, 0.75], [1.0, 2.0]]}


def dtype_cases():
    """support tensors of every dtype x parameters of every python / tensor kind, all distributions (deterministic).
    The support values are small integers so that every dtype represents them; bool supports use {0, 1}."""
    out = []
    for dist in ("poisson", "normal", "lognormal"):
        for sd in ("int64", "int32", "bool", "float32", "float64"):
            for pk in ("pyfloat", "pyint", "t64_0d", "t64", "t32", "np64"):
                for ps in PARAMS[dist]:
                    if pk == "pyint" and any(float(v) != int(v) for v in ps):
                        continue
                    if pk != "pyint" and all(float(v) == int(v) for v in ps) and pk not in ("pyfloat",):
                        continue
                    sup = SUPPORTS[dist]
                    if sd == "bool":
                        sup = [1] if dist == "lognormal" else [0, 1]
                    out.append({"kind": "dtype", "dist": dist, "sdtype": sd, "pkind": pk, "support": sup, "params": ps})
    return out


CKINDS = ["pyint", "pyfloat", "np64", "npint", "t0d_i64", "t1d_i64", "t1d_f32", "t1d_f64", "t0d_f64", "t0d_f32"]


def kind_cases():
    """argument kinds of the non-distribution helpers (deterministic): Victor-Purpura cost as python int / float, numpy
    scalars, 0-d / 1-d tensors of int64 / float32 / float64 x spike-time dtype; isi raster dtype x step_time kind;
    interp / extrap data dtype x sample-time dtype x python int / float step and constants."""
    out = []
    trains = [([0.0, 3.0], [0.4, 3.3], [1.2]), ([0.25, 1.5, 2.75], [0.5, 2.0], [0.25, 1.5, 2.75, 4.0])]
    itrains = [([0, 3], [1, 5], [2]), ([1, 4, 6], [2, 4], [])]
    for ck in CKINDS:
        for cost in (1, 2, 0.5):
            if ck in ("pyint", "npint", "t0d_i64", "t1d_i64") and cost != int(cost):
                continue
            for td in ("float32", "float64", "int64"):
                for a, b, c in (itrains if td == "int64" else trains):
                    out.append({"kind": "vpk", "a": a, "b": b, "c": c, "cost": cost, "ckind": ck, "tdtype": td})
    raster = [1, 0, 1, 0, 1, 0, 1, 1, 0, 0, 0, 0, 1, 0, 1]
    for rd in ("bool", "int64", "int8", "float32", "float64"):
        for sk, dt in (("pyint", 2), ("pyfloat", 0.5), ("t0d_f32", 0.5), ("t0d_f64", 0.5), ("pyfloat", 1.3)):
            for tf, shape in ((True, [5, 3]), (False, [3, 5])):
                out.append({"kind": "isik", "rdtype": rd, "skind": sk, "dt": dt, "time_first": tf, "shape": shape, "data": raster})
    for k in range(11):
        for ddt in ("float32", "float64", "int64"):
            for sdt in ("float32", "float64"):
                for nk, dt, cc in (("pyint", 2, 3), ("pyfloat", 2.0, 3.0), ("pyfloat", 1.3, 1.7)):
                    vals = {"s": 3, "p": -2, "n": 5} if ddt == "int64" else {"s": 2.75, "p": -1.5, "n": 4.25}
                    out.append(dict({"kind": "iek", "k": k, "ddtype": ddt, "sdtype": sdt, "nkind": nk, "t": 0.5, "dt": dt,
                                     "c": cc}, **vals))
    return out


def f32_edge_cases():
    """python-float arguments (evaluated in float32 inside the functions) where the exact formulas are well conditioned:
    narrow LogNormal distributions (mean / variance only), lower tail of large-rate Poisson, ordinary points."""
    out = []
    for loc in (0.75, -0.5, 0.0):
        for scale in (1e-4, 3e-4, 1e-3, 3e-3, 1e-2, 0.03, 0.1, 0.5, 1.0):
            out.append({"kind": "f32", "dist": "lognormal", "params": [loc, scale], "support": None, "mv": None})
    for rate, ks in ((25.0, [0, 1, 2, 4, 6, 10, 25]), (40.0, [0, 5, 10, 15, 40]), (60.0, [0, 1, 20, 60]), (2.5, [0, 1, 2, 3, 7])):
        out.append({"kind": "f32", "dist": "poisson", "params": [rate], "support": [float(k) for k in ks], "mv": None})
    return out


def gen_f32(rng):
    dist = rng.choice(["normal", "lognormal", "poisson"])
    if dist == "poisson":
        rate = r3(rng, 0.2, 50)
        ks = sorted({max(0, int(rate + d)) for d in (-30, -12, -4, 0, 3, 9)} | {0})
        return {"kind": "f32", "dist": dist, "params": [rate], "support": [float(k) for k in ks], "mv": None}
    if dist == "normal":
        loc, scale = r3(rng, -3, 3), r3(rng, 0.2, 3)
        sup = [loc + scale * z for z in (-2.5, -1.0, 0.0, 0.5, 2.0, 3.0)]
        m = r3(rng, 0.2, 5) * rng.choice([1, -1])
        return {"kind": "f32", "dist": dist, "params": [loc, scale], "support": sup, "mv": [m, r3(rng, 0.05, 4)]}
    loc, scale = r3(rng, -1, 1.5), r3(rng, 0.2, 1.2)
    sup = [math.exp(loc + scale * z) for z in (-2.5, -1.0, 0.0, 0.5, 2.0, 3.0)]
    m = r3(rng, 0.3, 5)
    return {"kind": "f32", "dist": dist, "params": [loc, scale], "support": sup, "mv": [m, r3(rng, 0.05, 1.0) * m * m]}


def ref_values(dist, x, ps):
    """float64 closed forms (math module), independent of the implementation and of the Coq model"""
    if dist == "poisson":
        (rate,) = ps
        k = int(x)
        lp = lambda j: (j * math.log(rate) if j else 0.0) - rate - math.lgamma(j + 1)
        cdf = math.fsum(math.exp(lp(j)) for j in range(k + 1))
        return {"pmf": math.exp(lp(k)), "logpmf": lp(k), "cdf": cdf, "logcdf": math.log(cdf)}
    loc, scale = ps
    u = x if dist == "normal" else math.log(x)
    z = (u - loc) / scale
    lpdf = -math.log(scale) - 0.5 * math.log(2 * math.pi) - 0.5 * z * z - (0.0 if dist == "normal" else u)
    cdf = 0.5 * math.erfc(-z / math.sqrt(2))
    return {"pdf": math.exp(lpdf), "logpdf": lpdf, "cdf": cdf, "logcdf": math.log(cdf)}


def ref_moments(dist, ps):
    if dist == "poisson":
        return ps[0], ps[0]
    if dist == "normal":
        return ps[0], ps[1] ** 2
    loc, scale = ps
    return math.exp(loc + scale * scale / 2), math.expm1(scale * scale) * math.exp(2 * loc + scale * scale)


def near32(a, b, rel=1e-4, ab=1e-30):
    """float32 tolerance: relative 1e-4 (values), for logarithms additionally 1e-4 absolute (see callers)"""
    if a != a or b != b:
        return False
    if math.isinf(a) or math.isinf(b):
        return a == b
    return abs(a - b) <= ab + rel * max(abs(a), abs(b))


def gen_quad(rng):
    out = []
    for _ in range(3):
        out.append({"kind": "quad_cont", "dist": "normal", "loc": r3(rng, -3, 3), "scale": r3(rng, 0.2, 3)})
        out.append({"kind": "quad_cont", "dist": "lognormal", "loc": r3(rng, -1, 1.5), "scale": r3(rng, 0.1, 1.0)})
        out.append({"kind": "quad_poisson", "rate": r3(rng, 0.1, 30)})
    out.append({"kind": "quad_cont", "dist": "normal", "loc": 0.0, "scale": 1.0})
    out.append({"kind": "quad_cont", "dist": "lognormal", "loc": 0.0, "scale": 1.0})
    out.append({"kind": "quad_poisson", "rate": 3.0})
    return out


def gen_cases(rng, tier):
    mult = 1 if tier == "quick" else 12
    cases = edge_cases()
    cases += [gen_ie(rng) for _ in range(130 * mult)]
    cases += [gen_isi(rng, malformed=(i % 12 == 11)) for i in range(90 * mult)]
    cases += [gen_vp(rng) for _ in range(45 * mult)]
    cases += [gen_dist(rng) for _ in range(110 * mult)]
    cases += [gen_f32(rng) for _ in range(40 * mult)]
    for _ in range(mult):
        cases += gen_quad(rng)
    return cases


def small_scope_cases():
    """thorough tier: every raster with T <= 4, M <= 2 (both layouts), every triple of spike trains over
    {0, 0.5, 1} with <= 2 spikes at three costs"""
    cases = []
    import itertools
    for Tn in range(0, 5):
        for m in (1, 2):
            for bits in itertools.product([0, 1], repeat=Tn * m):
                for tf in (True, False):
                    cases.append({"kind": "isi", "dt": 0.5, "time_first": tf, "shape": ([Tn, m] if tf else [m, Tn]),
                                  "pop": [m], "m": m, "T": Tn, "data": list(bits)})
    trains = [[]] + [[x] for x in (0.0, 0.5, 1.0)] + [[x, y] for x in (0.0, 0.5, 1.0) for y in (0.0, 0.5, 1.0) if x <= y]
    for a, b, c in itertools.product(trains, repeat=3):
        for q in (0.5, 3.0, "inf"):
            cases.append({"kind": "vp_triple", "a": a, "b": b, "c": c, "cost": q, "scalar": False})
    return cases


# ------------------------------------------------------------------ expansion into atomic evaluations
VP_ROLES = [("ab", "a", "b"), ("ba", "b", "a"), ("bc", "b", "c"), ("ac", "a", "c"), ("aa", "a", "a"), ("cb", "c", "b")]


def expand(case):
    if case["kind"] == "vp_triple":
        return [{"kind": "vp", "scalar": case["scalar"], "cost": case["cost"], "t0": case[x], "t1": case[y], "role": r}
                for r, x, y in VP_ROLES]
    return [case]


def q_floats(xs):
    return F.coq_list([F.coq_float(float(x)) for x in xs])


def coq_term(a):
    k = a["kind"]
    f = F.coq_float
    if k == "ie":
        return (f"ie_case ({a['k']})%Z {F.coq_bool(a['adj'])} {f(a['s'])} {f(a['t'])} {f(a['p'])} {f(a['n'])} "
                f"{f(a['dt'])} {f(a['c'])}")
    if k == "isi":
        m, Tn, d = a["m"], a["T"], a["data"]
        if a["time_first"]:
            rows = [[d[t * m + j] for j in range(m)] for t in range(Tn)]
        else:
            rows = [[d[j * Tn + t] for t in range(Tn)] for j in range(m)]
        body = F.coq_list([F.coq_list([F.coq_bool(b) for b in r]) for r in rows])
        return f"isi_case {f(a['dt'])} {F.coq_bool(a['time_first'])} {m}%nat {body}"
    if k == "vp":
        c = "None" if a["cost"] == "inf" else f"(Some {f(float(a['cost']))})"
        return f"vp_case {F.coq_bool(a['scalar'])} {c} {q_floats(a['t0'])} {q_floats(a['t1'])}"
    if k in ("normal", "lognormal"):
        return f"{k}_case {f(a['x'])} {f(a['loc'])} {f(a['scale'])}"
    if k in ("normal_mv", "lognormal_mv"):
        return f"{k}_case {f(a['m'])} {f(a['v'])}"
    if k == "poisson":
        return f"poisson_case {a['k']}%nat {f(a['support'])} {f(a['rate'])}"
    return None   # quadrature cases are implementation-only (numeric test)


# ------------------------------------------------------------------ comparison model vs implementation
def cmp_floats(impl_list, model_list):
    """impl: list of fhex triples; model: list of trees [k, m, e]"""
    if len(impl_list) != len(model_list):
        return f"length {len(impl_list)} vs {len(model_list)}"
    for i, (a, b) in enumerate(zip(impl_list, model_list)):
        x, y = F.dec_float(a), F.dec_float(b)
        if not F.close(x, y):
            return f"component {i}: implementation {x!r} model {y!r}"
    return None


def correspond(a, io, mo):
    """a: atomic case, io: implementation output {'ok':..}|{'err':..}, mo: model tree. -> None or detail"""
    k = a["kind"]
    if k == "isi":
        if "err" in io:
            return None if mo == [] else f"implementation raised {io['msg']}, model returned a value"
        if mo == []:
            return "model predicts RuntimeError, implementation returned " + str(io["ok"]["shape"])
        r, c, rows = mo
        if io["ok"]["rows2d"] is None:
            return f"shape: implementation {io['ok']['shape']} is not (intervals, population) / (population, intervals)"
        if [r, c] != io["ok"]["rows2d"]:
            return f"shape: implementation {io['ok']['rows2d']} model {[r, c]}"
        for ri, rm in zip(io["ok"]["rows"], rows):
            if len(ri) != len(rm):
                return "row length differs"
            for x, y in zip(ri, rm):
                if (x is None) != (y == []):
                    return f"NaN pattern differs: implementation {ri} model {rm}"
                if x is not None and not F.close(F.dec_float(x), F.dec_float(y[0])):
                    return f"value: implementation {F.dec_float(x)} model {F.dec_float(y[0])}"
        return None
    if "err" in io:
        return f"implementation raised {io['msg']}"
    if k == "vp":
        x, y = F.dec_float(io["ok"]["d"]), F.dec_float(mo)
        return None if F.close(x, y) else f"distance: implementation {x!r} model {y!r}"
    return cmp_floats(io["ok"], mo)


# ------------------------------------------------------------------ direct oracle (independent of the Coq model)
def near(x, y, scale=1.0, rel=1e-9):
    if x != x or y != y:
        return False
    if math.isinf(x) or math.isinf(y):
        return x == y
    return abs(x - y) <= rel * max(scale, abs(x), abs(y))


def slog(x):
    return -math.inf if x == 0 else math.log(x)


def vp_reference(t0, t1, cost):
    """textbook Victor-Purpura distance: minimum over alignments (memoised recursion over prefixes);
    cost inf = the documented limit n+m (shifts never used)."""
    t0, t1 = tuple(t0), tuple(t1)

    @lru_cache(maxsize=None)
    def d(i, j):
        if i == 0:
            return float(j)
        if j == 0:
            return float(i)
        best = min(d(i - 1, j) + 1, d(i, j - 1) + 1)
        if cost != math.inf:
            best = min(best, d(i - 1, j - 1) + cost * abs(t0[i - 1] - t1[j - 1]))
        return best
    return d(len(t0), len(t1))


def fail(case, law, part, detail):
    return {"case": case, "detail": dict(detail, law=law, part=part), "signature": {"part": part, "law": law}}


def oracle(case, atoms, outs):
    """-> list of oracle failures for one base case, given the implementation outputs of its atoms"""
    k = case["kind"]
    fails = []
    if any("err" in o for o in outs):
        if k == "isi" and case["m"] == 0:
            return []          # empty population: no claim
        bad = next(o for o in outs if "err" in o)
        return [fail(case, "raises", k, {"msg": bad["msg"]})]
    if k == "ie":
        ep, en, back, direct = [F.dec_float(x) for x in outs[0]["ok"]]
        s, t, p, n, dt, kk = case["s"], case["t"], case["p"], case["n"], case["dt"], case["k"]
        inside = 0 < t < dt
        dom = inside or (kk not in (7, 8) and 0 <= t <= dt) or (kk == 7 and 0 < t <= dt) or (kk == 8 and 0 <= t < dt)
        if dom:
            sc = max(1.0, abs(s), abs(p), abs(n), abs(ep) if math.isfinite(ep) else 1, abs(en) if math.isfinite(en) else 1)
            if not near(back, s, sc):
                fails.append(fail(case, "interp_extrap_roundtrip", "interp/extrap:" + PAIRS[kk],
                                  {"sample": s, "interp_of_extrap": back, "extrap": [ep, en]}))
        if kk in (6, 7, 8) and 0 <= t <= dt:
            lo, hi = min(p, n), max(p, n)
            tol = 1e-12 * max(1.0, abs(p), abs(n))
            if not (lo - tol <= direct <= hi + tol):
                fails.append(fail(case, "linear_between_brackets", "interp_linear", {"value": direct, "brackets": [p, n]}))
            if t == 0 and direct != p:
                fails.append(fail(case, "linear_at_ends", "interp_linear", {"value": direct, "expected": p}))
            if t == dt and not near(direct, n, max(1.0, abs(p), abs(n)), 1e-12):
                fails.append(fail(case, "linear_at_ends", "interp_linear", {"value": direct, "expected": n}))
        return fails
    if k == "isi":
        o = outs[0]["ok"]
        m, Tn, d, dt = case["m"], case["T"], case["data"], case["dt"]
        if case["time_first"]:
            trains = [[d[t * m + j] for t in range(Tn)] for j in range(m)]
        else:
            trains = [[d[j * Tn + t] for t in range(Tn)] for j in range(m)]
        times = [[i * dt for i, b in enumerate(tr) if b] for tr in trains]
        C = max([len(x) for x in times] + [0])
        ncol = max(C - 1, 0)
        exp_shape = ([ncol] + case["pop"]) if case["time_first"] else (case["pop"] + [ncol])
        if o["shape"] != exp_shape:
            return [fail(case, "isi_shape", "isi", {"shape": o["shape"], "expected": exp_shape})]
        if "float" not in o["dtype"]:
            return [fail(case, "isi_dtype", "isi", {"dtype": o["dtype"]})]
        rows = o["rows"]
        if rows is None:
            return [fail(case, "isi_shape", "isi", {"shape": o["shape"], "expected": exp_shape})]
        if case["time_first"]:
            rows = [[rows[i][j] for i in range(ncol)] for j in range(m)]
        for j, (ts, row) in enumerate(zip(times, rows)):
            kk = len(ts)
            nint = max(kk - 1, 0)
            vals = row[:nint]
            if any(v is None for v in vals) or any(v is not None for v in row[nint:]):
                return [fail(case, "isi_nan_padding", "isi", {"train": j, "times": ts, "row": repr(row)})]
            acc = ts[0] if ts else 0.0
            for i, v in enumerate(vals):
                acc = acc + F.dec_float(v)
                if not near(acc, ts[i + 1], max(1.0, abs(ts[-1]))):
                    return [fail(case, "isi_reintegrates", "isi", {"train": j, "times": ts,
                                                                   "intervals": [F.dec_float(v) for v in vals]})]
        return []
    if k == "vp_triple":
        dd = {a["role"]: F.dec_float(o["ok"]["d"]) for a, o in zip(atoms, outs)}
        for a, o in zip(atoms, outs):
            if o["ok"]["shape"] != [1]:
                fails.append(fail(case, "vp_shape", "victor_purpura", {"shape": o["ok"]["shape"]}))
        q = math.inf if case["cost"] == "inf" else float(case["cost"])
        A, B, Cc = case["a"], case["b"], case["c"]
        ln = {"a": len(A), "b": len(B), "c": len(Cc)}
        tol = 1e-9
        for r, x, y in VP_ROLES:
            ref = vp_reference(case[x], case[y], q)
            if not near(dd[r], ref):
                fails.append(fail(case, "vp_equals_min_over_alignments", "victor_purpura",
                                  {"pair": r, "got": dd[r], "reference": ref}))
            if not (abs(ln[x] - ln[y]) - tol <= dd[r] <= ln[x] + ln[y] + tol):
                fails.append(fail(case, "vp_bounds", "victor_purpura", {"pair": r, "got": dd[r], "n": ln[x], "m": ln[y]}))
            if q == 0 and dd[r] != abs(ln[x] - ln[y]):
                fails.append(fail(case, "vp_cost_zero_limit", "victor_purpura", {"pair": r, "got": dd[r]}))
            if q == math.inf and dd[r] != ln[x] + ln[y]:
                fails.append(fail(case, "vp_cost_inf_limit", "victor_purpura", {"pair": r, "got": dd[r]}))
        if not near(dd["ab"], dd["ba"]) or not near(dd["bc"], dd["cb"]):
            fails.append(fail(case, "vp_symmetric", "victor_purpura", {"ab": dd["ab"], "ba": dd["ba"]}))
        if q != math.inf and dd["aa"] != 0:
            # cost = inf: d(a, a) = 2|a| is the DOCUMENTED behaviour (Warning in the docstring) - not judged
            fails.append(fail(case, "vp_identity", "victor_purpura", {"aa": dd["aa"]}))
        if 0 < q < math.inf and (dd["ab"] <= tol) != (A == B):
            fails.append(fail(case, "vp_zero_iff_equal", "victor_purpura", {"ab": dd["ab"], "a": A, "b": B}))
        if dd["ac"] > dd["ab"] + dd["bc"] + 1e-9 * max(1.0, dd["ab"] + dd["bc"]):
            fails.append(fail(case, "vp_triangle", "victor_purpura", {"ac": dd["ac"], "ab": dd["ab"], "bc": dd["bc"]}))
        return fails
    if k in ("normal", "lognormal"):
        pdf, lpdf, cdf, lcdf, mean, var = [F.dec_float(x) for x in outs[0]["ok"]]
        if any(v != v for v in (pdf, lpdf, cdf, lcdf, mean, var)):
            return [fail(case, "nan_at_valid_parameters", k, {"values": [pdf, lpdf, cdf, lcdf, mean, var]})]
        if not near(math.exp(lpdf), pdf, 0.0) and abs(math.exp(lpdf) - pdf) > 1e-300:
            fails.append(fail(case, "exp_logpdf_eq_pdf", k, {"pdf": pdf, "logpdf": lpdf}))
        if not near(lcdf, slog(cdf), 1e-3):
            fails.append(fail(case, "logcdf_eq_log_cdf", k, {"cdf": cdf, "logcdf": lcdf}))
        if not (0 <= cdf <= 1 and pdf >= 0):
            fails.append(fail(case, "range", k, {"cdf": cdf, "pdf": pdf}))
        # closed forms of the density, written independently (math module); the cdf is compared absolutely
        # (0.5 * (1 + erf) has absolute, not relative, accuracy in the lower tail)
        x, loc, scale = case["x"], case["loc"], case["scale"]
        z = ((x if k == "normal" else math.log(x)) - loc) / scale
        ref = math.exp(-0.5 * z * z) / (scale * math.sqrt(2 * math.pi)) / (1 if k == "normal" else x)
        refc = 0.5 * math.erfc(-z / math.sqrt(2))
        if not near(pdf, ref, 0.0, 1e-8) and abs(pdf - ref) > 1e-300:
            fails.append(fail(case, "pdf_closed_form", k, {"pdf": pdf, "reference": ref}))
        if abs(cdf - refc) > 1e-12 + 1e-8 * refc * (abs(z) <= 3):
            fails.append(fail(case, "cdf_closed_form", k, {"cdf": cdf, "reference": refc}))
        if z == 0 and cdf != 0.5:
            fails.append(fail(case, "cdf_at_median", k, {"cdf": cdf}))
        return fails
    if k in ("normal_mv", "lognormal_mv"):
        loc, scale, mean, var = [F.dec_float(x) for x in outs[0]["ok"]]
        if not near(mean, case["m"]) or not near(var, case["v"]):
            fails.append(fail(case, "params_mv_roundtrip", k[:-3], {"mean": mean, "variance": var, "loc": loc, "scale": scale}))
        return fails
    if k == "poisson":
        pmf, lpmf, _, _, cdf, lcdf, mean, var = [F.dec_float(x) for x in outs[0]["ok"]]
        kk, rate = case["k"], case["rate"]
        if any(v != v for v in (pmf, lpmf, cdf, lcdf, mean, var)):
            return [fail(case, "nan_at_valid_parameters", k, {"values": [pmf, lpmf, cdf, lcdf, mean, var]})]

        def refpmf(j):      # rate = 0 is the point mass at 0 (Poisson.validate accepts it)
            if rate == 0:
                return 1.0 if j == 0 else 0.0
            return math.exp(j * math.log(rate) - rate - math.lgamma(j + 1))
        if not near(math.exp(lpmf) if lpmf != -math.inf else 0.0, pmf, 0.0):
            fails.append(fail(case, "exp_logpmf_eq_pmf", k, {"pmf": pmf, "logpmf": lpmf}))
        ref = refpmf(kk)
        if not near(pmf, ref, 0.0, 1e-8) and abs(pmf - ref) > 1e-300:
            fails.append(fail(case, "pmf_closed_form", k, {"pmf": pmf, "reference": ref}))
        refc = sum(refpmf(j) for j in range(0, int(math.floor(case["support"])) + 1))
        if not near(cdf, refc, 0.0, 1e-8):
            fails.append(fail(case, "cdf_is_partial_sum_of_pmf", k, {"cdf": cdf, "reference": refc}))
        if not near(lcdf, slog(cdf), 1e-3):
            fails.append(fail(case, "logcdf_eq_log_cdf", k, {"cdf": cdf, "logcdf": lcdf}))
        if mean != rate or var != rate:
            fails.append(fail(case, "stated_moments", k, {"mean": mean, "var": var}))
        return fails
    if k == "dtype":
        o = outs[0]["ok"]
        sig = f"{case['dist']}"
        for fn in o["ref"]:
            for i, (a, b) in enumerate(zip(o["test"][fn], o["ref"][fn])):
                tol_abs = 1e-4 if fn.startswith("log") else 1e-6
                if not near32(a, b, 2e-4, tol_abs):
                    fails.append(fail(case, "dtype_independence", sig,
                                      {"function": fn, "support": case["support"][i], "got": a, "float64_reference": b,
                                       "result_dtype": o["dtypes"][fn]}))
                    break
            if "float" not in o["dtypes"][fn]:
                fails.append(fail(case, "result_dtype", sig, {"function": fn, "dtype": o["dtypes"][fn]}))
        return fails[:2]
    if k == "vpk":
        o = outs[0]["ok"]
        ck = "tensor_int64" if case["ckind"] in ("t0d_i64", "t1d_i64") else case["ckind"]

        def vf(law, detail):
            f_ = fail(case, law, "victor_purpura", detail)
            f_["signature"] = {"part": "victor_purpura", "law": law, "cost_kind": ck}
            return f_
        for r, v in o.items():
            if not near32(v["d"], v["ref"], 2e-4, 1e-6) or "float" not in v["dtype"] or v["shape"] != [1]:
                fails.append(vf("kind_independence", {"pair": r, "got": v["d"], "dtype": v["dtype"], "shape": v["shape"],
                                                      "float64_reference": v["ref"], "cost": case["cost"]}))
                break
        d = {r: v["d"] for r, v in o.items()}
        tol = 1e-5 * max(1.0, d["ab"] + d["bc"])
        if abs(d["ab"] - d["ba"]) > tol:
            fails.append(vf("vp_symmetric", {"ab": d["ab"], "ba": d["ba"]}))
        if d["aa"] != 0:
            fails.append(vf("vp_identity", {"aa": d["aa"]}))
        if case["cost"] > 0 and (d["ab"] <= tol) != (case["a"] == case["b"]):
            fails.append(vf("vp_zero_iff_equal", {"ab": d["ab"]}))
        if d["ac"] > d["ab"] + d["bc"] + tol:
            fails.append(vf("vp_triangle", {"ac": d["ac"], "ab": d["ab"], "bc": d["bc"]}))
        return fails[:2]
    if k == "isik":
        o = outs[0]["ok"]
        bad = o["shape"] != o["ref_shape"] or "float" not in o["dtype"] or len(o["test"]) != len(o["ref"]) or any(
            (a is None) != (b is None) or (a is not None and not near32(a, b, 2e-4, 1e-6)) for a, b in zip(o["test"], o["ref"]))
        if bad:
            f_ = fail(case, "kind_independence", "isi", {"got": o["test"][:8], "reference": o["ref"][:8], "dtype": o["dtype"],
                                                        "shape": o["shape"], "ref_shape": o["ref_shape"]})
            f_["signature"] = {"part": "isi", "law": "kind_independence", "raster": case["rdtype"], "step_time": case["skind"]}
            fails.append(f_)
        return fails
    if k == "iek":
        o = outs[0]["ok"]
        # selecting kernels (previous / next / nearest / neighbors) hand back their integer data unchanged: exact, any dtype;
        # computing kernels (linear, exponential) must produce floating results
        bad = any(not near32(a, b, 2e-4, 1e-6) for a, b in zip(o["test"], o["ref"])) \
            or (case["k"] >= 6 and any("float" not in d_ for d_ in o["dtypes"][2:]))
        if bad:
            f_ = fail(case, "kind_independence", "interp/extrap:" + PAIRS[case["k"]],
                      {"got": o["test"], "reference": o["ref"], "dtypes": o["dtypes"]})
            f_["signature"] = {"part": "interp/extrap", "law": "kind_independence", "data": case["ddtype"], "number": case["nkind"]}
            fails.append(f_)
        return fails
    if k == "f32":
        o = outs[0]["ok"]
        dist, ps = case["dist"], case["params"]
        if case.get("support"):
            for i, x in enumerate(case["support"]):
                ref = ref_values(dist, x, ps)
                for fn, rv in ref.items():
                    got = o[fn][i]
                    ok = near32(got, rv, 1e-4, 1e-4 * max(1.0, abs(rv)) if fn.startswith("log") else 1e-30)
                    if not ok:
                        fails.append(fail(case, "float32_accuracy:" + fn, dist,
                                          {"function": fn, "support": x, "params": ps, "got": got, "reference": rv}))
        m, v = ref_moments(dist, ps)
        if not near32(o["mean"], m):
            fails.append(fail(case, "float32_accuracy:mean", dist, {"params": ps, "got": o["mean"], "reference": m}))
        if not near32(o["variance"], v):
            fails.append(fail(case, "float32_accuracy:variance", dist, {"params": ps, "got": o["variance"], "reference": v}))
        if case.get("mv"):
            loc, scale, mean, var = o["mv"]
            if not near32(mean, case["mv"][0], 2e-4) or not near32(var, case["mv"][1], 1e-3):
                fails.append(fail(case, "params_mv_roundtrip_float32", dist,
                                  {"target": case["mv"], "mean": mean, "variance": var, "loc": loc, "scale": scale}))
        return fails[:3]
    if k == "quad_cont":
        o = outs[0]["ok"]
        part = case["dist"]
        if not near(o["total"], 1.0, 1.0, 1e-8):
            fails.append(fail(case, "pdf_integrates_to_one", part, {"integral": o["total"]}))
        for p in o["parts"]:
            if not (abs(p["integral"] - p["cdf_diff"]) <= 1e-8):
                fails.append(fail(case, "pdf_integrates_to_cdf", part, p))
                break
        if not near(o["mean_quad"], o["mean"], 1.0, 1e-7):
            fails.append(fail(case, "mean_matches_density", part, {"quadrature": o["mean_quad"], "stated": o["mean"]}))
        if not near(o["var_quad"], o["var"], 1.0, 1e-7):
            fails.append(fail(case, "variance_matches_density", part, {"quadrature": o["var_quad"], "stated": o["var"]}))
        if not (o["max_exp_logpdf_err"] <= 1e-9):
            fails.append(fail(case, "exp_logpdf_eq_pdf", part, {"max_rel_err": o["max_exp_logpdf_err"]}))
        if not (o["max_logcdf_err"] <= 1e-9):
            fails.append(fail(case, "logcdf_eq_log_cdf", part, {"max_abs_err": o["max_logcdf_err"]}))
        if not (o["cdf_lo"] < 1e-12 and o["cdf_hi"] > 1 - 1e-12 and o["cdf_monotone"]):
            fails.append(fail(case, "cdf_limits_monotone", part, {"lo": o["cdf_lo"], "hi": o["cdf_hi"]}))
        return fails
    if k == "quad_poisson":
        o = outs[0]["ok"]
        if not o["valid"]:
            return []          # parameters rejected by Poisson.validate: no claim
        if not near(o["total"], 1.0, 1.0, 1e-9):
            fails.append(fail(case, "pmf_sums_to_one", "poisson", {"sum": o["total"], "rate": case["rate"]}))
        if not (o["max_cdf_err"] <= 1e-9):
            fails.append(fail(case, "pmf_sums_to_cdf", "poisson", {"max_err": o["max_cdf_err"]}))
        if not near(o["mean_sum"], o["mean"], 1.0, 1e-9):
            fails.append(fail(case, "mean_matches_density", "poisson", {"sum": o["mean_sum"], "stated": o["mean"]}))
        if not near(o["var_sum"], o["var"], 1.0, 1e-9):
            fails.append(fail(case, "variance_matches_density", "poisson", {"sum": o["var_sum"], "stated": o["var"]}))
        if not (o["max_exp_logpmf_err"] <= 1e-12):
            fails.append(fail(case, "exp_logpmf_eq_pmf", "poisson", {"max_err": o["max_exp_logpmf_err"]}))
        if not (o["max_logcdf_err"] <= 1e-9):
            fails.append(fail(case, "logcdf_eq_log_cdf", "poisson", {"max_err": o["max_logcdf_err"]}))
        if o["cdf_half"] != o["cdf_two"]:
            fails.append(fail(case, "cdf_floor_of_support", "poisson", {"cdf(2.5)": o["cdf_half"], "cdf(2)": o["cdf_two"]}))
        return fails
    raise AssertionError(k)


# ------------------------------------------------------------------ driver
def nontrivial(c):
    k = c["kind"]
    if k == "ie":
        return 0 < c["t"] < c["dt"]
    if k == "isi":
        return c["m"] >= 1 and sum(c["data"]) >= 2
    if k == "vp_triple":
        return len(c["a"]) + len(c["b"]) + len(c["c"]) >= 2
    return True


def evaluate(cases, with_model=True):
    atoms, owner = [], []
    for i, c in enumerate(cases):
        for a in expand(c):
            atoms.append(a)
            owner.append(i)
    impl = F.run_impl(IMPL, {"cases": atoms})
    terms = [(j, coq_term(a)) for j, a in enumerate(atoms)]
    terms = [(j, t) for j, t in terms if t is not None]
    model = {}
    if with_model:
        # the executable instance is not a dependency of any obligation file (no theorem may depend on floats):
        # (re)build it here against the freshly translated Gen kernels
        with F.BuildLock():
            F.make(["C20/ModelExec.vo"], timeout=600)
        res = F.eval_terms(ID, HEADER, [t for _, t in terms], shard=max(20, (len(terms) + 15) // 16))
        model = {j: r for (j, _), r in zip(terms, res)}
    mismatches, oracle_fail = [], []
    per = {}
    for j, (a, o) in enumerate(zip(atoms, impl)):
        per.setdefault(owner[j], []).append((a, o))
        if j in model:
            mo = model[j]
            if isinstance(mo, Exception):
                mismatches.append({"case": cases[owner[j]], "detail": str(mo)})
                continue
            d = correspond(a, o, mo)
            if d is not None:
                mismatches.append({"case": cases[owner[j]], "detail": {"atom": a, "diff": d}})
    for i, c in enumerate(cases):
        ao = per.get(i, [])
        oracle_fail += oracle(c, [a for a, _ in ao], [o for _, o in ao])
    return atoms, impl, mismatches, oracle_fail, len(terms)


def run(ctx):
    rng = random.Random(ctx["seed"])
    cases = load_corpus() + gen_cases(rng, ctx["tier"])
    exhaustive = ctx["tier"] == "thorough"
    if exhaustive:
        cases += small_scope_cases()
    atoms, impl, mismatches, oracle_fail, nterms = evaluate(cases)
    kinds = Counter(c["kind"] for c in cases)
    return {
        "evaluations": len(atoms),
        "distinct_nontrivial": len({repr(sorted(c.items())) for c in cases if nontrivial(c)}),
        "rule": "seeded cases: interp/extrap pairs (11 pairs, 5 step times, sample times inside/at ends/at the nearest boundary), "
                "isi rasters (T<=12, 6 population shapes, both layouts, empty/single/ragged trains, every 12th with an empty "
                "population), Victor-Purpura triples (0-6 spikes, dyadic + arbitrary times, 9 costs incl. 0 and inf, scalar and "
                "tensor cost; 6 ordered pairs each), Normal/LogNormal/Poisson points and mean/variance targets, plus quadrature "
                "of the implementation's densities (numeric test); implementation-only numeric streams: every support dtype "
                "(int64/int32/bool/float32/float64) x parameter kind (python float/int, 0-d and 1-d float64, float32, numpy) "
                "against the all-float64 evaluation, and python-float arguments (float32 inside the functions) against float64 "
                "closed forms at relative 1e-4 where the formula is well conditioned (narrow LogNormal moments, lower tail of "
                "large-rate Poisson); argument kinds of the other helpers against their all-float64 evaluation (Victor-Purpura cost "
                "as python int/float, numpy scalars, 0-d/1-d int64/float32/float64 tensors x float32/float64/int64 spike times, "
                "with the metric laws on the mixed kinds; isi raster dtype x step_time kind; interp/extrap data dtype x sample-time "
                "dtype x python int/float step and constants); isi also called without time_first on time-first rasters incl. T < last dim; non-trivial = sample strictly inside the step / >=2 spikes / "
                ">=2 spikes in the triple; distinct by full case text"
                + ("; plus all rasters with T<=4, M<=2 and all triples of <=2-spike trains over {0,.5,1} at 3 costs" if exhaustive else ""),
        "case_kinds": dict(kinds), "model_evaluations": nterms,
        "quadrature_cases_numeric_test_only": kinds.get("quad_cont", 0) + kinds.get("quad_poisson", 0),
        "samples": cases[:1] + [c for c in cases if c["kind"] == "vp_triple"][:1],
        "mismatches": mismatches, "oracle_failures": oracle_fail,
        "traces_validated_against_impl": nterms - len(mismatches),
    }


def load_corpus():
    import glob, json
    return [json.load(open(p)) for p in sorted(glob.glob(os.path.join(F.VERIF, "corpus", ID, "*.json")))]


def _oracle_only(case):
    atoms, impl, _, fails, _ = evaluate([case], with_model=False)
    return fails


def minimise(case):
    """shrink spike trains / rasters while the oracle still fails"""
    fails = _oracle_only(case)
    if not fails:
        return case, None
    if case["kind"] == "vp_triple":
        changed = True
        while changed:
            changed = False
            for key in ("a", "b", "c"):
                for i in range(len(case[key])):
                    c2 = dict(case, **{key: case[key][:i] + case[key][i + 1:]})
                    f2 = _oracle_only(c2)
                    if f2:
                        case, fails, changed = c2, f2, True
                        break
                if changed:
                    break
    return case, fails[0]["detail"]


def replay(case):
    fails = _oracle_only(case)
    if not fails:
        return True, "replay: the implementation satisfies the C20 laws on this case"
    return False, "replay: still failing: " + repr(fails[0]["detail"])[:1500]
