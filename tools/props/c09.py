"""C09 - every trainer's LTP/LTD split is non-negative and nets to the signed rule; potentiation goes through the
upper-bound function and depression through the lower-bound function.

Streams (all on the REAL trainers, real Serial layers, real Updater):
  homeo : LinearHomeostasis on weight / bias / delay (model C09/Split.v, run inside Coq);
  stdp  : STDP, StableSTDP, TripletSTDP, StableTripletSTDP, MSTDP, MSTDPET in the four sign modes, with a parameter-
          dependent bound installed on the accumulator (model C08/Stdp.v + C09/Split.v);
  cell  : the delay-adjusted and kernel trainers (model C18/DelayAdj.v, harness pieces of tools/props/c18.py).
Direct oracle (independent of the Coq model, written from the docstrings): parts >= 0 element-wise; parts = the split of
the documented signed rule by the sign of each term's coefficient; applied change = U(param, pos) - L(param, neg) with the
installed upper / lower bound formulas (pos - neg without bounding); homeostasis moves toward the target."""
from __future__ import annotations
import copy, glob, json, math, os, random
from collections import Counter
import framework as F
import c18

ID = "C09"
GEN = ["Trace", "Infra", "Interpolation", "Bounding", "Stdkernels"]
LEVEL = "proof"
TECHNIQUE = ("Coq proof: invariants by induction over arbitrary spike histories (all recorded traces stay >= 0, hence both "
             "parts of every trainer call and of the accumulator) and real algebra (sign routing, clamp split, per-sample "
             "signal split, bound routing) over the per-synapse trainer models of C08 and C18 plus a new model of "
             "LinearHomeostasis and of Accumulator.update; kernels re-translated from the source on every run; models tied "
             "to the code by differential correspondence on real layers; docstring-level direct oracle")
LEVEL_NOTE = ("Trusted: Coq kernel + stdlib real axioms (reported per obligation); translator for the Gen/Trace, Gen/Bounding, "
              "Gen/Stdkernels kernels; the hand-written trainer models (coq/C08/Stdp.v, coq/C18/DelayAdj.v, coq/C09/Split.v) "
              "validated by correspondence only. Not composed: whole-run parts for batches > 1 (per-call batch theorems only), "
              "per-sample reward with non-sum reductions (non-negativity only), delays between two steps, floating-point "
              "rounding. Per-cell hyperparameter overrides (register_cell keywords) are not a theorem: the theorems are per cell in "
              "its EFFECTIVE hyperparameters; that every trainer reads the per-cell state (and not its constructor defaults) is "
              "checked by the correspondence / oracle on groups of cells driven by one trainer object. Finding candidate: the kernel trainers' depressing part is "
              "-reduction(negative sums), which for torch.amax / torch.amin is the opposite extremum of the magnitudes "
              "(kernel_amax_depression_refuted; signature kernel_depression_negated_after_reduction). Known finding: "
              "LinearHomeostasis' depressing part is negative-valued (tests pin it). Formerly: forward(target=None) "
              "of a LinearHomeostasis trainer with several cells used the FIRST cell's default target for all later cells "
              "- found by this check, REPAIRED upstream (6f3edbb; likewise MSTDPET's pooling tags, ab96bed); the old loop is kept as the refuted variant targets_used_old "
              "(old_target_carryover_refuted), corpus/C09/04 is the regression case and a recurrence is a VIOLATION.")
LEVEL_TEXT = ("Machine-checked (Coq, reals), for ALL spike histories, batch sizes, signals, reductions and the four sign modes: "
              "both parts of every STDP / StableSTDP / TripletSTDP / StableTripletSTDP / MSTDP / MSTDPET call and of the "
              "accumulator are >= 0 - invariant 'every recorded trace is >= 0' along arbitrary runs, delays on or off the grid "
              "[stdp_run_parts_nonneg, stdp_acc_parts_nonneg]; the parts are exactly the split of the signed rule by the sign "
              "of the rate (times the reward) [stdp_parts_none, stdp_parts_scalar, stdp_net_none/scalar, "
              "hebbian_causal_is_potentiation, antihebbian_causal_is_depression]; a negated reward swaps the parts "
              "[reward_flip]; a per-sample reward is the sum of the single-sample splits [persample_split]; batches add / "
              "average part by part [batch_parts_sum/mean]; over whole single-sample runs the accumulated potentiating "
              "(depressing) part is the pair sum of the terms whose rate (x reward) is >= 0 (< 0) for pair STDP "
              "[stdp_parts_pairsum, hebbian_parts_pairsum], triplet STDP [triplet_parts_run], MSTDP [mstdp_parts_run] and "
              "MSTDPET [mstdpet_parts_run]; the delay-adjusted and kernel trainers: re-exported C18 theorems (parts_nonneg for "
              "every trainer / kernel / signal, da_stdp(d)_parts, kernel_fwd_net, rule_formula, da_mstdp(d)_*_rule) and "
              "clamp_split; Accumulator.update applies the upper-bound function to the potentiating part only and the "
              "lower-bound function to the depressing part only, for the list and the full form of bind and the generated "
              "bounding kernels [update_list_routing, update_list_value, upper_bound_only_sees_potentiation, bind_update_*], "
              "composed with the trainer [hebbian_soft_bounded, soft_bounded_stays_in_range]; LinearHomeostasis: the monitor "
              "holds spike count / steps for every unit along every run [ca_rate_is_mean, h_run_rate_is_mean], pos >= 0 but "
              "neg <= 0, pos + neg = documented rule, pos - neg = reduction of |k| [homeo_pos_nonneg, homeo_neg_nonpos, "
              "homeo_sum_is_rule, homeo_net_is_abs], correct when all rates are at or below target "
              "[homeo_rates_below_target_ok] and REFUTED otherwise: for every batch of rates at or above target the applied "
              "change is minus the documented one [homeo_rates_above_target_moves_away, "
              "homeostasis_always_spiking_raises_weight, homeostasis_refuted, homeostasis_delay_refuted, "
              "homeostasis_breaks_soft_bounds]; which target each cell of one trainer sees: an explicit forward(target) reaches "
              "every cell, otherwise each cell sees its own default, RuntimeError exactly for the cells without any "
              "[targets_used_is_doc, targets_used_default, targets_used_none_iff]; the pre-repair loop refuted "
              "[old_target_carryover_refuted]; the kernel trainers' parts are, per half kernel, the reductions of the sample sums "
              "of the non-negative / negative contributions [kernel_parts_contract, kernel_depression_linear], joining the "
              "half kernels before the split loses parts [kernel_joined_split_refuted].")
EXPLANATION = LEVEL_TEXT
HEADER = ("From Coq Require Import List ZArith Bool PrimFloat.\n"
          "From Inferno Require Import Base.Num Base.NumF C08.Stdp C09.Split C09.SplitExec.\n"
          "Import ListNotations.\nOpen Scope float_scope.\n")
IMPL = os.path.join(F.VERIF, "tools", "impl", "c09_impl.py")
FINDING_KIND = "homeostasis_negative_depression"

TRAINERS = ["STDP", "StableSTDP", "TripletSTDP", "StableTripletSTDP", "MSTDP", "MSTDPET"]
TWO_FACTOR = ("STDP", "StableSTDP", "TripletSTDP", "StableTripletSTDP")
TRIPLET = ("TripletSTDP", "StableTripletSTDP")
SIGNS = [(1, -1), (-1, 1), (1, 1), (-1, -1)]          # hebbian, anti-hebbian, potentiative, depressive
REDK = {"sum": 0, "mean": 1, "amax": 2}


def q(x):
    return F.coq_float(float(x))


# ------------------------------------------------------------------ bounds
def gen_bound(rng, lo=-1.0, hi=2.0):
    r = rng.random()
    if r < 0.35:
        return None
    mx, mn = rng.choice([hi, 1.0, 1.5]), rng.choice([lo, 0.0, 0.25])
    if r < 0.7:
        def half(side):
            fn = rng.choice(["multiplicative", "multiplicative", "sharp", "scaled_multiplicative"])
            s = {"fn": fn, "lim": mx if side == "upper" else mn}
            if fn == "scaled_multiplicative":
                s["kw"] = {"range": mx - mn}
            return s
        which = rng.choice(["both", "both", "upper", "lower"])
        return {"form": "half", "upper": half("upper") if which != "lower" else None,
                "lower": half("lower") if which != "upper" else None}
    which = rng.choice(["both", "both", "max", "min"])
    return {"form": "full", "fn": rng.choice(["multiplicative", "sharp"]), "max": mx if which != "min" else None,
            "min": mn if which != "max" else None}


def q_bind(b):
    if not b:
        return "BDefault"
    if b["form"] == "half":
        def slot(s, side):
            if s is None:
                return "SId"
            tag = "U" if side == "upper" else "L"
            k = {"multiplicative": f"(HMul{tag} FN)", "sharp": f"(HSharp{tag} FN)",
                 "scaled_multiplicative": f"(HSMul{tag} FN {q(s.get('kw', {}).get('range', 1.0))})"}[s["fn"]]
            return f"(SBound FN {k} {q(s['lim'])})"
        return f"(BHalf FN {slot(b.get('upper'), 'upper')} {slot(b.get('lower'), 'lower')})"
    k = {"multiplicative": "FMul", "sharp": "FSharp"}[b["fn"]]
    return f"(BFull FN {k} {F.coq_option(q(b['max']) if b.get('max') is not None else None)} " \
           f"{F.coq_option(q(b['min']) if b.get('min') is not None else None)})"


def heav(x):
    return 1.0 if x > 0 else 0.0        # torch.heaviside(x, 0)


def bound_half(s, side, w, u):
    """docstring formulas of functional/bounding.py"""
    if s is None:
        return u
    lim = s["lim"]
    d = (lim - w) if side == "upper" else (w - lim)
    if s["fn"] == "multiplicative":
        return d * u
    if s["fn"] == "sharp":
        return heav(d) * u
    return d / s["kw"]["range"] * u


def bounded_change(b, w, p, n):
    """the documented applied change for accumulated parts p, n (missing part = 0): U(w, p) - L(w, n)"""
    if not b:
        return p - n
    if b["form"] == "half":
        return bound_half(b.get("upper"), "upper", w, p) - bound_half(b.get("lower"), "lower", w, n)
    up = None if b.get("max") is None else {"fn": b["fn"], "lim": b["max"]}
    lo = None if b.get("min") is None else {"fn": b["fn"], "lim": b["min"]}
    return bound_half(up, "upper", w, p) - bound_half(lo, "lower", w, n)


# ------------------------------------------------------------------ homeostasis stream
def conv_L(cv):
    oh = (cv["height"] - (cv["kernel"][0] - 1) - 1) + 1
    ow = (cv["width"] - (cv["kernel"][1] - 1) - 1) + 1
    return oh * ow


def homeo_geometry(case):
    """-> (n_out_total, groups=[units], elem2group: param-element index -> group or None (masked), n_elems)"""
    param = case["param"]
    if case["conn"] == "conv":
        cv = case["conv"]
        L = conv_L(cv)
        Fn = cv["filters"]
        K = cv["channels"] * cv["kernel"][0] * cv["kernel"][1]
        groups = [[f * L + l for l in range(L)] for f in range(Fn)]
        e2g = list(range(Fn)) if param == "bias" else [e // K for e in range(Fn * K)]
        return Fn * L, groups, e2g
    n_in = case["n_in"]
    n_out = case["n_out"] if case["conn"] == "dense" else n_in
    groups = [[o] for o in range(n_out)]
    if param == "bias" or case["conn"] == "direct":
        return n_out, groups, list(range(n_out))
    e2g = [e // n_in for e in range(n_out * n_in)]
    if case["conn"] == "lateral":
        e2g = [None if (e // n_in) == (e % n_in) else g for e, g in enumerate(e2g)]     # masked diagonal: not judged
    return n_out, groups, e2g


TARGETS = [0.5, 0.25, 0.75, 0.3, 0.1, 0.9, 1.0, 0.625]
LAMS = [1.0, 0.5, 0.3, 1.7, -0.75, 0.125]


def gen_homeo(rng, force=None):
    kind = rng.choice(["dense", "dense", "dense", "direct", "lateral", "conv"])
    case = {"kind": "homeo", "conn": kind, "B": rng.randint(1, 3), "dt": rng.choice([1.0, 0.5]), "kmax": 3,
            "param": rng.choice(["weight", "weight", "bias", "delay"]), "plasticity": rng.choice(LAMS),
            "reduction": rng.choice([None, None, "mean", "sum", "amax"])}
    if kind == "conv":
        case["conv"] = {"height": rng.choice([2, 3]), "width": rng.choice([2, 3]), "channels": rng.randint(1, 2),
                        "filters": rng.randint(1, 2), "kernel": rng.choice([[2, 2], [1, 1], [2, 1]])}
    else:
        case["n_in"] = rng.randint(2, 3) if kind != "dense" else rng.randint(1, 3)
        case["n_out"] = rng.randint(1, 3) if kind == "dense" else case["n_in"]
    if force:
        case.update(force)
    n_tot, groups, _ = homeo_geometry(case)
    if rng.random() < 0.6:
        case["target"] = rng.choice(TARGETS)
        case["target_at"] = rng.choice(["init", "register", "forward"])
    else:
        case["target"] = [rng.choice(TARGETS) for _ in range(n_tot)]
        case["target_at"] = rng.choice(["register", "forward"])
    T = rng.randint(1, 8)
    # per unit firing probability: rates above and below the targets
    probs = [rng.choice([0.05, 0.3, 0.5, 0.7, 0.95]) for _ in range(n_tot)]
    case["post"] = [[[int(rng.random() < probs[u]) for u in range(n_tot)] for _ in range(case["B"])] for _ in range(T)]
    case["x0"] = rng.choice([1.0, 0.5]) if case["param"] == "delay" else rng.choice([0.5, 0.3, 1.0, -0.25])
    case["bound"] = gen_bound(rng)
    return case


def homeo_tg(case, t, which="used"):
    """the target of step t (explicit forward target, else the cell's own default).  Single cells: the one target of the case."""
    if "tg_used" in case:
        return case["tg_" + which][t]
    return case["target"]


def homeo_targets(case, units, t=0, which="used"):
    tg = homeo_tg(case, t, which)
    return [[(tg[u] if isinstance(tg, list) else tg) for u in units] for _ in range(case["B"])]


def q_homeo(case, units):
    red = REDK[case.get("reduction") or "mean"]
    p = {"weight": 0, "bias": 1, "delay": 2}[case["param"]]
    if "grp_dflts" in case:
        # member of a group: the target it sees is computed INSIDE Coq by the model of forward()'s loop over the cells
        dfl = F.coq_list([F.coq_option(None if d is None else q(d)) for d in case["grp_dflts"]])
        steps = []
        for t, st in enumerate(case["post"]):
            sp = F.coq_list(["[" + "; ".join(str(int(sb[u])) for u in units) + "]%Z" for sb in st])
            f = case["fwd_targets"][t]
            steps.append(f"({F.coq_option(None if f is None else q(f))}, {sp})")
        return (f"run_homeo_g {red}%Z {p}%Z {q(case['plasticity'])} {case['grp_index']}%nat {dfl} {F.coq_list(steps)} "
                f"{q_bind(case.get('bound'))} {q(case['x0'])}")
    steps = []
    for t, st in enumerate(case["post"]):
        tg = F.coq_list([F.coq_list([q(x) for x in row]) for row in homeo_targets(case, units, t)])
        sp = F.coq_list(["[" + "; ".join(str(int(sb[u])) for u in units) + "]%Z" for sb in st])
        steps.append(f"({tg}, {sp})")
    return (f"run_homeo_v {red}%Z {p}%Z {q(case['plasticity'])} {F.coq_list(steps)} {q_bind(case.get('bound'))} {q(case['x0'])}")


def annotate_homeo_group(defaults, cells):
    """per cell and step the target forward() uses = the documented one: the explicit forward target, else the cell's own
    default (None: RuntimeError expected).  The value the MODEL uses is computed inside Coq (targets_used); "tg_used" is
    only the harness' copy of it for the rate / error bookkeeping."""
    T = len(cells[0]["post"])
    fwd = cells[0].get("fwd_targets") or [None] * T
    dflt = [(c["target_reg"] if "target" in c.get("override_keys", []) else defaults.get("target_ctor")) for c in cells]
    for j, c in enumerate(cells):
        c["grp_dflts"], c["grp_index"] = dflt, j
        c["tg_doc"] = [fwd[t] if fwd[t] is not None else dflt[j] for t in range(T)]
        c["tg_used"] = list(c["tg_doc"])


def red_apply(name, xs):
    if name == "sum":
        return math.fsum(xs)
    if name == "mean":
        return math.fsum(xs) / len(xs)
    return max(xs)


def dec_opt(t):
    return None if t == [] else F.dec_float(t[0])


def decl(v):
    return None if v is None else [F.dec_float(x) for x in v]


def same(a, b):
    """optional floats: both missing or both close"""
    if a is None or b is None:
        return a is None and b is None
    return F.close(a, b)


def compare_homeo(case, impl, models, extra=()):
    """correspondence: model (per group of receptive units) vs implementation (per parameter element).
    extra: [(case, impl record, models)] of the OTHER cells writing into the same accumulator (Biclique layers: cells that
    share the connection and train the same parameter) - the accumulator's parts are the sums over the cells."""
    members = [(case, impl, models)] + list(extra)
    n_tot, groups, e2g = homeo_geometry(case)
    B, T = case["B"], len(case["post"])
    for g, units in enumerate(groups):
        ms = []
        for cc, ii, mm in members:
            m = mm[g]
            if isinstance(m, Exception):
                return {"model_error": str(m)[:600]}
            ms.append(m)
            for t in range(T):       # every cell's own rate monitor
                ir = decl(ii["steps"][t]["rate"])
                want = [ir[b * n_tot + u] for b in range(B) for u in units]
                got = [F.dec_float(x) for x in m[0][t][0]] if m[0][t] else None
                if got is None or len(got) != len(want) or any(not F.close(a, b) for a, b in zip(got, want)):
                    return {"what": "spike_rate monitor", "step": t, "group": g, "model": got, "impl": want, "cell": cc.get("bic")}
        elems = [e for e, gg in enumerate(e2g) if gg == g]
        for t in range(T):
            st = impl["steps"][t]
            for key, sel in (("pos", lambda m: m[1][t][0]), ("neg", lambda m: m[1][t][1]),
                             ("apos", lambda m: m[2][t][0]), ("aneg", lambda m: m[2][t][1])):
                mv = None
                for m in ms:
                    mv = add_opt(mv, dec_opt(sel(m)))
                iv = decl(st[key])
                for e in elems:
                    x = None if iv is None else iv[e]
                    if not same(mv, x):
                        return {"what": key + " part", "step": t, "element": e, "model": mv, "impl": x, "cells_on_accumulator": len(ms)}
        if len(ms) == 1:
            aft = decl(impl["after"])
            for e in elems:
                if not F.close(F.dec_float(ms[0][4]), aft[e]):
                    return {"what": "parameter after update()", "element": e, "model": F.dec_float(ms[0][4]), "impl": aft[e]}
    if not impl.get("cleared"):
        return {"what": "accumulator not cleared by update()"}
    return None


def oracle_homeo(case, impl, extra=()):
    """-> list of (detail, signature).  Written from the docstring of LinearHomeostasis and the property statement.
    extra: the other cells (cases) writing into the same accumulator; every cell is judged with ITS effective plasticity,
    target and reduction and its own neuron group's spike history, the accumulator holds the sum."""
    members = [case] + list(extra)
    n_tot, groups, e2g = homeo_geometry(case)
    B, T, param = case["B"], len(case["post"]), case["param"]
    sgn = -1.0 if param == "delay" else 1.0
    counts = [[[0] * n_tot for _ in range(B)] for _ in members]
    fails = []
    acc_p = [0.0] * len(e2g)
    acc_n = [0.0] * len(e2g)
    seen_finding = False
    for t in range(T):
        for k, cc in enumerate(members):
            for b in range(B):
                for u in range(n_tot):
                    counts[k][b][u] += cc["post"][t][b][u]
        st = impl["steps"][t]
        pos, neg = decl(st["pos"]), decl(st["neg"])
        for g, units in enumerate(groups):
            ks_all, want_p, want_n, clampmax = [], 0.0, 0.0, 0.0
            for k, cc in enumerate(members):
                tg = homeo_targets(cc, units, t, "doc")
                red = cc.get("reduction") or "mean"
                # documented per-sample term: (+-)lambda * mean over the receptive units of (r* - r) / r*
                ks = [sgn * cc["plasticity"] * math.fsum((tg[b][j] - counts[k][b][u] / (t + 1)) / tg[b][j] for j, u in enumerate(units)) / len(units)
                      for b in range(B)]
                ks_all.append(ks)
                want_p += red_apply(red, [max(x, 0.0) for x in ks])      # potentiating part of the documented split
                want_n += red_apply(red, [max(-x, 0.0) for x in ks])     # depressing MAGNITUDE of the documented split
                clampmax += red_apply(red, [min(x, 0.0) for x in ks])    # negative-valued pattern of the known finding
            for e in [e for e, gg in enumerate(e2g) if gg == g]:
                gp = 0.0 if pos is None else pos[e]
                gn = 0.0 if neg is None else neg[e]
                acc_p[e] += gp
                acc_n[e] += gn
                ok_p = F.close(gp, want_p, ab=1e-11)
                ok_n = F.close(gn, want_n, ab=1e-11) and gn >= 0
                pat_n = F.close(gn, clampmax, ab=1e-11)
                if not ok_p:
                    fails.append(({"what": "potentiating part differs from max(k, 0) of the documented rule", "step": t,
                                   "element": e, "got": gp, "want": want_p, "targets": [homeo_tg(cc, t, "doc") for cc in members],
                                   "cells_on_accumulator": len(members)},
                                  {"kind": "homeostasis_pos_part", "param": param}))
                    return fails
                if ok_n:
                    continue
                if pat_n:     # (amax: the pattern may be 0 where a magnitude was due)
                    if not seen_finding:
                        seen_finding = True
                        lam = case["plasticity"]
                        above = all(k * sgn * (1 if lam >= 0 else -1) < 0 for k in ks_all[0])
                        fails.append(({"what": "depressing part handed to the updater is NEGATIVE-valued (k.clamp_max(0)); "
                                               "pos - neg = |k|: the parameter moves away from the target",
                                       "step": t, "element": e, "neg_part": gn, "expected_magnitude": want_n,
                                       "pos_part": gp, "documented_change": want_p - want_n, "applied_change": gp - gn,
                                       "rate_above_target_in_every_sample": above},
                                      {"kind": FINDING_KIND, "param": param}))
                    continue
                fails.append(({"what": "depressing part is neither the documented magnitude nor the known negative pattern",
                               "step": t, "element": e, "got": gn, "want": want_n, "cells_on_accumulator": len(members)},
                              {"kind": "homeostasis_neg_part", "param": param}))
                return fails
    # routing: the applied change is U(param, pos) - L(param, neg) for the installed bound functions
    bef, aft = decl(impl["before"]), decl(impl["after"])
    for e, g in enumerate(e2g):
        if g is None:
            continue
        want = bef[e] + bounded_change(case.get("bound"), bef[e], acc_p[e], acc_n[e])
        if not F.close(aft[e], want, rel=1e-9, ab=1e-10):
            fails.append(({"what": "applied change != upper(param, pos) - lower(param, neg)", "element": e, "before": bef[e],
                           "after": aft[e], "want": want, "pos": acc_p[e], "neg": acc_n[e]},
                          {"kind": "bound_routing", "trainer": "LinearHomeostasis"}))
            break
    return fails


# ------------------------------------------------------------------ STDP-family stream
def eff_reduction(case):
    r = case.get("reduction")
    if r is not None:
        return r
    return "mean" if case["trainer"] in TWO_FACTOR else "sum"


def gen_hp(rng, sp, sq):
    return {"lr_post": sp * rng.choice([0.7, 1.1, 0.35]), "lr_pre": sq * rng.choice([0.45, 0.9, 0.3]),
            "tc_post": rng.choice([15.3, 9.7, 22.1]), "tc_pre": rng.choice([20.9, 11.3, 17.7]),
            "lr_post_triplet": rng.choice([0.55, -0.25, 0.15]), "lr_pre_triplet": rng.choice([0.2, -0.65, 0.4]),
            "tc_post_slow": rng.choice([41.3, 33.1]), "tc_pre_slow": rng.choice([37.9, 52.7]),
            "tc_elig": rng.choice([25.7, 8.3, 13.9])}


def gen_stdp(rng, trainer=None, signs=None):
    tr = trainer or rng.choice(TRAINERS)
    sp, sq = signs or rng.choice(SIGNS)
    conn = rng.choice(["dense", "dense", "direct"])
    n_in = rng.randint(1, 2)
    n_out = n_in if conn == "direct" else rng.randint(1, 2)
    B, T = rng.randint(1, 3), rng.randint(1, 7)
    kmax = rng.choice([None, None, 2])
    case = {"kind": "stdp", "trainer": tr, "mode": rng.choice(["cumulative", "nearest"]), "hp": gen_hp(rng, sp, sq),
            "dt": rng.choice([1.0, 0.5, 1.3]), "conn": conn, "n_in": n_in, "n_out": n_out, "B": B, "kmax": kmax,
            "delays": None, "delayed": bool(kmax is not None and rng.random() < 0.5),
            "reduction": rng.choice([None, None, "sum", "mean", "amax"])}
    if kmax is not None:
        case["delays"] = ([rng.randint(0, kmax) for _ in range(n_in)] if conn == "direct"
                          else [[rng.randint(0, kmax) for _ in range(n_in)] for _ in range(n_out)])
    p = rng.choice([0.2, 0.5, 0.8])
    case["pre"] = [[[int(rng.random() < p) for _ in range(n_in)] for _ in range(B)] for _ in range(T)]
    case["post"] = [[[int(rng.random() < p) for _ in range(n_out)] for _ in range(B)] for _ in range(T)]
    case["signal"], case["scale"] = None, 1.0
    if tr in ("MSTDP", "MSTDPET"):
        vals = [1.0, -2.0, 0.5, 0.0, -0.75, 1.3, -0.4, 2.25]
        if rng.random() < 0.5:
            case["signal"] = [rng.choice(vals) for _ in range(T)]
            case["signal_numpy"] = rng.random() < 0.3          # the scalar reward handed over as a numpy float64
        else:
            case["signal"] = [[rng.choice(vals) for _ in range(B)] for _ in range(T)]
            if rng.random() < 0.7:
                case["reduction"] = rng.choice([None, "sum"])
        case["scale"] = rng.choice([1.0, 1.0, 0.5, -2.0, 1.7])
    case["w0"] = rng.choice([0.5, 0.3, 1.0, 0.0])
    case["bound"] = gen_bound(rng)
    return case


def stdp_entries(case):
    n_in, n_out, d = case["n_in"], case["n_out"], case.get("delays")

    def col(arr, j):
        return [[sb[j] for sb in st] for st in arr]
    out = []
    if case["conn"] == "dense":
        for o in range(n_out):
            for i in range(n_in):
                out.append({"idx": o * n_in + i, "k": int(d[o][i]) if d is not None else 0, "pre": col(case["pre"], i),
                            "post": col(case["post"], o)})
    else:
        for i in range(n_in):
            out.append({"idx": i, "k": int(d[i]) if d is not None else 0, "pre": col(case["pre"], i), "post": col(case["post"], i)})
    return out


def q_stdp(case, ent):
    hp, tr = case["hp"], case["trainer"]
    mode = "Cumulative" if case["mode"] == "cumulative" else "Nearest"
    dby = "None" if case.get("kmax") is None else f"(Some {q(case['kmax'] * case['dt'])})"
    red = {"sum": "RSum", "mean": "RMean", "amax": "RAmax"}[eff_reduction(case)]
    fs = [case["dt"], hp["lr_post"], hp["lr_pre"], hp["tc_post"], hp["tc_pre"], hp["lr_post_triplet"],
          hp["lr_pre_triplet"], hp["tc_post_slow"], hp["tc_pre_slow"], hp["tc_elig"]]
    cfg = (f"(mkConfig FN {tr} {mode} " + " ".join(q(x) for x in fs) + f" {F.coq_bool(case['delayed'])} {dby} {red} None)")
    T, B = len(ent["pre"]), case["B"]
    steps = []
    for t in range(T):
        pq = F.coq_list([f"({F.coq_bool(ent['pre'][t][b])}, {F.coq_bool(ent['post'][t][b])})" for b in range(B)])
        sig = case.get("signal")
        if sig is None:
            sg = "(SigNone FN)"
        elif isinstance(sig[t], list):
            sg = f"(SigTensor FN {F.coq_list([q(v) for v in sig[t]])} {q(case.get('scale', 1.0))})"
        else:
            sg = f"(SigScalar FN {q(sig[t])} {q(case.get('scale', 1.0))})"
        steps.append(f"({pq}, {sg})")
    return f"run_stdp {cfg} {ent['k']}%nat {B}%nat {F.coq_list(steps)} {q_bind(case.get('bound'))} {q(case.get('w0', 0.5))}"


def add_opt(a, b):
    if a is None:
        return b
    if b is None:
        return a
    return a + b


def compare_stdp_multi(members, impl):
    """members: [(case, ents, models)] - the cells that write into ONE accumulator (one cell, or the cells of a Biclique
    that share the connection); the accumulator's parts are the sums of the cells' parts (None = no cell handed one)"""
    case0, ents0, _ = members[0]
    T = len(case0["pre"])
    for k, ent0 in enumerate(ents0):
        e = ent0["idx"]
        ms = []
        for case, ents, models in members:
            m = models[k]
            if isinstance(m, Exception):
                return {"model_error": str(m)[:600]}
            if m[0] != 0:
                return {"what": "model rejects the configuration", "model": m}
            ms.append(m)
        for t in range(T):
            st = impl["steps"][t]
            for key, sel in (("pos", lambda m: m[1][t][0]), ("neg", lambda m: m[1][t][1]),
                             ("apos", lambda m: m[2][t][0]), ("aneg", lambda m: m[2][t][1])):
                mv = None
                for m in ms:
                    mv = add_opt(mv, dec_opt(sel(m)))
                iv = decl(st[key])
                x = None if iv is None else iv[e]
                if not same(mv, x):
                    return {"what": key + " part", "step": t, "element": e, "model": mv, "impl": x, "cells_on_accumulator": len(ms)}
        if len(ms) == 1:
            aft = decl(impl["after"])
            if not F.close(F.dec_float(ms[0][4]), aft[e]):
                return {"what": "weight after update()", "element": e, "model": F.dec_float(ms[0][4]), "impl": aft[e]}
    if not impl.get("cleared"):
        return {"what": "accumulator not cleared by update()"}
    return None


def compare_stdp(case, impl, ents, models):
    return compare_stdp_multi([(case, ents, models)], impl)


def stdp_terms(case, ent):
    """per step and sample the two documented partial terms with UNIT learning rates, by the trace recurrences of the
    docstrings: A = [post spike] x_pre (post-triggered: pre-before-post, causal), D = [pre spike arrives] x_post"""
    hp, dt, T, B = case["hp"], case["dt"], len(ent["pre"]), case["B"]
    k = ent["k"] if case.get("kmax") is not None else 0
    nearest = case["mode"] == "nearest"
    tr = case["trainer"]
    out = []
    for b in range(B):
        xp = xq = ys = xs = za = zd = 0.0
        A, D = [], []
        for t in range(T):
            arr = bool(ent["pre"][t - k][b]) if t - k >= 0 else False
            post = bool(ent["post"][t][b])
            ys_prev, xs_prev = ys, xs

            def upd(x, spike, tc):
                if nearest:
                    return 1.0 if spike else x * math.exp(-dt / tc)
                return x * math.exp(-dt / tc) + (1.0 if spike else 0.0)
            xp, xq = upd(xp, arr, hp["tc_pre"]), upd(xq, post, hp["tc_post"])
            a = xp if post else 0.0
            d = xq if arr else 0.0
            if tr in TRIPLET:
                ys, xs = upd(ys, post, hp["tc_post_slow"]), upd(xs, arr, hp["tc_pre_slow"])
                a *= 1.0 + abs(hp["lr_post_triplet"]) / abs(hp["lr_post"]) * ys_prev
                d *= 1.0 + abs(hp["lr_pre_triplet"]) / abs(hp["lr_pre"]) * xs_prev
            if tr == "MSTDPET":
                dz = math.exp(-dt / hp["tc_elig"])
                za, zd = za * dz + a / hp["tc_elig"], zd * dz + d / hp["tc_elig"]
                a, d = za, zd
            A.append(a)
            D.append(d)
        out.append((A, D))
    return out


def stdp_expected(case, ent):
    """per step the (potentiating, depressing) parts the documented signed rule prescribes for this cell with ITS effective
    hyperparameters: every term goes to the side given by the sign of its coefficient (None: no per-sample statement)"""
    hp, T, B = case["hp"], len(case["pre"]), case["B"]
    red = eff_reduction(case)
    sig, gam = case.get("signal"), abs(case.get("scale", 1.0))
    AD = stdp_terms(case, ent)
    out = []
    for t in range(T):
        As, Ds = [AD[b][0][t] for b in range(B)], [AD[b][1][t] for b in range(B)]
        want_p = want_n = 0.0
        if sig is None or not isinstance(sig[t], list):
            m = 1.0 if sig is None else sig[t]
            mag = 1.0 if sig is None else abs(sig[t]) * gam
            for lr, xs in ((hp["lr_post"], As), (hp["lr_pre"], Ds)):
                v = abs(lr) * mag * red_apply(red, xs)
                if lr * m >= 0:
                    want_p += v
                else:
                    want_n += v
        else:
            if red != "sum":
                out.append(None)  # per-sample rewards split the batch before reducing: only the sum is a per-sample statement
                continue
            for b in range(B):
                for lr, x in ((hp["lr_post"], As[b]), (hp["lr_pre"], Ds[b])):
                    c = lr * sig[t][b] * gam * x
                    if c >= 0:
                        want_p += c
                    else:
                        want_n -= c
        out.append((want_p, want_n))
    return out


def oracle_stdp_multi(members, impl):
    """parts >= 0; parts = split of the signed rule by coefficient sign, summed over the cells that share the accumulator;
    applied change through the bound functions.  members: [(case, ents)]"""
    case0, ents0 = members[0]
    T = len(case0["pre"])
    sig = case0.get("signal")
    sigtr = {"trainer": case0["trainer"]}
    for k, ent0 in enumerate(ents0):
        e = ent0["idx"]
        exps = [stdp_expected(case, ents[k]) for case, ents in members]
        acc_p = acc_n = 0.0
        for t in range(T):
            st = impl["steps"][t]
            for key in ("pos", "neg", "apos", "aneg"):
                v = decl(st[key])
                if v is not None and v[e] < 0:
                    return ({"what": f"{key} part handed to the updater is negative", "step": t, "element": e, "value": v[e]},
                            dict(sigtr, kind="negative_part"))
            gp = 0.0 if st["pos"] is None else F.dec_float(st["pos"][e])
            gn = 0.0 if st["neg"] is None else F.dec_float(st["neg"][e])
            acc_p += gp
            acc_n += gn
            if any(x[t] is None for x in exps):
                continue
            want_p, want_n = sum(x[t][0] for x in exps), sum(x[t][1] for x in exps)
            for nm, got, want in (("potentiating", gp, want_p), ("depressing", gn, want_n)):
                if not F.close(got, want, rel=1e-9, ab=1e-11):
                    return ({"what": f"{nm} part differs from the split of the documented signed rule", "step": t, "element": e,
                             "got": got, "want": want, "signs": [[c["hp"]["lr_post"], c["hp"]["lr_pre"]] for c, _ in members],
                             "per_cell_expected": [x[t] for x in exps], "signal": None if sig is None else sig[t]},
                            dict(sigtr, kind="split"))
        bef, aft = decl(impl["before"]), decl(impl["after"])
        want = bef[e] + bounded_change(case0.get("bound"), bef[e], acc_p, acc_n)
        if not F.close(aft[e], want, rel=1e-9, ab=1e-10):
            return ({"what": "applied change != upper(param, pos) - lower(param, neg)", "element": e, "before": bef[e],
                     "after": aft[e], "want": want, "pos": acc_p, "neg": acc_n}, dict(sigtr, kind="bound_routing"))
    return None


def oracle_stdp(case, impl, ents):
    return oracle_stdp_multi([(case, ents)], impl)


# ------------------------------------------------------------------ delay-adjusted / kernel stream (C18 machinery)
def oracle_cell_nonneg(case, ri):
    for k, r in enumerate(ri):
        if "error" in r:
            continue
        for nm in ("pos", "neg"):
            v = c18.dec_opt_list(r.get(nm))
            if v is not None and any(x < 0 for x in v):
                return ({"what": f"{nm} part handed to the updater is negative", "step": k, "values": v},
                        {"trainer": case["trainer"]["cls"], "kind": "negative_part"})
    return None


def gen_cell(rng, cls, signs):
    """a C18 cell case with the learning-rate signs forced (every trainer x sign mode is exercised on every run)"""
    c = c18.gen_case(rng, cls)
    t = c["trainer"]
    a, b = ("lr_post", "lr_pre") if cls in c18.KER else ("lr_pos", "lr_neg")
    t[a] = signs[0] * rng.choice([1.0, 0.5, 0.3, 0.7])
    t[b] = signs[1] * rng.choice([1.0, 0.5, 0.25])
    for k in (a, b):        # the C18 generator may have tagged the old values with an (integer) argument type
        (t.get("types") or {}).pop(k, None)
    return c


# ------------------------------------------------------------------ kernel trainers with custom half kernels
KCLS = ("KernelSTDP", "DelayAdjustedKernelSTDP", "DelayAdjustedKernelSTDPD")
KREDK = {"sum": 0, "mean": 1, "amax": 2, "amin": 3}
KNEG_KIND = "kernel_depression_negated_after_reduction"


def ksided(v, td):
    """K(t_delta) = c + (a_pos if t_delta >= 0 else a_neg) * exp(-|t_delta| / tc)"""
    return v[2] + (v[0] if td >= 0 else v[1]) * math.exp(-abs(td) / v[3])


def gen_kernel_pair(rng, style, signs):
    """(kernel_post, kernel_pre) parameter vectors [a_pos, a_neg, c, tc]"""
    mag = lambda: rng.choice([1.0, 0.5, 0.3, 0.7])          # noqa: E731
    tc = lambda: rng.choice([20.0, 15.0, 5.0, 1.3])         # noqa: E731
    sp, sq = signs
    if style == "stock":          # one-sided like the shipped kernels, every sign combination of the rates
        return [sp * mag(), 0.0, 0.0, tc()], [0.0, sq * mag(), 0.0, tc()]
    if style == "mixed":          # overlapping supports with opposite signs: post >0 where pre <0 and vice versa
        return [sp * mag(), -sp * mag(), 0.0, tc()], [-sp * mag(), sq * mag(), 0.0, tc()]
    if style == "both":           # non-zero on both sides of 0
        return ([rng.choice([1, -1]) * mag(), rng.choice([1, -1]) * mag(), 0.0, tc()],
                [rng.choice([1, -1]) * mag(), rng.choice([1, -1]) * mag(), 0.0, tc()])
    if style == "const":          # constant kernels of opposite / equal sign
        return [0.0, 0.0, sp * rng.choice([0.25, 0.5]), tc()], [0.0, 0.0, sq * rng.choice([0.25, 0.75]), tc()]
    # offset: a window riding on a constant of the other sign
    return [sp * mag(), sp * mag(), -sp * 0.25, tc()], [sq * mag(), -sq * mag(), sq * 0.125, tc()]


KSTYLES = ["mixed", "both", "const", "offset", "stock"]


def gen_kernel_group(rng, gid, cls, style, signs, red):
    """one kernel-trainer object with custom half kernels driving 2-3 cells (own Serial layer each); the first cell has no
    overrides, the others override kernel_post_kwargs / kernel_pre_kwargs / batch_reduction"""
    dt = rng.choice([1.0, 0.5, 0.25])
    want_delay = cls != "KernelSTDP"
    kp, kq = gen_kernel_pair(rng, style, signs)
    defaults = {"cls": cls, "red": red, "kpost": kp, "kpre": kq}
    T = rng.randint(2, 9)
    cells = []
    for j in range(rng.randint(2, 3)):
        conn = c18.gen_conn(rng, dt, want_delay, conv_ok=(j == 2))
        if conn.get("delay") is not None:
            conn["delay"] = 3 * dt
        case = {"kind": "kcell", "B": rng.randint(1, 3), "conn": conn, "trainer": dict(defaults), "override_keys": []}
        g = c18.geometry(case)
        if j >= 1:
            keys = [k for k in ("post", "pre", "red") if rng.random() < 0.6] or ["post"]
            kp2, kq2 = gen_kernel_pair(rng, rng.choice(KSTYLES), rng.choice(SIGNS))
            t = case["trainer"]
            if "post" in keys:
                t["kpost"] = kp2
            if "pre" in keys:
                t["kpre"] = kq2
            if "red" in keys:
                t["red"] = rng.choice(["sum", "mean", "amax", "amin"])
            case["override_keys"] = keys
        ppre, ppost = rng.choice([0.3, 0.5, 0.7]), rng.choice([0.3, 0.5, 0.7])
        case["steps"] = [{"pre": [int(rng.random() < ppre) for _ in range(case["B"] * g["nin"])],
                          "post": [int(rng.random() < ppost) for _ in range(case["B"] * g["nout"])]} for _ in range(T)]
        case["delay0"] = [rng.choice([0.0, dt, 2 * dt, dt / 2, 1.5 * dt]) for _ in range(g["nparam"])] if want_delay else None
        case["w0"] = rng.choice([0.5, 0.3, 1.0])
        case["bound"] = gen_bound(rng)
        case.update(group=gid, family="kernel", defaults=defaults)
        cells.append(case)
    return cells


def q_kernel(case, g, obs):
    t = case["trainer"]
    steps = []
    for st, o in zip(case["steps"], obs):
        dl = st["delay_seen"] if st.get("delay_seen") is not None else [0.0] * g["nparam"]
        steps.append(f"kstep {c18.q_zlist(o)} {c18.q_zlist(st['post'])} {F.coq_list([q(d) for d in dl])}")
    return (f"run_kernel_cell {case['B']} {g['npre']} {g['npost']} {c18.q_nat_pairs(g['syn'])} {q(case['conn']['dt'])} "
            f"{KREDK[t['red']]}%Z {F.coq_bool(t['cls'] != 'KernelSTDP')} " + " ".join(q(x) for x in t["kpost"] + t["kpre"]) +
            f" {F.coq_list(steps)}")


def compare_kernel(case, impl, model):
    if isinstance(model, Exception):
        return {"model_error": str(model)[:600]}
    if len(model) != len(impl["steps"]):
        return {"what": "number of steps", "impl": len(impl["steps"]), "model": len(model)}
    for k, (ri, rm) in enumerate(zip(impl["steps"], model)):
        mpre, mpost, mparts = rm
        for nm, vi, vm in (("pre monitor", ri["pre"], mpre[0]), ("post monitor", ri["post"], mpost[0])):
            a, b = [F.dec_float(x) for x in vi], [F.dec_float(x) for x in vm]
            if len(a) != len(b):
                return {"what": nm + " size", "step": k, "impl": len(a), "model": len(b)}
            for j, (x, y) in enumerate(zip(a, b)):
                if (x != x) != (y != y) or (x == x and not F.close(x, y)):
                    return {"what": nm, "step": k, "index": j, "impl": x, "model": y}
        for side, nm in ((0, "pos"), (1, "neg")):
            vi = decl(ri[nm])
            if vi is None or len(vi) != len(mparts):
                return {"what": f"{nm} part missing or of the wrong size", "step": k}
            for e, p in enumerate(mparts):
                mv = dec_opt(p[side])
                if not same(mv, vi[e]):
                    return {"what": f"{nm} part", "step": k, "element": e, "impl": vi[e], "model": mv}
    if not impl.get("cleared"):
        return {"what": "accumulator not cleared by update()"}
    return None


def kred_apply(red, xs):
    if red == "amin":
        return min(xs)
    return red_apply(red, xs)


def oracle_kernel(case, g, obs, impl):
    """the C09 contract per part, from the spike histories alone: every (receptive pair, half kernel) contributes
    K(t_delta) with t_delta = t_post_last - t_pre_last - delay; the potentiating part is, per half kernel, the batch
    reduction of the sample sums of the NON-NEGATIVE contributions, the depressing part the same for the magnitudes of the
    negative ones; both >= 0; the applied change goes through the bound functions.  -> [(detail, signature)]"""
    t = case["trainer"]
    cls, red, dt, B = t["cls"], t["red"], case["conn"]["dt"], case["B"]
    last_pre = [None] * (B * g["npre"])
    last_post = [None] * (B * g["npost"])
    n = g["nparam"]
    acc_p, acc_n = [0.0] * n, [0.0] * n
    fails, seen = [], False
    for k, (st, o, ri) in enumerate(zip(case["steps"], obs, impl["steps"])):
        for j, s in enumerate(o):
            if s:
                last_pre[j] = k
        for j, s in enumerate(st["post"]):
            if s:
                last_post[j] = k
        pos, neg = decl(ri["pos"]), decl(ri["neg"])
        delays = st.get("delay_seen") or [0.0] * n
        for e, pairs in enumerate(g["syn"]):
            d = 0.0 if cls == "KernelSTDP" else delays[e]
            P = {"post": [], "pre": []}
            Nn = {"post": [], "pre": []}
            for b in range(B):
                p = {"post": 0.0, "pre": 0.0}
                m = {"post": 0.0, "pre": 0.0}
                for (i, oo) in pairs:
                    jp, jq = last_pre[b * g["npre"] + i], last_post[b * g["npost"] + oo]
                    if jp is None or jq is None:
                        continue          # no change while either side has not spiked yet
                    td = (jq - jp) * dt - d
                    for half, v in (("post", t["kpost"]), ("pre", t["kpre"])):
                        x = ksided(v, td)
                        if x >= 0:
                            p[half] += x
                        else:
                            m[half] -= x
                for half in ("post", "pre"):
                    P[half].append(p[half])
                    Nn[half].append(m[half])
            want_p = kred_apply(red, P["post"]) + kred_apply(red, P["pre"])
            want_n = kred_apply(red, Nn["post"]) + kred_apply(red, Nn["pre"])
            # what the code computes for the depressing part: minus the reduction of the NEGATIVE sums (= want_n for sum / mean)
            code_n = -(kred_apply(red, [-x for x in Nn["post"]]) + kred_apply(red, [-x for x in Nn["pre"]]))
            gp = 0.0 if pos is None else pos[e]
            gn = 0.0 if neg is None else neg[e]
            acc_p[e] += gp
            acc_n[e] += gn
            if gp < 0 or gn < 0:
                fails.append(({"what": "a part handed to the updater is negative", "step": k, "element": e, "pos": gp, "neg": gn},
                              {"kind": "negative_part", "trainer": cls}))
                return fails
            if not F.close(gp, want_p, rel=1e-9, ab=1e-11):
                fails.append(({"what": "potentiating part != per half kernel the batch reduction of the non-negative contributions",
                               "step": k, "element": e, "got": gp, "want": want_p, "reduction": red, "kernels": [t["kpost"], t["kpre"]]},
                              {"kind": "kernel_split", "trainer": cls}))
                return fails
            if F.close(gn, want_n, rel=1e-9, ab=1e-11):
                continue
            if red in ("amax", "amin") and F.close(gn, code_n, rel=1e-9, ab=1e-11):
                if not seen:
                    seen = True
                    fails.append(({"what": "depressing part is MINUS the batch reduction of the negative sums, not the batch reduction of "
                                           "their magnitudes: with amax (amin) the smallest (largest) depression of the batch is "
                                           "handed to the updater", "step": k, "element": e, "got": gn, "want": want_n,
                                   "reduction": red, "per_sample_magnitudes": Nn}, {"kind": KNEG_KIND, "trainer": cls, "red": red}))
                continue
            fails.append(({"what": "depressing part != per half kernel the batch reduction of the magnitudes of the negative "
                                   "contributions", "step": k, "element": e, "got": gn, "want": want_n, "reduction": red,
                           "kernels": [t["kpost"], t["kpre"]]}, {"kind": "kernel_split", "trainer": cls}))
            return fails
    bef, aft = decl(impl["before"]), decl(impl["after"])
    mask = None
    if case["conn"]["cls"] == "LinearLateral":
        nn_ = case["conn"]["in"][0]
        mask = [0.0 if (e // nn_) == (e % nn_) else 1.0 for e in range(nn_ * nn_)]
    for e in range(n):
        want = bef[e] + bounded_change(case.get("bound"), bef[e], acc_p[e], acc_n[e])
        if mask is not None and cls != "DelayAdjustedKernelSTDPD":
            want *= mask[e]
        if mask is not None and mask[e] == 0.0:
            continue
        if not F.close(aft[e], want, rel=1e-9, ab=1e-10):
            fails.append(({"what": "applied change != upper(param, pos) - lower(param, neg)", "element": e, "before": bef[e],
                           "after": aft[e], "want": want, "pos": acc_p[e], "neg": acc_n[e]},
                          {"kind": "bound_routing", "trainer": cls}))
            break
    return fails


# ------------------------------------------------------------------ groups: ONE trainer object, several cells with overrides
def gen_homeo_group(rng, gid, expect_error=False):
    """one LinearHomeostasis object driving 2-3 cells registered with per-cell keyword overrides of plasticity / target /
    param / batch_reduction (one cell without overrides, one whose plasticity override has the opposite sign), with every
    combination of constructor target (None | value), per-cell target (absent | None | value) and explicit forward target
    per step (None | value).  Cells hold their EFFECTIVE hyperparameters."""
    defaults = {"plasticity": rng.choice(LAMS), "param": rng.choice(["weight", "weight", "bias", "delay"]),
                "reduction": rng.choice([None, None, "mean", "sum", "amax"]),
                "target_ctor": rng.choice([None, rng.choice(TARGETS), rng.choice(TARGETS)])}
    T = rng.randint(1, 6)
    ncell = rng.randint(1, 3) if expect_error else rng.randint(2, 3)
    cells = []
    for j in range(ncell):
        c = gen_homeo(rng)
        c["post"] = [[[int(rng.random() < 0.5) for _ in st[0]] for _ in range(c["B"])] for st in (c["post"] * 8)[:T]]
        for k in ("target", "target_at"):
            c.pop(k, None)
        keys = []
        if j == 1:
            keys = ["plasticity"] + [k for k in ("target", "param", "reduction") if rng.random() < 0.6]
        elif j >= 2:
            keys = [k for k in ("plasticity", "target", "param", "reduction") if rng.random() < 0.5]
        c["plasticity"], c["param"], c["reduction"] = defaults["plasticity"], defaults["param"], defaults["reduction"]
        if "plasticity" in keys:
            c["plasticity"] = (-1 if j == 1 else rng.choice([1, -1])) * (1 if defaults["plasticity"] >= 0 else -1) * rng.choice([1.0, 0.5, 0.3, 1.7])
        if "param" in keys:
            c["param"] = rng.choice(["weight", "bias", "delay"])
        if "reduction" in keys:
            c["reduction"] = rng.choice(["mean", "sum", "amax"])
        if "target" in keys:
            c["target_reg"] = rng.choice([None, rng.choice(TARGETS), rng.choice(TARGETS)])
        c["x0"] = rng.choice([1.0, 0.5]) if c["param"] == "delay" else rng.choice([0.5, 0.3, 1.0, -0.25])
        c["override_keys"] = keys
        c.update(group=gid, family="homeo", defaults=defaults)
        cells.append(c)
    mode = rng.choice(["none", "all", "mixed", "mixed"])
    fwd = [None if mode == "none" or (mode == "mixed" and rng.random() < 0.5) else rng.choice(TARGETS) for _ in range(T)]
    dflt = [(c["target_reg"] if "target" in c["override_keys"] else defaults["target_ctor"]) for c in cells]
    if expect_error:
        # one cell (the first or a LATER one) has no default target at all and the last call passes none: forward must
        # raise RuntimeError for that cell, whatever defaults the other cells have
        v = rng.randrange(ncell)
        keys = [k for k in cells[v]["override_keys"] if k != "target"]
        if defaults["target_ctor"] is not None:
            keys.append("target")
            cells[v]["target_reg"] = None
        cells[v]["override_keys"] = keys
        fwd[-1] = None
        fwd[:-1] = [f if f is not None else rng.choice(TARGETS) for f in fwd[:-1]]
        for c in cells:
            c["expect_error"] = True
    elif any(d is None for d in dflt):
        # a cell without a default target: every call must pass an explicit target
        fwd = [f if f is not None else rng.choice(TARGETS) for f in fwd]
    for c in cells:
        c["fwd_targets"] = fwd
    annotate_homeo_group(defaults, cells)
    return cells


STDP_KEYS = {"STDP": ["lr_post", "lr_pre", "tc_post", "tc_pre", "mode", "reduction", "delayed"],
             "MSTDP": ["lr_post", "lr_pre", "tc_post", "tc_pre", "mode", "reduction", "delayed"],
             "MSTDPET": ["lr_post", "lr_pre", "tc_post", "tc_pre", "tc_elig", "mode", "reduction"],
             "TripletSTDP": ["lr_post", "lr_post_triplet", "lr_pre", "lr_pre_triplet", "tc_post", "tc_post_slow", "tc_pre",
                             "tc_pre_slow", "mode", "reduction", "delayed"]}
STDP_KEYS["StableSTDP"] = STDP_KEYS["STDP"]
STDP_KEYS["StableTripletSTDP"] = STDP_KEYS["TripletSTDP"]


def gen_stdp_group(rng, gid, trainer, signs):
    """one trainer object (constructor-level hyperparameters = `defaults`) driving 2-3 cells: the first registered without
    overrides, the second with learning-rate overrides of the OPPOSITE sign mode (plus other overrides), the third with a
    random subset of every keyword register_cell accepts.  Batch size, number of steps and the reward are common."""
    base = gen_stdp(rng, trainer, signs)
    defaults = {k: base[k] for k in ("trainer", "mode", "hp", "delayed", "reduction")}
    B, T = base["B"], len(base["pre"])
    cells = []
    for j in range(rng.randint(2, 3)):
        c = gen_stdp(rng, trainer, signs)
        n_in, n_out = c["n_in"], c["n_out"]
        p = rng.choice([0.2, 0.5, 0.8])
        c["B"] = B
        c["pre"] = [[[int(rng.random() < p) for _ in range(n_in)] for _ in range(B)] for _ in range(T)]
        c["post"] = [[[int(rng.random() < p) for _ in range(n_out)] for _ in range(B)] for _ in range(T)]
        c["signal"], c["scale"] = base["signal"], base["scale"]
        c["signal_numpy"] = bool(base.get("signal_numpy"))
        hp = dict(defaults["hp"])
        c.update(mode=defaults["mode"], delayed=defaults["delayed"], reduction=defaults["reduction"])
        allowed = STDP_KEYS[trainer]
        keys = []
        if j == 1:
            flip = rng.choice([("lr_post",), ("lr_pre",), ("lr_post", "lr_pre")])
            keys = list(flip) + [k for k in allowed if k not in flip and rng.random() < 0.35]
        elif j >= 2:
            keys = [k for k in allowed if rng.random() < 0.5]
        fresh = gen_hp(rng, *signs)
        for k in keys:
            if k == "mode":
                c["mode"] = rng.choice(["cumulative", "nearest"])
            elif k == "reduction":
                c["reduction"] = rng.choice(["sum", "mean", "amax"]) if c["signal"] is None or not isinstance(c["signal"][0], list) else "sum"
            elif k == "delayed":
                c["delayed"] = not defaults["delayed"]
            elif k in ("lr_post", "lr_pre") and j == 1 and k in flip:
                hp[k] = -abs(fresh[k]) if defaults["hp"][k] >= 0 else abs(fresh[k])
            else:
                hp[k] = fresh[k] if k.startswith("tc") or rng.random() < 0.5 else -fresh[k]
        c["hp"] = hp
        c["override_keys"] = keys
        c.update(group=gid, family="stdp", defaults=defaults)
        cells.append(c)
    return cells


def change_key(rng, c, k, signs):
    """give cell c a different value of hyperparameter k (recorded as an override)"""
    hp = c["hp"]
    if k == "mode":
        c["mode"] = "nearest" if c["mode"] == "cumulative" else "cumulative"
    elif k == "reduction":
        cur = eff_reduction(c)
        c["reduction"] = rng.choice([r for r in ("sum", "mean", "amax") if r != cur])
    elif k == "delayed":
        c["delayed"] = not c["delayed"]
    elif k.startswith("tc"):
        hp[k] = hp[k] * rng.choice([0.5, 1.25, 0.8])
        if k.endswith("_slow"):
            hp[k] = max(hp[k], 1.5 * hp[k[:-5]])
        elif k in ("tc_post", "tc_pre") and (k + "_slow") in hp:
            hp[k] = min(hp[k], 0.6 * hp[k + "_slow"])
    else:
        hp[k] = rng.choice([1, 1, -1]) * hp[k] * rng.choice([0.5, 0.1, 1.5])
    if k not in c["override_keys"]:
        c["override_keys"] = c["override_keys"] + [k]


def gen_stdp_biclique(rng, gid, trainer, signs, q):
    """ONE trainer object on ONE Biclique layer: 2 connections x 2 neuron groups, all four cells registered with per-cell
    overrides.  Cells (0,j) and (1,j) share neuron group j and differ in exactly ONE hyperparameter k1; cells (i,0) and (i,1)
    share connection i (and its accumulator) and differ in exactly one hyperparameter k2: every other monitor of such a
    pair is poolable (equal tags), the one depending on the differing hyperparameter is not.  k1, k2 rotate with q."""
    base = gen_stdp(rng, trainer, signs)
    defaults = {k: base[k] for k in ("trainer", "mode", "hp", "delayed", "reduction")}
    B, T, dt = base["B"], len(base["pre"]), base["dt"]
    n_out = rng.randint(1, 2)
    persample = base["signal"] is not None and isinstance(base["signal"][0], list)
    allowed = [k for k in STDP_KEYS[trainer] if not (persample and k == "reduction")]
    k1, k2 = allowed[q % len(allowed)], allowed[(q + 2) % len(allowed)]
    p = rng.choice([0.3, 0.5, 0.8])
    conns = []
    for i in range(2):
        n_in = rng.randint(1, 2)
        kmax = rng.choice([None, None, 2])
        conns.append({"conn": "dense", "n_in": n_in, "n_out": n_out, "kmax": kmax,
                      "delays": None if kmax is None else [[rng.randint(0, kmax) for _ in range(n_in)] for _ in range(n_out)],
                      "w0": rng.choice([0.5, 0.3, 1.0, 0.0]), "bound": gen_bound(rng),
                      "pre": [[[int(rng.random() < p) for _ in range(n_in)] for _ in range(B)] for _ in range(T)]})
    posts = [[[[int(rng.random() < p) for _ in range(n_out)] for _ in range(B)] for _ in range(T)] for _ in range(2)]
    # cell (0,0): a random subset of overrides with fresh values
    c00 = {"trainer": trainer, "hp": dict(defaults["hp"]), "mode": defaults["mode"], "delayed": defaults["delayed"], "reduction": defaults["reduction"],
           "override_keys": []}
    for k in allowed:
        if k not in (k1, k2) and rng.random() < 0.3:
            change_key(rng, c00, k, signs)
    grid = {(0, 0): c00}
    grid[(1, 0)] = copy.deepcopy(c00)
    change_key(rng, grid[(1, 0)], k1, signs)
    grid[(0, 1)] = copy.deepcopy(c00)
    change_key(rng, grid[(0, 1)], k2, signs)
    grid[(1, 1)] = copy.deepcopy(grid[(1, 0)])
    change_key(rng, grid[(1, 1)], k2, signs)
    if rng.random() < 0.5:
        # overrides that merely restate the trainer default are still overrides
        grid[(0, 0)]["override_keys"] = sorted(set(grid[(0, 0)]["override_keys"]) | {k1})
    cells = []
    for (i, j) in ((0, 0), (0, 1), (1, 0), (1, 1)):
        c = {"kind": "stdp", "trainer": trainer, "dt": dt, "B": B, "post": posts[j], "signal": base["signal"], "scale": base["scale"],
             "bic": [i, j], "layout": "biclique", "differs": {"sharing_neuron": k1, "sharing_connection": k2},
             "signal_numpy": bool(base.get("signal_numpy"))}
        c.update(conns[i])
        c.update(grid[(i, j)])
        c.update(group=gid, family="stdp", defaults=defaults)
        cells.append(c)
    return cells


def gen_homeo_biclique(rng, gid, q):
    """ONE LinearHomeostasis object on ONE Biclique layer (2 dense connections x 2 neuron groups, all four cells registered).
    Cells (0,j), (1,j) share neuron group j (their spike_rate monitors are poolable: the only tag is dt) and differ in
    exactly one hyperparameter k1; cells (i,0), (i,1) share connection i and differ in exactly one hyperparameter k2 -
    unless that is `param` they write into the SAME accumulator.  k1, k2 rotate over plasticity / target / param /
    reduction with q."""
    keys = ["plasticity", "target", "param", "reduction"]
    k1, k2 = keys[q % 4], keys[(q // 4 + q + 1) % 4]
    defaults = {"plasticity": rng.choice(LAMS), "param": rng.choice(["weight", "weight", "bias", "delay"]),
                "reduction": rng.choice([None, "mean", "sum", "amax"]), "target_ctor": rng.choice(TARGETS)}
    B, T, dt = rng.randint(1, 3), rng.randint(1, 6), rng.choice([1.0, 0.5])
    n_out = rng.randint(1, 2)
    n_ins = [rng.randint(1, 2), rng.randint(1, 2)]
    probs = [rng.choice([0.1, 0.5, 0.9]) for _ in range(2)]
    posts = [[[[int(rng.random() < probs[j]) for _ in range(n_out)] for _ in range(B)] for _ in range(T)] for j in range(2)]

    def change(c, k):
        if k == "plasticity":
            c["plasticity"] = rng.choice([1, -1]) * c["plasticity"] * rng.choice([0.5, 2.0, 0.3])
        elif k == "target":
            c["target_reg"] = rng.choice([x for x in TARGETS if x != c.get("target_reg", defaults["target_ctor"])])
        elif k == "param":
            c["param"] = rng.choice([x for x in ("weight", "bias", "delay") if x != c["param"]])
        else:
            c["reduction"] = rng.choice([x for x in ("mean", "sum", "amax") if x != (c["reduction"] or "mean")])
        if k not in c["override_keys"]:
            c["override_keys"] = c["override_keys"] + [k]
    c00 = {"plasticity": defaults["plasticity"], "param": defaults["param"], "reduction": defaults["reduction"], "override_keys": []}
    for k in keys:
        if k not in (k1, k2) and rng.random() < 0.3:
            change(c00, k)
    grid = {(0, 0): c00}
    grid[(1, 0)] = copy.deepcopy(c00)
    change(grid[(1, 0)], k1)
    grid[(0, 1)] = copy.deepcopy(c00)
    change(grid[(0, 1)], k2)
    grid[(1, 1)] = copy.deepcopy(grid[(1, 0)])
    change(grid[(1, 1)], k2)
    x0 = {(i, prm): (rng.choice([1.0, 0.5]) if prm == "delay" else rng.choice([0.5, 0.3, 1.0, -0.25]))
          for i in range(2) for prm in ("weight", "bias", "delay")}
    bnd = {(i, prm): gen_bound(rng) for i in range(2) for prm in ("weight", "bias", "delay")}
    mode = rng.choice(["none", "all", "mixed"])
    fwd = [None if mode == "none" or (mode == "mixed" and rng.random() < 0.5) else rng.choice(TARGETS) for _ in range(T)]
    cells = []
    for (i, j) in ((0, 0), (0, 1), (1, 0), (1, 1)):
        c = {"kind": "homeo", "conn": "dense", "n_in": n_ins[i], "n_out": n_out, "B": B, "dt": dt, "kmax": 3, "post": posts[j],
             "bic": [i, j], "layout": "biclique", "differs": {"sharing_neuron": k1, "sharing_connection": k2}, "fwd_targets": fwd}
        c.update(grid[(i, j)])
        c["x0"], c["bound"] = x0[(i, c["param"])], bnd[(i, c["param"])]
        c.update(group=gid, family="homeo", defaults=defaults)
        cells.append(c)
    annotate_homeo_group(defaults, cells)
    return cells


def group_of(cases, c):
    """the replayable unit of a failing cell: its whole group when it shares the trainer object with other cells"""
    if c.get("group") is None:
        return strip(c)
    members = [x for x in cases if x.get("group") == c["group"]]
    g = {"kind": "group", "family": c["family"], "defaults": c["defaults"], "cells": [strip(x) for x in members],
         "failing_cell": [id(x) for x in members].index(id(c))}
    if c.get("layout"):
        g["layout"] = c["layout"]
    return g


def expand_groups(cases):
    """replay / corpus form {"kind": "group", ...} -> member cells tagged with a fresh group id"""
    out, gid = [], 10 ** 6
    for c in cases:
        if c.get("kind") == "group":
            gid += 1
            for x in c["cells"]:
                x = copy.deepcopy(x)
                x.update(group=gid, family=c["family"], defaults=c["defaults"])
                out.append(x)
            if c["family"] == "homeo":
                annotate_homeo_group(c["defaults"], out[-len(c["cells"]):])
        else:
            out.append(c)
    return out


def run_impl_grouped(cases):
    """cells with the same "group" run under ONE trainer object; results are scattered back into case order"""
    payload, slots, seen = [], [], {}
    for c in cases:
        gid = c.get("group")
        if gid is None:
            slots.append((len(payload), None))
            payload.append(c)
        else:
            if gid not in seen:
                seen[gid] = len(payload)
                payload.append({"kind": "group", "family": c["family"], "defaults": c["defaults"], "cells": []})
                if c.get("layout"):
                    payload[-1]["layout"] = c["layout"]
            k = seen[gid]
            slots.append((k, len(payload[k]["cells"])))
            payload[k]["cells"].append({kk: v for kk, v in c.items() if kk not in ("defaults", "tg_used", "tg_doc", "grp_dflts", "grp_index")})
    res = F.run_impl(IMPL, {"cases": payload})
    return [res[k] if j is None else res[k][j] for (k, j) in slots]


# ------------------------------------------------------------------ driver
def known_listed(kind=FINDING_KIND):
    return any(k.get("property") == ID and (k.get("match") or {}).get("kind") == kind
               for k in F.load_known().get("findings", []))


def ensure_exec():
    with F.BuildLock():
        ok, out = F.make(["C09/SplitExec.vo", "C18/DelayAdjExec.vo"], timeout=900)
    return ok, out


def strip(c):
    c = copy.deepcopy(c)
    if c.get("kind") == "group":
        c["cells"] = [strip(x) for x in c["cells"]]
        return c
    member = c.get("group") is not None
    for k in ("defaults", "group", "family", "tg_used", "tg_doc", "grp_dflts", "grp_index"):
        if member or k.startswith("tg_") or k.startswith("grp_"):
            c.pop(k, None)
    for st in c.get("steps", []) if c.get("kind") in ("cell", "kcell") else []:
        st.pop("delay_seen", None)
    return c


REPAIRED = [0]


def evaluate(cases):
    """-> impl results, mismatches, oracle failures (all, including instances of the known finding)"""
    impl = run_impl_grouped(cases)
    terms, spans = [], []
    cell_terms, cell_idx, cell_aux = [], [], {}
    for i, (c, r) in enumerate(zip(cases, impl)):
        if c.get("expect_error") or (c["kind"] == "homeo" and "tg_used" in c and None in c["tg_used"]):
            spans.append(None)
        elif c["kind"] == "homeo":
            n_tot, groups, e2g = homeo_geometry(c)
            spans.append((len(terms), len(groups)))
            terms += [q_homeo(c, u) for u in groups]
        elif c["kind"] == "stdp":
            ents = stdp_entries(c)
            spans.append((len(terms), len(ents)))
            terms += [q_stdp(c, e) for e in ents]
        elif c["kind"] == "kcell":
            if r.get("ok"):
                for st, ri in zip(c["steps"], r["steps"]):
                    st["delay_seen"] = None if ri.get("delay") is None else [F.dec_float(x) for x in ri["delay"]]
                g = c18.geometry(c)
                o = c18.pre_observations(c, g)
                cell_aux[i] = (g, o)
                spans.append((len(terms), 1))
                terms.append(q_kernel(c, g, o))
            else:
                spans.append(None)
        else:
            spans.append(None)
            if r.get("ok"):
                ri = r["cell"]
                c18.attach_seen(c, ri)
                g = c18.geometry(c)
                ok = all("error" not in x for x in ri)
                o = c18.pre_observations(c, g) if ok else None
                cell_aux[i] = (g, o, ri)
                cell_idx.append(i)
                cell_terms.append(c18.q_case(c, g, o) if ok else "Nd []")
    model = F.eval_terms(ID, HEADER, terms, shard=max(30, len(terms) // 40 + 1)) if terms else []
    cmodel = F.eval_terms(ID, c18.HEADER, cell_terms, shard=max(10, len(cell_terms) // 24 + 1), tag="cells") if cell_terms else []
    cm = dict(zip(cell_idx, cmodel))
    mismatches, fails = [], []
    for i, (c, r) in enumerate(zip(cases, impl)):
        if c.get("expect_error"):
            # no default target anywhere and forward(target=None): the documented behaviour is a RuntimeError
            if r.get("ok") or r.get("err") != 1:
                d = {"what": "forward(target=None) without any default target must raise RuntimeError", "got": r.get("msg", "no error")}
                mismatches.append({"case": group_of(cases, c), "detail": d})
                fails.append({"case": group_of(cases, c), "detail": d, "signature": {"kind": "missing_target_error"}})
            continue
        if not r.get("ok"):
            d = {"what": "the implementation raised on a valid configuration", "msg": r.get("msg"), "trace": r.get("trace", "")[-500:]}
            mismatches.append({"case": group_of(cases, c), "detail": d})
            fails.append({"case": group_of(cases, c), "detail": d, "signature": {"kind": "raised", "stream": c["kind"]}})
            continue
        if c["kind"] == "homeo":
            a, n = spans[i]
            extra_m, extra_c = [], []
            if c.get("bic") is not None:
                same_acc = [k for k, x in enumerate(cases) if x.get("group") == c["group"] and x["bic"][0] == c["bic"][0]
                            and x["param"] == c["param"]]
                if same_acc[0] != i:
                    continue       # judged with the first cell writing into its accumulator
                for k in same_acc[1:]:
                    extra_m.append((cases[k], impl[k], model[spans[k][0]:spans[k][0] + spans[k][1]]))
                    extra_c.append(cases[k])
            d = compare_homeo(c, r, model[a:a + n], extra_m)
            ofl = oracle_homeo(c, r, extra_c)
            if d is not None and not ofl and isinstance(d, dict) and d.get("what") in ("neg part", "aneg part", "parameter after update()"):
                # the model mirrors the known defect (negative-valued depressing part); an implementation that hands the
                # documented non-negative magnitude instead satisfies the property's oracle: not an alarm (DESIGN section 5)
                REPAIRED[0] += 1
                d = None
            if d is not None:
                mismatches.append({"case": group_of(cases, c), "detail": d})
            for det, sg in ofl:
                fails.append({"case": group_of(cases, c), "detail": det,
                              "signature": dict(sg, overrides=bool(c.get("override_keys"))) if c.get("group") is not None else sg})
        elif c["kind"] == "kcell":
            g, o = cell_aux[i]
            d = compare_kernel(c, r, model[spans[i][0]])
            if d is not None:
                mismatches.append({"case": group_of(cases, c), "detail": d})
            for det, sg in oracle_kernel(c, g, o, r):
                fails.append({"case": group_of(cases, c), "detail": det, "signature": dict(sg, overrides=bool(c.get("override_keys")))})
        elif c["kind"] == "stdp" and c.get("bic") is not None:
            if any(x.get("group") == c["group"] and x["bic"][0] == c["bic"][0] for x in cases[:i]):
                continue       # judged with the first cell on its connection
            idxs = [k for k, x in enumerate(cases) if x.get("group") == c["group"] and x["bic"][0] == c["bic"][0]]
            mem = [(cases[k], stdp_entries(cases[k]), model[spans[k][0]:spans[k][0] + spans[k][1]]) for k in idxs]
            d = compare_stdp_multi(mem, r)
            o = oracle_stdp_multi([(cc, ee) for cc, ee, _ in mem], r)
            if d is not None:
                mismatches.append({"case": group_of(cases, c), "detail": dict(d, connection=c["bic"][0])})
            if o is not None:
                fails.append({"case": group_of(cases, c), "detail": dict(o[0], connection=c["bic"][0], differs=c["differs"]),
                              "signature": dict(o[1], layout="biclique")})
        elif c["kind"] == "stdp":
            a, n = spans[i]
            ents = stdp_entries(c)
            d = compare_stdp(c, r, ents, model[a:a + n])
            if d is not None:
                mismatches.append({"case": group_of(cases, c), "detail": d})
            o = oracle_stdp(c, r, ents)
            if o is not None:
                fails.append({"case": group_of(cases, c), "detail": o[0],
                              "signature": dict(o[1], overrides=bool(c.get("override_keys"))) if c.get("group") is not None else o[1]})
        else:
            g, o, ri = cell_aux[i]
            tm = cm[i]
            if isinstance(tm, Exception):
                mismatches.append({"case": strip(c), "detail": str(tm)[:600]})
                continue
            if o is None:
                bad = next(x for x in ri if "error" in x)
                fails.append({"case": strip(c), "detail": {"what": "implementation raised", "msg": bad.get("msg")},
                              "signature": {"trainer": c["trainer"]["cls"], "kind": "raised"}})
                continue
            d = c18.compare_cell(c, g, ri, tm)
            if d is not None:
                mismatches.append({"case": strip(c), "detail": d})
            res = oracle_cell_nonneg(c, ri) or c18.oracle_cell(c, g, o, ri)
            if res is not None:
                fails.append({"case": strip(c), "detail": res[0], "signature": dict(res[1], stream="cell")})
    return impl, mismatches, fails


WITNESS = {"kind": "homeo", "conn": "dense", "n_in": 1, "n_out": 1, "B": 1, "dt": 1.0, "kmax": 3, "param": "weight",
           "plasticity": 1.0, "target": 0.5, "target_at": "init", "reduction": None, "post": [[[1]]], "x0": 0.5, "bound": None}


def load_corpus():
    return [json.load(open(p)) for p in sorted(glob.glob(os.path.join(F.VERIF, "corpus", ID, "*.json")))]


def exhaustive_stdp(maxlen):
    """every pre/post history of length <= maxlen on a 1x1 cell for every trainer x sign mode (cumulative traces)"""
    import itertools
    out = []
    for tr in (TRAINERS if maxlen > 2 else ["STDP", "TripletSTDP", "MSTDP", "MSTDPET"]):
        for si, (sp, sq) in enumerate(SIGNS):
            hp = gen_hp(random.Random(TRAINERS.index(tr) * 10 + si), sp, sq)
            for L in range(1, maxlen + 1):
                for bits in itertools.product([0, 1], repeat=2 * L):
                    sig = [[1.0, -2.0, 0.5][t % 3] for t in range(L)] if tr in ("MSTDP", "MSTDPET") else None
                    out.append({"kind": "stdp", "trainer": tr, "mode": "cumulative", "hp": hp, "dt": 1.0, "conn": "dense",
                                "n_in": 1, "n_out": 1, "B": 1, "kmax": None, "delays": None, "delayed": False,
                                "reduction": None, "pre": [[[bits[2 * t]]] for t in range(L)],
                                "post": [[[bits[2 * t + 1]]] for t in range(L)], "signal": sig, "scale": 1.0, "w0": 0.5,
                                "bound": None})
    return out


def run(ctx):
    rng = random.Random(ctx["seed"])
    quick = ctx["tier"] == "quick"
    c18.STATS.clear()
    REPAIRED[0] = 0
    n_h, n_s, n_c = (70, 50, 24) if quick else (1200, 1200, 400)
    n_hg, n_sg, n_bg, n_hb, n_kg = (36, 36, 42, 16, 60) if quick else (500, 500, 396, 240, 900)
    cases = expand_groups(load_corpus()) + [copy.deepcopy(WITNESS)]
    cases += [gen_homeo(rng) for _ in range(n_h)]
    gid = 0
    for k in range(n_hg):       # one LinearHomeostasis object, several cells with overrides, all target combinations
        gid += 1
        cases += gen_homeo_group(rng, gid, expect_error=(k % 12 == 11))
    for k in range(n_hb):       # one LinearHomeostasis object on one Biclique layer
        gid += 1
        cases += gen_homeo_biclique(rng, gid, k)
    # every trainer x sign mode at least twice
    cases += [gen_stdp(rng, tr, sg) for tr in TRAINERS for sg in SIGNS for _ in range(1 if quick else 6)]
    cases += [gen_stdp(rng) for _ in range(n_s)]
    for k in range(n_sg):       # one trainer object, several cells with overrides: every trainer x default sign mode in turn
        gid += 1
        cases += gen_stdp_group(rng, gid, TRAINERS[k % 6], SIGNS[(k // 6) % 4])
    for k in range(n_bg):       # one trainer on one Biclique layer: cells sharing a neuron group / a connection
        gid += 1
        cases += gen_stdp_biclique(rng, gid, TRAINERS[k % 6], SIGNS[(k // 6) % 4], k // 6)
    for k in range(n_kg):       # kernel trainers with custom half kernels: class x kernel style x reduction x sign mode in turn
        gid += 1
        cases += gen_kernel_group(rng, gid, KCLS[k % 3], KSTYLES[(k // 3) % 5], SIGNS[(k // 15 + k) % 4],
                                  ["sum", "amax", "mean", "amin"][(k // 3 + k // 15) % 4])
    cases += exhaustive_stdp(2 if quick else 3)
    cases += [gen_cell(rng, cls, sg) for cls in c18.TWO + c18.KER + c18.THREE for sg in SIGNS for _ in range(2 if quick else 12)]
    cases += [c18.gen_case(rng) for _ in range(n_c)]
    ok_exec, mk_out = ensure_exec()
    impl, mismatches, fails = evaluate(cases)
    if not ok_exec:
        mismatches.insert(0, {"case": None, "detail": "executable model does not build: " + mk_out[-1500:]})
    # findings of the unchanged tree: reported through oracle_failures once known_findings.json lists them (-> KNOWN-FINDING),
    # printed as FINDING-CANDIDATE before
    nh = sum(1 for c in cases if c['kind'] == 'homeo')
    cands = [f for f in fails if (f.get("signature") or {}).get("kind") == FINDING_KIND]
    kneg = [f for f in fails if (f.get("signature") or {}).get("kind") == KNEG_KIND]
    oracle_failures = [f for f in fails if (f.get("signature") or {}).get("kind") not in (FINDING_KIND, KNEG_KIND)]
    if kneg and known_listed(KNEG_KIND):
        oracle_failures += kneg[:3]
    elif kneg:
        print(f"FINDING-CANDIDATE: property={ID} the kernel trainers hand -batch_reduction(negative sums) as the depressing part: "
              f"with a non-odd reduction (torch.amax / torch.amin) that is the SMALLEST (largest) depression magnitude of the "
              f"batch where the potentiating part takes the largest (smallest) ({len(kneg)} cells; signature kind={KNEG_KIND}; "
              f"NOT yet listed in known_findings.json)")
    if cands and known_listed(FINDING_KIND):
        oracle_failures += cands[:3]
    elif cands:
        print(f"FINDING-CANDIDATE: property={ID} LinearHomeostasis hands a NEGATIVE-valued depressing part (k.clamp_max(0)) to the "
              f"updater, so pos - neg = |k| and the parameter moves away from the target ({len(cands)} of {nh} homeostasis cases; "
              f"signature kind={FINDING_KIND}; NOT yet listed in known_findings.json; witness: LinearDense 1x1, target 0.5, "
              f"plasticity 1, one step with a spike -> weight +1)")
    homeo = [c for c in cases if c["kind"] == "homeo"]
    stdp = [c for c in cases if c["kind"] == "stdp"]
    cells = [c for c in cases if c["kind"] in ("cell", "kcell")]

    def nontrivial(c):
        if c["kind"] == "homeo":
            return len(c["post"]) >= 2
        if c["kind"] == "stdp":
            return len(c["pre"]) >= 2 and any(any(any(r) for r in s) for s in c["pre"]) and any(any(any(r) for r in s) for s in c["post"])
        return len(c["steps"]) >= 2
    return {
        "evaluations": len(cases),
        "distinct_nontrivial": len({json.dumps(strip(c), sort_keys=True) for c in cases if nontrivial(c)}),
        "rule": ("seeded random runs on real Serial cells with a scripted postsynaptic neuron: LinearHomeostasis (weight/bias/"
                 "delay; dense/direct/lateral/conv; batch 1-3; 1-8 steps; scalar and per-unit targets given at construction, "
                 "registration or call; rates above and below target; mean/sum/amax), the six STDP-family trainers x four sign "
                 "modes x two trace modes (dense/direct up to 2x2, batch 1-3, 1-7 steps, delays 0-2 steps in both trainer modes, "
                 "scalar and per-sample rewards of both signs and zero) with default / upper-lower (multiplicative, sharp, scaled) "
                 "/ full bounds installed on the accumulator, exhaustive 1x1 histories of length <= %d for every trainer x sign "
                 "mode (quick: the four unstable trainers), and the seven delay-adjusted / kernel trainers x four sign modes "
                 "through the C18 generator; plus GROUPS: one LinearHomeostasis / STDP-family trainer object driving 2-3 cells "
                 "registered with per-cell keyword overrides of every hyperparameter register_cell accepts (learning rates of the "
                 "opposite sign mode, time constants, trace mode, batch reduction, delayed; plasticity, target, param), one cell "
                 "without overrides, all combinations of constructor / per-cell / forward(target) targets incl. None and the "
                 "RuntimeError when no target exists; STDP-family trainers additionally on Biclique layers (2 connections x 2 neuron "
                 "groups, all four cells registered: cells sharing a neuron group or a connection - and its accumulator - that "
                 "differ in exactly one hyperparameter, rotating over all of them, so that every other monitor of the pair is "
                 "poolable), and LinearHomeostasis on the same Biclique layout (cells sharing a neuron group pool the "
                 "spike_rate monitor; cells sharing a connection and a parameter share the accumulator); the oracle uses each "
                 "cell's effective hyperparameters; KernelSTDP / DelayAdjustedKernelSTDP / DelayAdjustedKernelSTDPD with CUSTOM half "
                 "kernels (callables c + a(+/-) exp(-|t|/tc): mixed sign on overlapping supports, non-zero on both sides of 0, "
                 "constant, offset, stock-like) x all rate sign combinations x sum / mean / amax / amin, 2-3 cells per trainer "
                 "object with kernel-kwargs / reduction overrides, bounds on the trained weight or delay, judged per part from the "
                 "spike histories; "
                 "non-trivial = >= 2 steps (STDP: "
                 "with a pre and a post spike)" % (2 if quick else 3)),
        "samples": [strip(c) for c in (homeo[1:2] + stdp[:1])],
        "mismatches": mismatches, "oracle_failures": oracle_failures,
        "traces_validated_against_impl": len(cases) - len(mismatches),
        "stream_sizes": {"homeo": len(homeo), "stdp": len(stdp), "cell": len(cells)},
        "homeo_param_distribution": dict(Counter(c["param"] for c in homeo)),
        "homeo_conn_distribution": dict(Counter(c["conn"] for c in homeo)),
        "homeo_cases_showing_the_finding": len(cands),
        "groups_one_trainer_several_cells": len({c["group"] for c in cases if c.get("group") is not None}),
        "cells_registered_with_overrides": sum(1 for c in cases if c.get("override_keys")),
        "override_key_distribution": dict(Counter(k for c in cases for k in c.get("override_keys", []))),
        "stdp_cells_whose_sign_mode_differs_from_the_trainer_defaults": sum(
            1 for c in cases if c["kind"] == "stdp" and c.get("group") is not None and
            ((c["hp"]["lr_post"] >= 0) != (c["defaults"]["hp"]["lr_post"] >= 0) or (c["hp"]["lr_pre"] >= 0) != (c["defaults"]["hp"]["lr_pre"] >= 0))),
        "homeo_target_combinations": dict(Counter(
            "ctor=%s/cell=%s/forward=%s" % ("set" if c["defaults"].get("target_ctor") is not None else "None",
                                            ("absent" if "target" not in c["override_keys"] else ("None" if c.get("target_reg") is None else "set")),
                                            "mixed" if len({f is None for f in c["fwd_targets"]}) == 2 else ("None" if c["fwd_targets"][0] is None else "set"))
            for c in cases if c["kind"] == "homeo" and c.get("group") is not None)),
        "biclique_groups_cells_sharing_neuron_or_connection": len({c["group"] for c in cases if c.get("bic") is not None}),
        "biclique_differing_key_sharing_neuron": dict(Counter(c["differs"]["sharing_neuron"] for c in cases if c.get("bic") == [0, 0])),
        "biclique_differing_key_sharing_connection": dict(Counter(c["differs"]["sharing_connection"] for c in cases if c.get("bic") == [0, 0])),
        "kernel_cells_custom_half_kernels": sum(1 for c in cases if c["kind"] == "kcell"),
        "kernel_class_x_reduction": dict(Counter(c["trainer"]["cls"] + "/" + c["trainer"]["red"] for c in cases if c["kind"] == "kcell")),
        "kernel_cells_showing_negated_reduction": len(kneg),
        "expected_error_groups": sum(1 for c in cases if c.get("expect_error")),
        "homeo_cases_where_impl_satisfies_the_oracle_but_not_the_defect_model": REPAIRED[0],
        "finding_listed": known_listed(),
        "stdp_trainer_distribution": dict(Counter(c["trainer"] for c in stdp)),
        "stdp_sign_modes": dict(Counter(("+" if c["hp"]["lr_post"] >= 0 else "-") + ("+" if c["hp"]["lr_pre"] >= 0 else "-") for c in stdp)),
        "stdp_signal_distribution": dict(Counter("none" if c.get("signal") is None else ("per-sample" if isinstance(c["signal"][0], list) else "scalar") for c in stdp)),
        "bound_distribution": dict(Counter((c.get("bound") or {}).get("form", "default") for c in homeo + stdp)),
        "cell_trainer_distribution": dict(Counter(c["trainer"]["cls"] for c in cells)),
    }


def _fails(case):
    cs = expand_groups([copy.deepcopy(case)])
    _, mm, of = evaluate(cs)
    of = [f for f in of if not ((f.get("signature") or {}).get("kind") in (FINDING_KIND, KNEG_KIND)
                                and known_listed((f.get("signature") or {}).get("kind")))]
    if of:
        return of[0]["detail"]
    if mm:
        return mm[0]["detail"]
    return None


def _shorten(case):
    """the same case without its last step (None when it has a single step)"""
    c2 = copy.deepcopy(case)
    cells = c2["cells"] if c2["kind"] == "group" else [c2]
    for x in cells:
        keys = {"homeo": ("post", "fwd_targets"), "stdp": ("pre", "post", "signal"), "cell": ("steps",), "kcell": ("steps",)}[x.get("kind", "cell")]
        if len(x[keys[0]]) <= 1:
            return None
        for kk in keys:
            if x.get(kk) is not None:
                x[kk] = x[kk][:-1]
    return c2


def minimise(case):
    d = _fails(case)
    if d is None:
        return case, None
    best = case
    while True:
        c2 = _shorten(best)
        if c2 is None:
            break
        d2 = _fails(c2)
        if d2 is None:
            break
        best, d = c2, d2
    return strip(best), d


def replay(case):
    d = _fails(case)
    if d is None:
        return True, "replay: the implementation agrees with the model and satisfies the property's oracle on this case"
    return False, "replay: still failing: " + repr(d)[:1500]
