"""C17 - layers wire components as documented; clear() restores the initial state.
Case generator, Coq rendering, correspondence (Coq model by vm_compute vs the real layers) and direct oracle."""
from __future__ import annotations
import copy, glob, json, os, random
from collections import Counter
import framework as F

ID = "C17"
GEN = ["NeuronDynamics", "NeuronAdaptation", "Infra", "Interpolation"]   # the last two through C01.Ring / C04.Synapse
LEVEL = "proof"
TECHNIQUE = ("Coq proof over a layer model that is generic in the component step functions (section variables): "
             "forward equalities for Serial / Biclique / RecurrentSerial by computation through the dict plumbing, "
             "refinement of whole runs to independent dataflow specifications (simulation lifted by induction over "
             "operation sequences), clear/replay theorems for every position of clear from a component-level "
             "'clear = freshly constructed' invariant argument; hypotheses discharged for LinearDense+DeltaCurrent / "
             "LIF / ALIF component models that use the re-translated neuron kernels; model tied to the code by "
             "differential correspondence against real layers")
LEVEL_TEXT = ("Machine-checked proof (Coq; the generic layer theorems and all clear/replay/shape theorems are axiom-free, "
              "the spike-attribute and combine-mode theorems use the stdlib real axioms) that the model of Layer.forward / "
              "Serial / Biclique / RecurrentSerial computes neuron(transform(connection(input))), the combined biclique "
              "drive (sum/mean/prod/min/max element by element, or any custom function) for any subset of inputs, and the "
              "feed-forward plus previous-step feedback drive (zeros on the first step and after clear) - for every "
              "component behaviour, keyword arguments, input sequence, operation order and run length; that every output "
              "has its neuron group's batched shape; that clear() cannot fail and at any position of any run returns every "
              "connection, synapse history and pointer, neuron state and the feedback buffer to the state of a freshly "
              "constructed layer carrying the same weights/biases/delays/adaptations, hence replay determinism. The component "
              "hypotheses (default clear() = freshly constructed component with the adaptations kept, keep_adaptations=False "
              "zeroes them, clear idempotent, forward keeps the invariants) are proved for ALL EIGHT neuron classes on the C03 "
              "model (LIF GLIF1 ALIF GLIF2 QIF Izhikevich EIF AdEx) and ALL FOUR synapse classes on the C04 model (under an "
              "undelayed LinearDense map), and the layer theorems are instantiated with them (c03_* / c04_c03_* obligations); "
              "the documented recurrence holds for every class with refrac_t > 0 (C03's spike-attribute theorem).")
LEVEL_NOTE = ("Trusted: Coq kernel; translator for the neuron kernels, _unwind_ptr / recordsz and the interpolation kernels; "
              "hand-written models C17/Layers.v, C17/Components.v (LinearDense+DeltaCurrent with integer-step delays, LIF, "
              "ALIF; validated by the C17 correspondence) and the models of C03 (eight neuron classes), C04 (four synapse "
              "classes) and C01 (RecordTensor), which are tied to the code by THEIR OWN correspondence checks - the C17 "
              "correspondence does not re-run them; the adapters C17/NeuronsC03.v / SynapsesC04.v (batch-major <-> "
              "neuron-major transposition, like_synaptic, F.linear, and the fact that Layer.clear() calls Neuron.clear() "
              "without keep_adaptations, whose default is True in every adaptive class) are validated on the implementation by "
              "the oracle-only case stream over all eight classes (adaptations before/after clear, state vs a freshly built "
              "component, replay; coverage guard that every adaptive class is cleared with non-zero adaptations). NOT modelled: "
              "wiring kwargs, Updater accumulators cleared by Connection.clear, broadcasting between different shapes (treated "
              "as an error), non-integer delays (C06), delayed connections over the C04 synapses, Cell objects beyond the "
              "constructor's shape check, the other connection classes. clear_replay (same outputs as the fresh layer, no "
              "learned state involved) is stated for the classes whose forward never learns (LIF GLIF1 QIF EIF); for the "
              "adaptive classes the statement is clear_then_run (fresh layer carrying the adaptations). The documented "
              "recurrence is proved under refrac_t > 0; for refrac_t = 0 it is REFUTED (recurrent_spike_attr_refuted; known "
              "finding C17-recurrent-spike-attr-refrac0).")
HEADER = ("From Coq Require Import List ZArith Bool PrimFloat.\n"
          "From Inferno Require Import Base.Num Base.NumF C17.Layers C17.Components C17.LayersExec.\n"
          "Import ListNotations.\n")
IMPL = os.path.join(F.VERIF, "tools", "impl", "c17_impl.py")

# signature of the one known finding candidate (see LEVEL_NOTE): only reported through oracle_failures when
# known_findings.json lists it; otherwise recorded in the evidence under finding_candidates.
CANDIDATE = {"layer": "recurrent", "refrac_t_zero": True}


# ------------------------------------------------------------------ generation
def nel(sh):
    n = 1
    for s in sh:
        n *= s
    return n


def rfl(rng, a, b):
    return rng.uniform(a, b)


def gen_tensor(rng, sh, binary=True):
    n = nel(sh)
    if binary or rng.random() < 0.8:
        el = [float(rng.random() < 0.55) for _ in range(n)]
    else:
        el = [rng.choice([0.0, 1.0, 2.5, -1.0, 0.0]) for _ in range(n)]
    return {"sh": list(sh), "el": el}


def gen_conn(rng, name, ish, osh, dt, allow_delay=True):
    i, o = nel(ish), nel(osh)
    c = {"name": name, "in": list(ish), "out": list(osh), "charge": rng.choice([10.0, rfl(rng, 5, 30), -rfl(rng, 5, 15)]),
         "W": [[rfl(rng, -0.6, 1.6) for _ in range(i)] for _ in range(o)],
         "bias": ([rfl(rng, -3, 6) for _ in range(o)] if rng.random() < 0.4 else None), "delay": None}
    if allow_delay and rng.random() < 0.4:
        m = rng.choice([0, 1, 2, 3])
        c["delay"] = {"max": m, "D": [[rng.randint(0, m) for _ in range(i)] for _ in range(o)]}
    return c


def gen_neuron(rng, name, sh, dt, refrac0=False, alif=None):
    rest = rfl(rng, -70, -60)
    n = {"name": name, "shape": list(sh), "rest": rest, "reset": rest - rfl(rng, 0.5, 5), "thresh": rest + rfl(rng, 4, 14),
         "refrac_t": (0.0 if refrac0 else rng.choice([dt, 2 * dt, 3 * dt, rfl(rng, 0.3, 3.5)])),
         "tc": rfl(rng, 1.5, 20), "res": rfl(rng, 0.5, 1.5), "acfg": None}
    if alif if alif is not None else rng.random() < 0.3:
        k = rng.choice([1, 2])
        n["acfg"] = [[rfl(rng, 5, 40), rfl(rng, 0.2, 3)] for _ in range(k)]
    return n


def gen_tr(rng):
    r = rng.random()
    if r < 0.4:
        return None
    return rng.choice([["id"], ["scale", rfl(rng, 0.3, 2.5)], ["add", rfl(rng, -4, 8)], ["neg"]])


def gen_nkw(rng, alif):
    if rng.random() < 0.6:
        return None
    return {"lock": rng.random() < 0.6, "adapt": (rng.choice([None, True, False]) if alif else None)}


SHAPES = [[2], [3], [2, 2], [1], [4]]


def common_ops(rng, case, names_c, names_n, mk_fwd, mk_clear, nops):
    ops = []
    for _ in range(nops):
        r = rng.random()
        if r < 0.66:
            ops.append(mk_fwd())
        elif r < 0.84:
            ops.append(mk_clear())
        elif r < 0.92:
            s = rng.choice(case["conns"])
            i, o = nel(s["in"]), nel(s["out"])
            ops.append(["learnc", s["name"], [[rfl(rng, -0.6, 1.6) for _ in range(i)] for _ in range(o)],
                        ([rfl(rng, -3, 6) for _ in range(o)] if s["bias"] is not None else None)])
        else:
            al = [s for s in case["neurs"] if s["acfg"] is not None]
            if not al:
                ops.append(mk_fwd())
            else:
                s = rng.choice(al)
                if rng.random() < 0.5:
                    ops.append(["train", s["name"], rng.random() < 0.5])
                else:
                    ops.append(["adapt", s["name"], [[rfl(rng, 0, 3) for _ in s["acfg"]] for _ in range(nel(s["shape"]))]])
    return ops


def gen_serial(rng, malformed):
    B, dt = rng.choice([1, 1, 2, 3]), rng.choice([1.0, 0.5])
    ish, osh = rng.choice(SHAPES), rng.choice(SHAPES)
    nsh = osh
    bad = None
    if malformed:
        bad = rng.choice(["insize", "nshape", "noinput", "batch"])
        if bad == "nshape":
            osh, nsh = [3], [2]
    same = rng.random() < 0.3
    case = {"kind": "serial", "B": B, "dt": dt, "names_default": same,
            "conns": [gen_conn(rng, 0 if same else rng.randint(1, 5), ish, osh, dt)],
            "neurs": [gen_neuron(rng, 0 if same else rng.randint(1, 5), nsh, dt, refrac0=rng.random() < 0.1)],
            "tr": gen_tr(rng)}
    alif = case["neurs"][0]["acfg"] is not None

    def fwd():
        xs = [gen_tensor(rng, [B] + ish, binary=rng.random() < 0.7)]
        if rng.random() < 0.15:
            xs.append(gen_tensor(rng, [B] + ish))
        return ["fwd", xs, gen_nkw(rng, alif), rng.random() < 0.5]

    def clear():
        return ["clear", rng.random() < 0.85, rng.choice([None, None, True, False])]
    case["ops"] = common_ops(rng, case, None, None, fwd, clear, rng.randint(3, 14))
    if bad == "insize":
        case["ops"].insert(rng.randint(0, len(case["ops"])), ["fwd", [gen_tensor(rng, [B, nel(ish) + 1])], None, False])
    elif bad == "noinput":
        case["ops"].insert(rng.randint(0, len(case["ops"])), ["fwd", [], None, False])
    elif bad == "batch":
        case["ops"].insert(rng.randint(0, len(case["ops"])), ["fwd", [gen_tensor(rng, [B + 1] + ish)], None, True])
    return case


def gen_biclique(rng, malformed):
    B, dt = rng.choice([1, 1, 2, 3]), rng.choice([1.0, 0.5])
    nsh = rng.choice(SHAPES)
    nc, nn = rng.choice([1, 2, 2, 3]), rng.choice([1, 1, 2, 3])
    bad = rng.choice(["dupname", "emptyc", "emptyn", "badkey", "noinputs", "outmismatch", "dupn"]) if malformed else None
    names = rng.sample(range(1, 9), nc)
    nnames = rng.sample(range(1, 9), nn)
    conns = []
    for j, k in enumerate(names):
        c = gen_conn(rng, k, rng.choice(SHAPES), ([3] if (bad == "outmismatch" and j == 0 and nsh != [3]) else nsh), dt)
        c["tr"] = gen_tr(rng)
        conns.append(c)
    if bad == "outmismatch" and nc < 2:
        bad = "badkey"
    neurs = []
    for k in nnames:
        n = gen_neuron(rng, k, nsh, dt, refrac0=rng.random() < 0.1)
        n["tr"] = gen_tr(rng)
        neurs.append(n)
    if bad == "dupname":
        c = copy.deepcopy(conns[0]); conns.append(c)
    if bad == "dupn":
        n = copy.deepcopy(neurs[0]); neurs.append(n)
    if bad == "emptyc":
        conns = []
    if bad == "emptyn":
        neurs = []
    case = {"kind": "biclique", "B": B, "dt": dt, "conns": conns, "neurs": neurs,
            "combine": rng.choice(["sum", "mean", "prod", "min", "max", "custom", "sum", "mean"])}

    def fwd():
        if not conns:
            return ["fwd", [], [], False]
        sub = [c for c in conns if rng.random() < 0.8] or [rng.choice(conns)]
        rng.shuffle(sub)
        seen, ins = set(), []
        for c in sub:
            if c["name"] in seen:
                continue
            seen.add(c["name"])
            ins.append([c["name"], [gen_tensor(rng, [B] + c["in"], binary=rng.random() < 0.7)]])
        nkw = [[n["name"], gen_nkw(rng, n["acfg"] is not None)] for n in neurs if rng.random() < 0.5]
        nkw = [p for p in nkw if p[1] is not None]
        return ["fwd", ins, nkw, rng.random() < 0.5]

    def clear():
        return ["clear", rng.random() < 0.85, rng.choice([None, None, True, False])]
    if conns and neurs:
        case["ops"] = common_ops(rng, case, None, None, fwd, clear, rng.randint(3, 12))
    else:
        case["ops"] = []
    if bad == "badkey" and conns:
        free = [k for k in range(1, 12) if k not in names][0]
        case["ops"].insert(rng.randint(0, len(case["ops"])),
                           ["fwd", [[free, [gen_tensor(rng, [B] + conns[0]["in"])]]], [], False])
    if bad == "noinputs":
        case["ops"].insert(rng.randint(0, len(case["ops"])), ["fwd", [], [], False])
    return case


def gen_recurrent(rng, malformed, refrac0=False):
    B, dt = rng.choice([1, 1, 2, 3]), rng.choice([1.0, 0.5])
    ish, fsh, bsh = rng.choice(SHAPES), rng.choice(SHAPES), rng.choice(SHAPES)
    if rng.random() < 0.85:
        # feed-forward and feedback groups of DIFFERENT sizes (so that mixing them up cannot go unnoticed)
        while nel(bsh) == nel(fsh):
            bsh = rng.choice(SHAPES)
    bad = rng.choice(["dupc", "dupn", "fbmismatch", "insize"]) if malformed else None
    cn = rng.sample(range(1, 9), 3)
    nn = rng.sample(range(1, 9), 2)
    if bad == "dupc":
        cn[rng.choice([1, 2])] = cn[0]
    if bad == "dupn":
        nn[1] = nn[0]
    fb_out = fsh
    if bad == "fbmismatch":
        fsh, fb_out = [2], [3]
    itr = [rng.choice([None, None, "wrap", "not", "dup"]), rng.choice([None, None, "wrap", "not", "dup"])]
    case = {"kind": "recurrent", "B": B, "dt": dt,
            "conns": [gen_conn(rng, cn[0], ish, fsh, dt), gen_conn(rng, cn[1], fsh, bsh, dt), gen_conn(rng, cn[2], bsh, fb_out, dt)],
            "neurs": [gen_neuron(rng, nn[0], fsh, dt, refrac0=refrac0), gen_neuron(rng, nn[1], bsh, dt, refrac0=refrac0)],
            "tr": [gen_tr(rng), gen_tr(rng), gen_tr(rng)], "itr": itr, "trainable": rng.random() < 0.3}
    a0, a1 = (case["neurs"][0]["acfg"] is not None), (case["neurs"][1]["acfg"] is not None)

    def fwd():
        la = [gen_tensor(rng, [B] + fsh)] if rng.random() < 0.15 else []
        fa = [gen_tensor(rng, [B] + bsh)] if rng.random() < 0.15 else []
        return ["fwd", [gen_tensor(rng, [B] + ish, binary=rng.random() < 0.7)], la, fa, gen_nkw(rng, a0), gen_nkw(rng, a1),
                rng.random() < 0.5]

    def clear():
        return ["clear", rng.random() < 0.8, rng.random() < 0.85, rng.choice([None, None, True, False])]
    case["ops"] = common_ops(rng, case, None, None, fwd, clear, rng.randint(3, 12))
    if not any(o[0] == "fwd" for o in case["ops"][:2]):
        case["ops"].insert(0, fwd())                       # the first step of a new layer (no feedback spikes yet)
    if rng.random() < 0.7:
        # the first step after clear(): feedback buffer None again
        j = rng.randint(1, len(case["ops"]))
        case["ops"][j:j] = [["clear", True, rng.random() < 0.8, None], fwd(), fwd()]
    if bad == "insize":
        case["ops"].insert(rng.randint(0, len(case["ops"])),
                           ["fwd", [gen_tensor(rng, [B, nel(ish) + 1])], [], [], None, None, False])
    return case


def gen_replay(rng):
    """prefix (any operations) ; clear ; S   followed by nothing else, where S also opens the case:
    S ; prefix' ; clear ; S.  Learning off (LIF neurons, no learn operations): the two S blocks must give
    identical outputs."""
    kind = rng.choice(["serial", "biclique", "recurrent"])
    for _ in range(50):
        case = {"serial": gen_serial, "biclique": gen_biclique, "recurrent": gen_recurrent}[kind](rng, False)
        if all(n["acfg"] is None for n in case["neurs"]) and all(n["refrac_t"] > 0 for n in case["neurs"]):
            break
    else:
        for n in case["neurs"]:
            n["acfg"] = None
            n["refrac_t"] = case["dt"]
    fw = [o for o in case["ops"] if o[0] == "fwd"]
    k = min(len(fw), rng.randint(2, 5))
    S = copy.deepcopy(fw[:k])
    mid = [o for o in case["ops"] if o[0] in ("fwd", "clear")]
    clear = ["clear", True, True, None] if kind == "recurrent" else ["clear", True, None]
    case["ops"] = copy.deepcopy(S) + mid + [clear] + copy.deepcopy(S)
    case["replay"] = k
    return case


# ---- oracle-only stream: layers over EVERY neuron class of inferno.neural (no Coq model of these classes in C17)
ADAPTIVE = ["ALIF", "GLIF2", "Izhikevich", "AdEx"]
PLAIN = ["LIF", "GLIF1", "QIF", "EIF"]


def gen_neuron_any(rng, name, sh, dt, cls):
    rest = rfl(rng, -66, -58)
    k = rng.choice([1, 2])
    refrac = rng.choice([dt, 2 * dt, rfl(rng, 0.5, 3.0)])
    base = {"rest_v": rest, "refrac_t": refrac, "resistance": rfl(rng, 0.7, 1.3)}
    if cls in ("LIF", "GLIF1"):
        kw = dict(base, reset_v=rest - rfl(rng, 1, 5), thresh_v=rest + rfl(rng, 6, 12), time_constant=rfl(rng, 3, 20))
    elif cls == "ALIF":
        kw = dict(base, reset_v=rest - rfl(rng, 1, 5), thresh_eq_v=rest + rfl(rng, 6, 12), tc_membrane=rfl(rng, 3, 20),
                  tc_adaptation=[rfl(rng, 10, 60) for _ in range(k)], spike_increment=[rfl(rng, 0.3, 2.5) for _ in range(k)])
    elif cls == "GLIF2":
        kw = dict(base, reset_v_add=-rfl(rng, 1, 4), reset_v_mul=rfl(rng, 0.2, 0.7), thresh_eq_v=rest + rfl(rng, 6, 12),
                  tc_membrane=rfl(rng, 3, 20), rc_adaptation=[rfl(rng, 0.01, 0.08) for _ in range(k)],
                  spike_increment=[rfl(rng, 0.3, 2.5) for _ in range(k)])
    elif cls == "QIF":
        kw = dict(base, crit_v=rest + rfl(rng, 8, 12), affinity=rfl(rng, 0.02, 0.05), reset_v=rest - rfl(rng, 1, 5),
                  thresh_v=rest + rfl(rng, 25, 35), time_constant=rfl(rng, 4, 20))
    elif cls == "Izhikevich":
        kw = dict(base, crit_v=rest + rfl(rng, 8, 12), affinity=rfl(rng, 0.02, 0.05), reset_v=rest - rfl(rng, 1, 5),
                  thresh_v=rest + rfl(rng, 25, 35), tc_membrane=rfl(rng, 1, 6), tc_adaptation=[rfl(rng, 20, 100) for _ in range(k)],
                  voltage_coupling=[rfl(rng, 0.05, 0.3) for _ in range(k)], spike_increment=[rfl(rng, 0.5, 3) for _ in range(k)])
    elif cls == "EIF":
        kw = dict(base, rheobase_v=rest + rfl(rng, 8, 12), sharpness=rfl(rng, 1.5, 3), reset_v=rest - rfl(rng, 1, 5),
                  thresh_v=rest + rfl(rng, 25, 35), time_constant=rfl(rng, 4, 20))
    elif cls == "AdEx":
        kw = dict(base, rheobase_v=rest + rfl(rng, 8, 12), sharpness=rfl(rng, 1.5, 3), reset_v=rest - rfl(rng, 1, 5),
                  thresh_v=rest + rfl(rng, 25, 35), tc_membrane=rfl(rng, 4, 20), tc_adaptation=[rfl(rng, 20, 100) for _ in range(k)],
                  voltage_coupling=[rfl(rng, 0.05, 0.3) for _ in range(k)], spike_increment=[rfl(rng, 0.5, 3) for _ in range(k)])
    else:
        raise AssertionError(cls)
    return {"name": name, "shape": list(sh), "cls": cls, "kw": kw, "refrac_t": refrac, "acfg": None, "nadapt": k,
            "adaptive": cls in ADAPTIVE}


SYNAPSES = ["DeltaCurrent", "DeltaPlusCurrent", "SingleExponentialCurrent", "DoubleExponentialCurrent"]


def gen_synapse(rng, cls):
    q = rfl(rng, 20, 45)
    kw = {"spike_charge": q}
    if cls in ("DeltaCurrent", "DeltaPlusCurrent"):
        kw["interp_mode"] = rng.choice(["previous", "nearest"])
    if cls == "SingleExponentialCurrent":
        kw["time_constant"] = rfl(rng, 1.5, 6)
    if cls == "DoubleExponentialCurrent":
        kw["tc_decay"] = rfl(rng, 4, 9)
        kw["tc_rise"] = rfl(rng, 1, 3)
    return {"cls": cls, "kw": kw}


def f32_case(x):
    import struct
    if isinstance(x, float):
        return struct.unpack("f", struct.pack("f", x))[0]
    if isinstance(x, list):
        return [f32_case(v) for v in x]
    if isinstance(x, dict):
        return {k: f32_case(v) for k, v in x.items()}
    return x


def gen_anyclass(rng, kind, classes, syn=None, dtype=None):
    """a layer of the given kind over the given neuron classes, run in TRAINING mode long enough for the adaptations to
    move away from their initial zeros, then clear() with DEFAULT arguments in mid-run, then the same inputs again (the
    reference rebuilds fresh components carrying the adaptations), then the other clear variants"""
    B, dt = rng.choice([1, 2, 3]), rng.choice([1.0, 0.5])
    ish = rng.choice(SHAPES)

    def strong(c):
        c["charge"] = rfl(rng, 25, 50)
        c["W"] = [[rfl(rng, 0.5, 1.5) for _ in r] for r in c["W"]]
        c["bias"] = None
        if syn:
            # any synapse class, a delayed connection (maximum delay 3 steps) with learned NON-ZERO delays
            c["syn"] = gen_synapse(rng, syn)
            c["delay"] = {"max": 3, "D": [[rng.randint(1, 3) for _ in r] for r in c["W"]]}
        return c
    if kind == "serial":
        nsh = rng.choice(SHAPES)
        case = {"kind": "serial", "B": B, "dt": dt, "names_default": False, "tr": None,
                "conns": [strong(gen_conn(rng, 1, ish, nsh, dt))], "neurs": [gen_neuron_any(rng, 2, nsh, dt, classes[0])]}

        def fwd():
            return ["fwd", [gen_tensor(rng, [B] + ish)], (None if rng.random() < 0.7 else {"lock": rng.random() < 0.7, "adapt": True}),
                    rng.random() < 0.3]
        clear = lambda sub, keep: ["clear", sub, keep]
    elif kind == "biclique":
        nsh = rng.choice(SHAPES)
        conns = [dict(strong(gen_conn(rng, k, ish, nsh, dt)), tr=None) for k in (1, 2)]
        neurs = [dict(gen_neuron_any(rng, 3 + j, nsh, dt, c), tr=None) for j, c in enumerate(classes)]
        case = {"kind": "biclique", "B": B, "dt": dt, "conns": conns, "neurs": neurs, "combine": rng.choice(["sum", "mean", "max"])}

        def fwd():
            return ["fwd", [[c["name"], [gen_tensor(rng, [B] + ish)]] for c in conns], [], rng.random() < 0.3]
        clear = lambda sub, keep: ["clear", sub, keep]
    elif kind == "parallel":
        # hand-written Layer subclass with identity wiring (wiring returns the dict it was given)
        lanes = []
        for j, c in enumerate(classes):
            nsh = rng.choice(SHAPES)
            lanes.append((dict(strong(gen_conn(rng, 1 + j, ish, nsh, dt)), tr=None), dict(gen_neuron_any(rng, 1 + j, nsh, dt, c), tr=None)))
        conns, neurs = [l[0] for l in lanes], [l[1] for l in lanes]
        case = {"kind": "parallel", "B": B, "dt": dt, "conns": conns, "neurs": neurs}

        def fwd():
            return ["fwd", [[c["name"], [gen_tensor(rng, [B] + ish)]] for c in conns], [], rng.random() < 0.6]
        clear = lambda sub, keep: ["clear", sub, keep]
    else:
        fsh, bsh = rng.choice(SHAPES), rng.choice(SHAPES)
        while nel(bsh) == nel(fsh):
            bsh = rng.choice(SHAPES)
        case = {"kind": "recurrent", "B": B, "dt": dt, "trainable": False, "tr": [None, None, None], "itr": [None, None],
                "conns": [strong(gen_conn(rng, 1, ish, fsh, dt)), strong(gen_conn(rng, 2, fsh, bsh, dt)),
                          strong(gen_conn(rng, 3, bsh, fsh, dt))],
                "neurs": [gen_neuron_any(rng, 4, fsh, dt, classes[0]), gen_neuron_any(rng, 5, bsh, dt, classes[-1])]}

        def fwd():
            return ["fwd", [gen_tensor(rng, [B] + ish)], [], [], None, None, rng.random() < 0.3]
        clear = lambda sub, keep: ["clear", True, sub, keep]
    block = [fwd() for _ in range(rng.randint(10, 16))]
    for o in block:       # dense input so that the groups really fire
        xs = o[1] if kind not in ("biclique", "parallel") else [t for _, ts in o[1] for t in ts]
        for t in xs:
            t["el"] = [float(rng.random() < 0.8) for _ in t["el"]]
    ops = copy.deepcopy(block) + [clear(True, None)] + copy.deepcopy(block[:6])
    ad = [n for n in case["neurs"] if n.get("adaptive")]
    if ad and rng.random() < 0.5:
        n = rng.choice(ad)
        ops += [["adapt", n["name"], [[rfl(rng, 0.2, 3) for _ in range(n["nadapt"])] for _ in range(nel(n["shape"]))]],
                clear(True, None), fwd()]
    ops += [clear(True, True), fwd(), clear(False, None), fwd(), clear(True, False), fwd(), fwd(), clear(True, None), fwd()]
    case["ops"] = ops
    case["model"] = False
    if dtype:
        # every constant exactly representable in float32, so that building under one default dtype and casting to the
        # other loses nothing (a freshly built-and-cast layer and a cleared layer then agree bit for bit)
        case = f32_case(case)
        case["dtype"] = dtype
    return case


def gen_anyclass_cases(rng, reps):
    out = []
    for _ in range(reps):
        for cls in ADAPTIVE + PLAIN:
            out.append(gen_anyclass(rng, "serial", [cls]))
        for cls in ADAPTIVE:
            other = rng.choice(ADAPTIVE + PLAIN)
            out.append(gen_anyclass(rng, "biclique", [cls, other]))
            out.append(gen_anyclass(rng, "recurrent", rng.sample([cls, other], 2)))
        # every synapse class on DELAYED connections with learned non-zero delays (clear must wipe the whole history)
        for sc in SYNAPSES:
            out.append(gen_anyclass(rng, "serial", [rng.choice(PLAIN + ADAPTIVE)], syn=sc))
            out.append(gen_anyclass(rng, rng.choice(["biclique", "recurrent"]), [rng.choice(PLAIN), rng.choice(PLAIN + ADAPTIVE)], syn=sc))
        # a hand-written Layer subclass whose wiring is the identity, with and without capture_intermediate
        for _ in range(3):
            out.append(gen_anyclass(rng, "parallel", [rng.choice(PLAIN + ADAPTIVE) for _ in range(rng.choice([1, 2, 3]))]))
        # torch default dtype float32 with the layer cast to float64, and the reverse: clear() must keep dtype and device
        for dd in ({"default": "float32", "cast": "float64"}, {"default": "float64", "cast": "float32"}):
            for cls in PLAIN + ADAPTIVE:
                out.append(gen_anyclass(rng, rng.choice(["serial", "biclique", "recurrent", "parallel"]),
                                        [cls, rng.choice(PLAIN + ADAPTIVE)], dtype=dd,
                                        syn=(rng.choice(SYNAPSES) if rng.random() < 0.4 else None)))
    return out


def gen_cases(rng, n):
    out = []
    for i in range(n):
        mal = (i % 6 == 5)
        r = i % 10
        if r in (0, 1, 2):
            out.append(gen_serial(rng, mal))
        elif r in (3, 4, 5):
            out.append(gen_biclique(rng, mal))
        elif r in (6, 7):
            out.append(gen_recurrent(rng, mal))
        elif r == 8:
            out.append(gen_replay(rng))
        else:
            out.append(gen_recurrent(rng, False, refrac0=(i % 20 == 9)))
    return out


def exhaustive_cases(depth=4):
    """thorough tier: one small fixed layer of every kind, EVERY operation sequence up to `depth` over an alphabet of
    forwards (spiking / silent input) and clears (every flag combination that differs), each followed by a probe forward"""
    import itertools
    out = []
    dt, B = 1.0, 1

    def conn(name, i, o, w, delay=None):
        return {"name": name, "in": [i], "out": [o], "charge": 12.0, "W": [[w + 0.1 * (a + b) for b in range(i)] for a in range(o)],
                "bias": None, "delay": delay}

    def neur(name, n):
        return {"name": name, "shape": [n], "rest": -60.3, "reset": -65.1, "thresh": -54.7, "refrac_t": 2.0, "tc": 2.3,
                "res": 1.1, "acfg": None}
    hot = {"sh": [1, 2], "el": [1.0, 1.0]}
    cold = {"sh": [1, 2], "el": [0.0, 1.0]}
    kinds = {
        "serial": ({"kind": "serial", "B": B, "dt": dt, "names_default": True,
                    "conns": [conn(0, 2, 2, 0.9, {"max": 1, "D": [[0, 1], [1, 0]]})], "neurs": [neur(0, 2)], "tr": None},
                   [["fwd", [hot], None, False], ["fwd", [cold], None, True], ["clear", True, None], ["clear", False, None]]),
        "biclique": ({"kind": "biclique", "B": B, "dt": dt, "combine": "sum",
                      "conns": [dict(conn(1, 2, 2, 0.9), tr=None), dict(conn(2, 2, 2, 0.4), tr=["scale", 1.5])],
                      "neurs": [dict(neur(1, 2), tr=None), dict(neur(2, 2), tr=["neg"])]},
                     [["fwd", [[1, [hot]], [2, [hot]]], [], False], ["fwd", [[2, [cold]]], [], True],
                      ["clear", True, None], ["clear", False, None]]),
        "recurrent": ({"kind": "recurrent", "B": B, "dt": dt, "trainable": False, "tr": [None, None, None],
                       "itr": [None, None], "conns": [conn(1, 2, 2, 0.9), conn(2, 2, 3, 0.8), conn(3, 3, 2, 0.7)],
                       "neurs": [neur(1, 2), neur(2, 3)]},
                      [["fwd", [hot], [], [], None, None, True], ["fwd", [cold], [], [], None, None, False],
                       ["clear", True, True, None], ["clear", False, True, None], ["clear", True, False, None]]),
    }
    for kind, (base, alpha) in kinds.items():
        for d in range(1, depth + 1):
            for seq in itertools.product(range(len(alpha)), repeat=d):
                c = copy.deepcopy(base)
                c["ops"] = [copy.deepcopy(alpha[i]) for i in seq] + [copy.deepcopy(alpha[0])]
                out.append(c)
    return out


# ------------------------------------------------------------------ rendering to Coq
fl = F.coq_float


def q_nat(n):
    return f"{int(n)}%nat"


def q_shape(sh):
    return F.coq_list([q_nat(s) for s in sh])


def q_fl(l):
    return F.coq_list([fl(x) for x in l])


def q_mat(m):
    return F.coq_list([q_fl(r) for r in m])


def q_tensor(t):
    return f"(T_ {q_shape(t['sh'])} {q_fl(t['el'])})"


def q_conn(c, B, dt):
    d = c["delay"]
    dl = "None" if d is None else \
        f"(Some ({q_nat(d['max'])}, {F.coq_list([F.coq_list([q_nat(k) for k in r]) for r in d['D']])}))"
    b = "None" if c["bias"] is None else f"(Some {q_fl(c['bias'])})"
    return f"(mk_dense {q_shape(c['in'])} {q_shape(c['out'])} {q_nat(B)} {fl(dt)} {fl(c['charge'])} {q_mat(c['W'])} {b} {dl})"


def q_neuron(n, B, dt):
    a = "None" if n["acfg"] is None else "(Some " + F.coq_list([f"({fl(p[0])}, {fl(p[1])})" for p in n["acfg"]]) + ")"
    return (f"(mk_neuron {q_shape(n['shape'])} {q_nat(B)} {fl(dt)} {fl(n['rest'])} {fl(n['reset'])} {fl(n['thresh'])} "
            f"{fl(n['refrac_t'])} {fl(n['tc'])} {fl(n['res'])} {a})")


def q_tr(t):
    if t is None:
        return "None"
    k = t[0]
    return {"id": "(Some (TrId FN))", "neg": "(Some (TrNeg FN))"}.get(k) or \
        (f"(Some (TrScale FN {fl(t[1])}))" if k == "scale" else f"(Some (TrAdd FN {fl(t[1])}))")


def q_itr(t):
    return {None: "None", "wrap": "(Some InWrap)", "not": "(Some InNot)", "dup": "(Some InDup)"}[t]


def q_nkw(k):
    if k is None:
        return "None"
    a = "None" if k.get("adapt") is None else f"(Some {F.coq_bool(k['adapt'])})"
    return f"(Some (mkNkw {F.coq_bool(k['lock'])} {a}))"


def q_nkw_plain(k):
    a = "None" if k.get("adapt") is None else f"(Some {F.coq_bool(k['adapt'])})"
    return f"(mkNkw {F.coq_bool(k['lock'])} {a})"


def q_xk(keep):
    return "None" if keep is None else f"(Some {F.coq_bool(keep)})"


def q_learn(op, named, pre):
    k = op[0]
    nm = f"{F.coq_Z(op[1])} " if named else ""
    if k == "learnc":
        b = "None" if op[3] is None else f"(Some {q_fl(op[3])})"
        return f"{pre}LearnC {nm}(set_W FN {q_mat(op[2])} {b})"
    if k == "train":
        return f"{pre}LearnN {nm}(set_training FN {F.coq_bool(op[2])})"
    if k == "adapt":
        return f"{pre}LearnN {nm}(set_adapt {q_mat(op[2])})"
    raise AssertionError(k)


def q_case(case):
    B, dt, kind = case["B"], case["dt"], case["kind"]
    b = F.coq_bool
    if kind == "serial":
        ops = []
        for o in case["ops"]:
            if o[0] == "fwd":
                ops.append(f"SFwd {F.coq_list([q_tensor(t) for t in o[1]])} None {q_nkw(o[2])} {b(o[3])}")
            elif o[0] == "clear":
                ops.append(f"SClear {b(o[1])} {q_xk(o[2])}")
            else:
                ops.append(q_learn(o, False, "S"))
        c, n = case["conns"][0], case["neurs"][0]
        return (f"run_serial {q_conn(c, B, dt)} {q_neuron(n, B, dt)} {q_tr(case['tr'])} {F.coq_Z(c['name'])} "
                f"{F.coq_Z(n['name'])} {F.coq_list(ops)}")
    if kind == "biclique":
        ops = []
        for o in case["ops"]:
            if o[0] == "fwd":
                ins = F.coq_list([f"({F.coq_Z(k)}, {F.coq_list([q_tensor(t) for t in xs])})" for k, xs in o[1]])
                nkw = F.coq_list([f"({F.coq_Z(k)}, {q_nkw_plain(v)})" for k, v in o[2]])
                ops.append(f"BFwd {ins} [] {nkw} {b(o[3])}")
            elif o[0] == "clear":
                ops.append(f"BClear {b(o[1])} {q_xk(o[2])}")
            else:
                ops.append(q_learn(o, True, "B"))
        cs = F.coq_list([f"({F.coq_Z(c['name'])}, {q_conn(c, B, dt)}, {q_tr(c.get('tr'))})" for c in case["conns"]])
        ns = F.coq_list([f"({F.coq_Z(n['name'])}, {q_neuron(n, B, dt)}, {q_tr(n.get('tr'))})" for n in case["neurs"]])
        m = case["combine"]
        cm = "None" if m == "custom" else f"(Some C{m.capitalize()})"
        return f"run_biclique {cs} {ns} {cm} {F.coq_list(ops)}"
    if kind == "recurrent":
        ops = []
        for o in case["ops"]:
            if o[0] == "fwd":
                ops.append(f"RFwd {F.coq_list([q_tensor(t) for t in o[1]])} {F.coq_list([q_tensor(t) for t in o[2]])} "
                           f"{F.coq_list([q_tensor(t) for t in o[3]])} None None None {q_nkw(o[4])} {q_nkw(o[5])} {b(o[6])}")
            elif o[0] == "clear":
                ops.append(f"RClear {b(o[1])} {b(o[2])} {q_xk(o[3])}")
            else:
                ops.append(q_learn(o, True, "R"))
        c, n = case["conns"], case["neurs"]
        return ("run_recurrent " + " ".join(q_conn(x, B, dt) for x in c) + " " + " ".join(q_neuron(x, B, dt) for x in n) +
                " " + " ".join(q_tr(t) for t in case["tr"]) + " " + " ".join(q_itr(t) for t in case["itr"]) + " " +
                " ".join(F.coq_Z(x["name"]) for x in c) + " " + " ".join(F.coq_Z(x["name"]) for x in n) + " " +
                b(case.get("trainable", False)) + " " + F.coq_list(ops))
    raise AssertionError(kind)


# ------------------------------------------------------------------ comparison (schema-directed)
FL, IN = "F", "I"
TENSOR = ("tuple", ("list", IN), ("list", FL))
DENSE = ("tuple", ("list", ("list", FL)), ("opt", ("list", FL)), ("list", ("list", IN)), IN)
NEURON = ("tuple", ("list", FL), ("list", FL), ("list", ("list", FL)), TENSOR)
LAYER = ("tuple", ("list", ("tuple", IN, DENSE)), ("list", ("tuple", IN, NEURON)))
RSNAP = ("tuple", LAYER, ("opt", TENSOR))
DICT = ("list", ("tuple", IN, TENSOR))


def diff(s, a, b, path=""):
    """first difference between two serialised values following schema s, or None"""
    if s == IN:
        return None if (isinstance(a, int) and isinstance(b, int) and a == b) else f"{path}: {a!r} != {b!r}"
    if s == FL:
        try:
            x, y = F.dec_float(a), F.dec_float(b)
        except Exception:
            return f"{path}: not floats {a!r} {b!r}"
        return None if F.close(x, y) else f"{path}: {x!r} != {y!r}"
    if not isinstance(a, list) or not isinstance(b, list):
        return f"{path}: expected lists, got {a!r} / {b!r}"
    if s[0] == "list":
        if len(a) != len(b):
            return f"{path}: lengths {len(a)} != {len(b)}"
        for i, (x, y) in enumerate(zip(a, b)):
            d = diff(s[1], x, y, f"{path}[{i}]")
            if d:
                return d
        return None
    if s[0] == "opt":
        if len(a) != len(b) or len(a) > 1:
            return f"{path}: option {len(a)} vs {len(b)}"
        return diff(s[1], a[0], b[0], path + "?") if a else None
    if s[0] == "tuple":
        if len(a) != len(s) - 1 or len(b) != len(s) - 1:
            return f"{path}: tuple arity {len(a)} / {len(b)} (expected {len(s) - 1})"
        for i, t in enumerate(s[1:]):
            d = diff(t, a[i], b[i], f"{path}.{i}")
            if d:
                return d
        return None
    raise AssertionError(s)


def out_schema(kind, out):
    if kind == "serial":
        return ("list", TENSOR)
    if kind == "biclique":
        return ("list", DICT)
    if len(out) == 3:
        return ("tuple", TENSOR, TENSOR, DICT)
    return ("list", TENSOR)


def compare_traces(case, ti, tm):
    kind = case["kind"]
    snap = RSNAP if kind == "recurrent" else LAYER
    if len(ti) != len(tm):
        return {"what": f"trace lengths impl {len(ti)} model {len(tm)}", "impl_last": ti[-1][:2], "model_last": tm[-1][:2]}
    for i, (a, b) in enumerate(zip(ti, tm)):
        if a[0] != b[0]:
            return {"step": i - 1, "what": f"impl {'raised' if a[0] else 'ok'} / model {'raised' if b[0] else 'ok'}",
                    "impl": a[:2], "model": b[:2]}
        if a[0] == 1:
            if a[1] != b[1]:
                return {"step": i - 1, "what": f"exception code impl {a[1:]} model {b[1]}"}
            continue
        d = diff(out_schema(kind, a[1]), a[1], b[1], "out") if (len(a[1]) == len(b[1])) else f"out arity {len(a[1])}/{len(b[1])}"
        d = d or diff(snap, a[2], b[2], "state")
        if d:
            return {"step": i - 1, "op": (case["ops"][i - 1][0] if i > 0 else "construct"), "what": d}
    return None


# ------------------------------------------------------------------ direct oracle (harness part)
def replay_oracle(case, ti):
    """clear_replay_deterministic evaluated on the implementation's own outputs: the block of forwards that opens the
    case and the same block replayed after the final clear give identical outputs"""
    k = case.get("replay")
    if not k or any(t[0] == 1 for t in ti):
        return None
    outs = [t[1] for t, o in zip(ti[1:], case["ops"]) if o[0] == "fwd"]
    first, last = outs[:k], outs[-k:]
    for j, (a, b) in enumerate(zip(first, last)):
        # captured intermediates included when both captured
        d = diff(out_schema(case["kind"], a), a, b, f"replayed forward {j}") if len(a) == len(b) else None
        if d:
            return {"what": "replay after clear() differs from the run on the fresh layer: " + d}
    return None


def is_candidate(sig):
    return all(sig.get(k) == v for k, v in CANDIDATE.items())


def candidate_listed():
    for k in F.load_known().get("findings", []):
        if k.get("property") == ID and k.get("match") and all(CANDIDATE.get(a) == b for a, b in k["match"].items()):
            return True
    return False


def judge(case, r):
    """-> (oracle failures, finding candidates) for one implementation result"""
    fails, cands = [], []
    for f in r["oracle"]:
        sig = f.get("signature", {})
        item = {"case": case, "detail": {k: v for k, v in f.items() if k != "signature"}, "signature": sig}
        (cands if is_candidate(sig) else fails).append(item)
    d = replay_oracle(case, r["trace"])
    if d:
        fails.append({"case": case, "detail": d, "signature": {"kind": "replay", "layer": case["kind"]}})
    return fails, cands


def load_corpus():
    out = []
    for p in sorted(glob.glob(os.path.join(F.VERIF, "corpus", ID, "*.json"))):
        out.append(json.load(open(p)))
    return out


def nontrivial(case, ti):
    nf = sum(1 for o in case["ops"] if o[0] == "fwd")
    return nf >= 2 and len(ti) >= 3


def run(ctx):
    rng = random.Random(ctx["seed"])
    n = 300 if ctx["tier"] == "quick" else 3000
    cases = load_corpus() + gen_cases(rng, n)
    exhaustive = ctx["tier"] == "thorough"
    if exhaustive:
        cases += exhaustive_cases(4)
    anyc = gen_anyclass_cases(random.Random(ctx["seed"] + 17), 1 if ctx["tier"] == "quick" else 8)
    impl = F.run_impl(IMPL, {"cases": cases})
    model = F.eval_terms(ID, HEADER, [q_case(c) for c in cases], shard=20 if ctx["tier"] == "quick" else 60)
    # oracle-only stream (all neuron classes; not evaluated in Coq)
    impl_any = F.run_impl(IMPL, {"cases": anyc})
    mismatches, fails, cands = [], [], []
    cover = Counter()
    for c, r in zip(anyc, impl_any):
        f, k = judge(c, r)
        fails += f
        cands += k
        if r["trace"] and r["trace"][-1][0] == 1:
            # these cases are well-formed by construction: an exception is a failure of the check's own generator or of the code
            fails.append({"case": c, "detail": {"what": "oracle-only case raised", "trace_end": r["trace"][-1]},
                          "signature": {"kind": "anyclass_raised", "layer": c["kind"]}})
        for cls, keep, sub, nonzero in r.get("stats", {}).get("adaptive_clears", []):
            cover[f"{cls}:clear({keep}{'' if sub else ',submodules=False'}):{'nonzero' if nonzero else 'zero'}-adaptations"] += 1
    for cls in ADAPTIVE:
        if not cover.get(f"{cls}:clear(default):nonzero-adaptations"):
            mismatches.append({"case": None, "detail": f"generator coverage: no default clear() of a {cls} group with non-zero "
                               "adaptations was exercised"})
    spikes = 0
    listed = candidate_listed()
    for c, r, tm in zip(cases, impl, model):
        if isinstance(tm, Exception):
            mismatches.append({"case": c, "detail": str(tm)[-1500:]})
        else:
            d = compare_traces(c, r["trace"], tm)
            if d:
                mismatches.append({"case": c, "detail": d})
        f, k = judge(c, r)
        fails += f
        cands += k
        for t in r["trace"]:
            if t[0] == 0 and t[1]:
                o = t[1][0]
                if c["kind"] == "biclique":
                    spikes += sum(int(F.dec_float(x) != 0) for p in o for x in p[1][1])
                else:
                    spikes += sum(int(F.dec_float(x) != 0) for x in o[1])
    if cands and listed:
        fails += cands
    elif cands:
        print(f"FINDING-CANDIDATE: property={ID} RecurrentSerial with refrac_t = 0 feeds the all-True Neuron.spike attribute "
              f"to the lateral/feedback connections ({len(cands)} oracle disagreements in {len({id(k['case']) for k in cands})} "
              f"cases; NOT yet listed in known_findings.json - see the C17 report for the entry)")
    errs = Counter(("err%d" % t[1]) for r in impl for t in r["trace"] if t[0] == 1)
    return {
        "evaluations": len(cases) + len(anyc),
        "oracle_only_cases": len(anyc),
        "adaptive_clear_coverage": dict(cover),
        "distinct_nontrivial": len({json.dumps(c, sort_keys=True) for c, r in zip(cases, impl) if nontrivial(c, r["trace"])}),
        "rule": "seeded random layers (Serial / Biclique with 1-3 connections and 1-3 neuron groups, 6 combine modes, "
                "per-connection and per-group transforms / RecurrentSerial with in/out transforms) over real LinearDense+"
                "DeltaCurrent (bias, integer-step delays) and LIF/ALIF components, batch 1-3, 3-14 operations "
                "(forward with kwargs/capture, clear with every flag combination, parameter assignment, train/eval, "
                "adaptation assignment); every 6th case from a malformed stream (wrong sizes, unknown / repeated names, empty "
                "inputs); recurrent layers mostly with feed-forward and feedback groups of different sizes and with forwards right "
                "after construction and after clear(); every 10th a replay case (S; ...; clear; S); non-trivial = >=2 forwards and no construction error; "
                "distinct by full case text; plus an ORACLE-ONLY stream (not evaluated in Coq): Serial/Biclique/RecurrentSerial over "
                "every neuron class (LIF GLIF1 ALIF GLIF2 QIF Izhikevich EIF AdEx) run 10-16 steps in training mode with dense input, "
                "default clear() mid-run, same inputs again, then clear(keep_adaptations=True/False), clear(submodules=False); also over all "
                "four synapse classes on DELAYED connections with learned non-zero delays (every record compared with a freshly "
                "built synapse's after clear), over a hand-written Layer subclass with identity wiring (capture_intermediate on/off), "
                "and with torch's default dtype float32 / layer cast to float64 and the reverse (dtype and device of every state "
                "tensor kept by clear); the "
                "check fails if no default clear of a group with non-zero adaptations was exercised for some adaptive class"
                + ("; plus, for one fixed small layer of each kind, every operation sequence of depth <= 4 over an alphabet of "
                   "2 forwards and 2-3 clears" if exhaustive else ""),
        "kind_distribution": dict(Counter(c["kind"] for c in cases)),
        "op_distribution": dict(Counter(o[0] for c in cases for o in c["ops"])),
        "error_distribution": dict(errs),
        "output_spikes_total": spikes,
        "finding_candidates": [{"signature": k["signature"], "detail": k["detail"]} for k in cands[:5]],
        "finding_candidates_total": len(cands),
        "samples": cases[:2],
        "mismatches": mismatches, "oracle_failures": fails,
        "traces_validated_against_impl": len(cases) - len([m for m in mismatches if m.get("case") is not None]),
    }


def _fails(case):
    r = F.run_impl(IMPL, {"cases": [case]})[0]
    f, k = judge(case, r)
    return f, r


def minimise(case, rounds=6):
    """drop operations (from the end, then one by one) while the oracle still fails"""
    ops = list(case["ops"])
    base = dict(case)
    base.pop("replay", None)
    f, _ = _fails(dict(base, ops=ops))
    if not f:
        f0, _ = _fails(case)
        return case, (f0[0]["detail"] if f0 else None)
    for _ in range(rounds):
        cands = [ops[:i] + ops[i + 1:] for i in range(len(ops))]
        res = F.run_impl(IMPL, {"cases": [dict(base, ops=c) for c in cands]})
        nxt = None
        for c, r in zip(cands, res):
            ff, _k = judge(dict(base, ops=c), r)
            if ff:
                nxt = c
                break
        if nxt is None:
            break
        ops = nxt
    c = dict(base, ops=ops)
    f, _ = _fails(c)
    return c, (f[0]["detail"] if f else None)


def replay(case):
    f, r = _fails(case)
    if not f:
        return True, "replay: the implementation satisfies the C17 oracle on this case"
    return False, "replay: still failing: " + repr([x["detail"] for x in f][:3])[:1500]
