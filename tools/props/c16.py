"""C16 - state hooks fire exactly when armed and enforce clamping / normalisation:
case generators, Coq rendering, correspondence, direct oracle (history-based abstract machine + norm check)."""
from __future__ import annotations
import copy, glob, itertools, json, math, os, random
from collections import Counter
import framework as F

ID = "C16"
GEN = []
LEVEL = "proof"
TECHNIQUE = ("Coq proof: the hook registration state machine (handles, ordered hook dicts, finalizers, weak references, "
             "torch's call dispatch incl. always_call) refines a handle-free abstract machine, by an invariant carried over "
             "every operation sequence (axiom-free); real-number proofs of the clamp / p-norm normalisation post-conditions; "
             "model tied to the code by differential correspondence against the real classes (with real gc.collect())")
LEVEL_TEXT = ("Machine-checked proof (Coq): for EVERY sequence of construct / register / deregister / train-eval switches / "
              "trainexec-evalexec assignments / module calls (incl. failing forward) / manual StateHook calls (force, ignore_mode) "
              "/ object deletion over any number of modules and Hook, ContextualHook and StateHook objects, the complete event "
              "sequence of a module call (which hooks run, pre or post position, dispatch order incl. prepend, which callable, "
              "forward in between) equals the one computed by a handle-free abstract machine from the same history: every hook "
              "fires exactly once in its configured position iff it is alive, registered on that module and enabled for the "
              "module's mode (post: and forward succeeded or always_call), never after deregistration / deletion, with no "
              "dangling handle, hook dictionaries of exactly the predicted size and no dispatch error (axiom-free, lists/bools/nat); "
              "clamp output lies in [min,max] and is the identity inside; the p-norm (p = 1, 2, inf, -inf, real p > 0, natural p) "
              "of every normalised fibre equals |scale| when the norm is >= eps, is |scale|*norm/eps below, and zero vectors stay "
              "zero (over the reals).")
LEVEL_NOTE = ("Trusted: Coq kernel; hand-written models C16/Hooks.v (state machine incl. the part of torch.nn.Module dispatch it "
              "relies on: hook dicts, prepend, always_call, RemovableHandle) and C16/Norm.v (torch.clamp, F.normalize, vector_norm "
              "by their mathematical meaning) validated by correspondence only (generator coverage); CPython weakref / GC / "
              "weakref.finalize modelled by their documented effect and exercised for real (del + gc.collect(), weakref probes). "
              "Real-number theorems use the stdlib Reals axioms; floating-point rounding is not proved. Theorems about histories "
              "assume no Hook is built with a pre-hook AND a post-hook whose kwargs torch rejects (safe_op); for that pattern "
              "partial_register_dangling_refuted proves the violation (finding candidate: Hook.register is not exception-safe). "
              "NOT covered: hooks that mutate the hook lists while a call is dispatching, exceptions raised by hook callables, "
              "deletion of the hooked module, Hook.register(statehook, other_module), complex scale, p < 0, NaN inputs. "
              "Known finding C16-bare-parameter-target (modelled in Norm.hook_step_target, theorem "
              "bare_parameter_target_refuted, generated for both hook classes on inferno Modules, plain torch modules and "
              "nn.Linear.weight): on a BARE nn.Parameter target the write-back raises TypeError, the hooked module's call "
              "fails and the target is not clamped / normalised; the oracle demands the property there and reports exactly "
              "that failure with its own signature (a silent skip, another exception type or an out-of-range result are "
              "violations). Property-backed parameters (inferno's WeightMixin style) work and are exercised. Only pinned, "
              "outside the property: Normalization of integer / bool tensors (vector_norm raises). Data types, "
              "attribute-path resolution at run time and reassigned hook parameters are validated by correspondence (per run "
              "opportunity, on the implementation's observed pre-state) and by the oracle; float32 targets are compared with "
              "3e-6 relative tolerance.")
HEADER = ("From Coq Require Import List ZArith Bool PrimFloat.\n"
          "From Inferno Require Import Base.Num Base.NumF C16.Hooks C16.Norm C16.HooksExec.\n"
          "Import ListNotations.\nOpen Scope float_scope.\n")
IMPL = os.path.join(F.VERIF, "tools", "impl", "c16_impl.py")
CANDIDATE_SIG = {"kind": "dangling_handle", "after": "partial_register"}


# ====================================================================== state-machine cases
def cfg_valid(o, nmods):
    """does the constructor accept this configuration?"""
    _, kind, pre, post, pp, qp, alw, pbad, qbad, mod, te, ee = o
    if kind == 2:
        return mod < nmods
    return bool(pre or post)


def gen_new(rng, nmods, stream):
    kind = rng.choice([0, 0, 1, 2, 2, 2])
    te, ee = rng.choice([(1, 1), (1, 1), (1, 0), (0, 1), (0, 0)])
    if kind == 2:
        pre = rng.randint(0, 1)
        pp = rng.randint(0, 1)
        mod = rng.randrange(nmods)
        if stream == "malformed" and rng.random() < 0.1:
            mod = nmods + 1
        return ["new", 2, pre, 1 - pre, pp, pp, rng.randint(0, 1), 0, 0, mod, te, ee]
    pre, post = rng.choice([(1, 1), (1, 1), (1, 0), (0, 1)])
    if stream == "malformed" and rng.random() < 0.1:
        pre, post = 0, 0
    pbad = qbad = 0
    if stream == "fault" and rng.random() < 0.6:
        pbad, qbad = rng.choice([(0, 1), (0, 1), (1, 0), (1, 1)])
    return ["new", kind, pre, post, rng.randint(0, 1), rng.randint(0, 1), rng.randint(0, 1), pbad, qbad, 0, te, ee]


def gen_sm_case(rng: random.Random, stream: str):
    nmods = rng.choice([1, 2, 2, 3])
    nops = rng.randint(6, 45)
    ops = []
    hooks = []        # shadow: dicts(kind, alive)
    for _ in range(nops):
        live = [i for i, h in enumerate(hooks) if h["alive"]]
        w = {"new": 4 if len(hooks) < 6 else 1, "reg": 5, "dereg": 2, "train": 2, "exec": 2, "call": 7, "manual": 3, "del": 1}
        if not live:
            w = {"new": 5, "train": 1, "call": 1}
        k = rng.choices(list(w), weights=list(w.values()))[0]
        if k == "new":
            o = gen_new(rng, nmods, stream)
            if cfg_valid(o, nmods):
                hooks.append({"kind": o[1], "alive": True})
            ops.append(o)
        elif k == "reg":
            h = rng.choice(live)
            m = rng.randrange(nmods)
            if stream == "malformed" and rng.random() < 0.1:
                m = nmods + 2
            ops.append(["reg", h, m])
        elif k == "dereg":
            ops.append(["dereg", rng.choice(live)])
        elif k == "train":
            ops.append(["train", rng.randrange(nmods), rng.randint(0, 1)])
        elif k == "exec":
            ops.append(["exec", rng.choice(live), rng.randint(0, 1), rng.randint(0, 1)])
        elif k == "call":
            ops.append(["call", rng.randrange(nmods), 1 if rng.random() < 0.2 else 0])
        elif k == "manual":
            st = [i for i in live if hooks[i]["kind"] == 2]
            if stream == "malformed" and rng.random() < 0.15:
                st = [i for i in live if hooks[i]["kind"] != 2] or st
            if not st:
                ops.append(["call", rng.randrange(nmods), 0])
                continue
            ops.append(["manual", rng.choice(st), rng.randint(0, 1), rng.randint(0, 1)])
        elif k == "del":
            h = rng.choice(live)
            hooks[h]["alive"] = False
            ops.append(["del", h])
    if stream == "fault" and rng.random() < 0.5:
        # directed: a Hook whose posthook kwargs torch rejects, registered (raises half-way), then deleted
        h = len(hooks)
        m = rng.randrange(nmods)
        ops.append(["new", rng.choice([0, 1]), 1, 1, rng.randint(0, 1), 0, 0, 0, 1, 0, 1, 1])
        ops.append(["reg", h, m])
        ops.append(["call", m, 0])
        ops.append(rng.choice([["del", h], ["del", h], ["dereg", h]]))
    # finish with a call of every module in both modes: whatever is still armed must show
    for m in range(nmods):
        ops.append(["call", m, 0])
        ops.append(["train", m, rng.randint(0, 1)])
        ops.append(["call", m, 0])
    return {"kind": "sm", "nmods": nmods, "stream": stream, "ops": ops}


def exhaustive_sm_cases(depth=4):
    """every sequence of `depth` operations over a reduced alphabet on two pre-built hooks and one module"""
    prefix = [["new", 2, 0, 1, 0, 0, 0, 0, 0, 0, 1, 0],      # state hook, post, train only
              ["new", 0, 1, 1, 1, 0, 1, 0, 0, 0, 1, 1]]      # Hook with both callables, always_call
    alpha = [["reg", 0, 0], ["reg", 1, 0], ["dereg", 0], ["dereg", 1], ["train", 0, 0], ["train", 0, 1],
             ["exec", 0, 0, 1], ["call", 0, 0], ["call", 0, 1], ["manual", 0, 0, 0], ["manual", 0, 1, 1],
             ["del", 0], ["del", 1]]
    cases = []
    for seq in itertools.product(range(len(alpha)), repeat=depth):
        ops = copy.deepcopy(prefix)
        dead = set()
        ok = True
        for i in seq:
            o = alpha[i]
            if o[0] in ("reg", "dereg", "exec", "manual", "del") and o[1] in dead:
                ok = False
                break
            if o[0] == "del":
                dead.add(o[1])
            ops.append(list(o))
        if not ok:
            continue
        ops.append(["call", 0, 0])
        cases.append({"kind": "sm", "nmods": 1, "stream": "exhaustive", "ops": ops})
    return cases


# ---------------------------------------------------------------------- rendering
def b(x):
    return F.coq_bool(bool(x))


KIND = {0: "KHook", 1: "KCtx", 2: "KState"}


def q_op(o):
    k = o[0]
    if k == "new":
        _, kind, pre, post, pp, qp, alw, pbad, qbad, mod, te, ee = o
        return (f"ONew (mkCfg {KIND[kind]} {b(pre)} {b(post)} {b(pp)} {b(qp)} {b(alw)} {b(pbad)} {b(qbad)} {mod}%nat) "
                f"{b(te)} {b(ee)}")
    if k == "reg":
        return f"ORegister {o[1]}%nat {o[2]}%nat"
    if k == "dereg":
        return f"ODeregister {o[1]}%nat"
    if k == "train":
        return f"OSetTrain {o[1]}%nat {b(o[2])}"
    if k == "exec":
        return f"OSetExec {o[1]}%nat {b(o[2])} {b(o[3])}"
    if k == "call":
        return f"OCall {o[1]}%nat {b(o[2])}"
    if k == "manual":
        return f"OManual {o[1]}%nat {b(o[2])} {b(o[3])}"
    if k == "del":
        return f"ODelete {o[1]}%nat"
    raise AssertionError(k)


def q_sm(case):
    return f"run_case {case['nmods']}%nat {F.coq_list([q_op(o) for o in case['ops']])}"


# ---------------------------------------------------------------------- direct oracle (abstract machine)
class Spec:
    """The property's own reading: no handles, no ids, no finalizers.  A hook is (alive, registered-on,
    trainexec, evalexec); per module an ordered list of registered hooks per position."""

    def __init__(self, nmods):
        self.n = nmods
        self.train = [True] * nmods
        self.hooks = []
        self.pre = [[] for _ in range(nmods)]     # expected order of owners
        self.post = [[] for _ in range(nmods)]

    def armed(self, h, m):
        return (h["te"] and self.train[m]) or (h["ee"] and not self.train[m])

    def unreg(self, i):
        for l in self.pre + self.post:
            while i in l:
                l.remove(i)
        self.hooks[i]["reg"] = None

    def step(self, o, out):
        """returns None or (description, signature)"""
        ev, err, snap = out
        k = o[0]
        exp_err = []
        exp_ev = None
        if k == "new":
            _, kind, pre, post, pp, qp, alw, pbad, qbad, mod, te, ee = o
            if not cfg_valid(o, self.n):
                exp_err = [4] if kind == 2 else [1]
            else:
                self.hooks.append(dict(kind=kind, pre=bool(pre), post=bool(post), pp=bool(pp), qp=bool(qp), alw=bool(alw),
                                       pbad=bool(pbad), qbad=bool(qbad), mod=mod, te=bool(te), ee=bool(ee), alive=True,
                                       reg=None, partial=False))
            exp_ev = []
        elif k == "reg":
            h = self.hooks[o[1]]
            i = o[1]
            m = h["mod"] if h["kind"] == 2 else o[2]
            exp_ev = []
            if h["reg"] is not None or h["partial"]:
                exp_err = [] if h["kind"] == 2 else [1]
            elif m >= self.n:
                exp_err = [4]
            elif h["pre"] and h["pbad"]:
                exp_err = [4]
            elif h["post"] and h["qbad"]:
                exp_err = [4]
                if h["pre"]:
                    # register() raised half-way: the property does not say what the hook is now; the oracle
                    # follows the implementation's own `registered` flag and keeps checking everything else
                    h["partial"] = True
            else:
                h["reg"] = m
                if h["pre"]:
                    self.pre[m].insert(0, i) if h["pp"] else self.pre[m].append(i)
                if h["post"]:
                    self.post[m].insert(0, i) if h["qp"] else self.post[m].append(i)
        elif k == "dereg":
            self.unreg(o[1])
            self.hooks[o[1]]["partial"] = False
            exp_ev = []
        elif k == "del":
            self.unreg(o[1])
            self.hooks[o[1]]["alive"] = False
            exp_ev = []
        elif k == "train":
            self.train[o[1]] = bool(o[2])
            exp_ev = []
        elif k == "exec":
            self.hooks[o[1]]["te" if o[2] else "ee"] = bool(o[3])
            exp_ev = []
        elif k == "manual":
            h = self.hooks[o[1]]
            if h["kind"] != 2:
                exp_err, exp_ev = [4], []
            else:
                fire = (h["reg"] is not None or bool(o[2])) and (bool(o[3]) or self.armed(h, h["mod"]))
                exp_ev = [[o[1], 2]] if fire else []
        elif k == "call":
            m, fail = o[1], bool(o[2])
            exp_err = [2] if fail else []

            def tag(i, pre):
                return 2 if self.hooks[i]["kind"] == 2 else (0 if pre else 1)
            pres = [[i, tag(i, True)] for i in self.pre[m] if self.armed(self.hooks[i], m)]
            posts = [[i, tag(i, False)] for i in self.post[m]
                     if self.armed(self.hooks[i], m) and (not fail or self.hooks[i]["alw"])]
            exp_ev = pres + [[-1, m]] + posts
        partial = {i for i, h in enumerate(self.hooks) if h["partial"]}
        dead = {i for i, h in enumerate(self.hooks) if not h["alive"]}
        # --- dangling handles / dispatch errors (never acceptable) ---
        ms, hs = snap
        for mi, (tr, pre, post, alw) in enumerate(ms):
            if -1 in pre or -1 in post:
                return (f"dangling handle on module {mi} after {o}: a registered lambda refers to a destroyed hook object",
                        dict(CANDIDATE_SIG) if self.was_partial_dead else {"kind": "dangling_handle", "after": k})
        if k == "call" and err == [5]:
            return (f"module call raised AttributeError (dangling hook) at {o}",
                    dict(CANDIDATE_SIG) if self.was_partial_dead else {"kind": "dangling_handle", "after": "call"})
        # --- deletion really destroys the object ---
        for i in dead:
            if hs[i] != [0]:
                return (f"hook object {i} still alive after `del` + gc.collect() (something holds a strong reference)",
                        {"kind": "leak"})
        # --- errors ---
        if err != exp_err:
            return (f"{o}: expected error {exp_err}, got {err}", {"kind": "error", "op": k})
        # --- events ---
        if exp_ev is not None:
            got = [e for e in ev if e[0] not in partial]
            if got != exp_ev:
                kind = "fires"
                if sorted(map(tuple, got)) == sorted(map(tuple, exp_ev)):
                    kind = "position_or_order"
                return (f"{o}: expected events {exp_ev}, got {got} (module training={self.train})", {"kind": kind, "op": k})
        # --- observable state ---
        for mi, (tr, pre, post, alw) in enumerate(ms):
            if bool(tr) != self.train[mi]:
                return (f"{o}: module {mi} training flag {tr}", {"kind": "state", "what": "training"})
            gp = [x for x in pre if x not in partial]
            gq = [x for x in post if x not in partial]
            if gp != self.pre[mi] or gq != self.post[mi]:
                return (f"{o}: module {mi} hook lists pre={gp} post={gq}, expected pre={self.pre[mi]} post={self.post[mi]}",
                        {"kind": "state", "what": "hook_lists"})
            ea = [x for x in self.post[mi] if self.hooks[x]["alw"]]
            if [x for x in alw if x not in partial] != ea:
                return (f"{o}: module {mi} always_call set {alw}, expected {ea}", {"kind": "state", "what": "always_call"})
        for i, h in enumerate(self.hooks):
            if not h["alive"]:
                continue
            if hs[i][0] != 1:
                return (f"{o}: hook {i} destroyed although still referenced", {"kind": "state", "what": "alive"})
            if not h["partial"] and hs[i][1] != int(h["reg"] is not None):
                return (f"{o}: hook {i}.registered = {hs[i][1]}", {"kind": "state", "what": "registered"})
            if hs[i][2] != int(h["te"]) or hs[i][3] != int(h["ee"]):
                return (f"{o}: hook {i} trainexec/evalexec = {hs[i][2:]}", {"kind": "state", "what": "exec_flags"})
        return None

    @property
    def was_partial_dead(self):
        return any(h["partial"] and not h["alive"] for h in self.hooks)


def oracle_sm(case, res):
    if any(x == 0 for x in res.get("refcount_only", [])):
        # Hook / ContextualHook exist to keep hook objects free of reference cycles: `del` alone must destroy them
        i = res["refcount_only"].index(0)
        return ({"step": None, "op": ["del", i],
                 "what": f"hook object {i} was only destroyed by the cycle collector (it is part of a reference cycle)"},
                {"kind": "reference_cycle"})
    s = Spec(case["nmods"])
    for i, (o, out) in enumerate(zip(case["ops"], res["trace"])):
        r = s.step(o, out)
        if r is not None:
            return {"step": i, "op": o, "what": r[0]}, r[1]
    return None, None


# ====================================================================== numeric cases
SHAPES = [[4], [2, 3], [3, 2], [2, 2, 2], [1, 3], [5]]
ORDERS = ["inf", "-inf", 1, 2, 3.0, 1.5, 0.5, 2.5]


def fibre_index(shape, dim):
    """list of fibres; each fibre = list of flat (row-major) offsets of its elements"""
    nd = len(shape)
    if dim is None:
        red = list(range(nd))
    elif isinstance(dim, int):
        red = [dim % nd]
    else:
        red = sorted({d % nd for d in dim})
    keep = [i for i in range(nd) if i not in red]
    strides = [1] * nd
    for i in range(nd - 2, -1, -1):
        strides[i] = strides[i + 1] * shape[i + 1]
    out = []
    for ki in itertools.product(*[range(shape[i]) for i in keep]):
        fib = []
        for ri in itertools.product(*[range(shape[i]) for i in red]):
            off = sum(k * strides[i] for k, i in zip(ki, keep)) + sum(r * strides[i] for r, i in zip(ri, red))
            fib.append(off)
        out.append(fib)
    return out


def gen_vals(rng, n, zero_fibres=False):
    pool = [0.1, -0.3, 1.3, 2.7, -4.1, 0.7, -0.05, 3.3, 0.0, 5.9, -2.2, 1e-3]
    return [rng.choice(pool) * rng.choice([1, 1, 1, 10, 0.1]) for _ in range(n)]


def gen_num_case(rng: random.Random, malformed: bool):
    shape = rng.choice(SHAPES)
    n = 1
    for s in shape:
        n *= s
    te, ee = rng.choice([(1, 1), (1, 1), (1, 0), (0, 1), (0, 0)])
    base = {"shape": shape, "attr": rng.choice(["data", "data", "inner.data"]), "storage": rng.choice(["plain", "buffer"]),
            "reg": 1 if rng.random() < 0.85 else 0, "te": te, "ee": ee, "training": rng.randint(0, 1),
            "as_pre": rng.randint(0, 1)}
    if rng.random() < 0.4:
        lo = rng.choice([None, -1.0, -0.25, 0.0, 0.3, -2.7])
        hi = rng.choice([None, 1.0, 0.25, 0.5, 2.9, 6.1])
        if lo is not None and hi is not None and lo >= hi and not malformed:
            lo, hi = None, hi
        if lo is None and hi is None and not malformed:
            lo = -0.3
        data = gen_vals(rng, n)
        # boundary values exactly on the bounds (dyadic bounds only)
        for bnd in (lo, hi):
            if bnd is not None and float(bnd * 8).is_integer() and rng.random() < 0.5:
                j = rng.randrange(n)
                data[j] = bnd if base["as_pre"] else bnd / 2
        return dict(base, kind="clamp", lo=lo, hi=hi, data=data)
    nd = len(shape)
    dim = rng.choice([None, None, -1, 0] + ([1, [0, 1], [-1, 0]] if nd >= 2 else []) + ([[0, 2], 2] if nd >= 3 else []))
    order = rng.choice(ORDERS)
    scale = rng.choice([1.0, 2.0, -1.5, 0.3, 7.1, -0.7])
    eps = rng.choice([1e-12, 1e-12, 1e-12, 0.5, 1e-3])
    if malformed:
        if rng.random() < 0.5:
            order = rng.choice([0, 0.0])
        else:
            scale = 0.0
    data = gen_vals(rng, n)
    fi = fibre_index(shape, dim)
    if rng.random() < 0.35:               # a zero fibre
        for off in rng.choice(fi):
            data[off] = 0.0
    return dict(base, kind="norm", order=order, scale=scale, eps=eps, dim=dim, data=data)


def q_fl(x):
    return F.coq_float(float(x))


def q_tensor(fibs):
    return F.coq_list([F.coq_list([q_fl(v) for v in f]) for f in fibs])


def q_order(o):
    if o == "inf":
        return "(@PInf FN)"
    if o == "-inf":
        return "(@PNegInf FN)"
    if o == 1 and isinstance(o, int):
        return "(@POne FN)"
    if o == 2 and isinstance(o, int):
        return "(@PTwo FN)"
    return f"(@PReal FN {q_fl(o)})"


def q_num(case):
    flags = f"{b(case['reg'])} {b(case['te'])} {b(case['ee'])} {b(case['training'])} {b(case['as_pre'])}"
    if case["kind"] == "clamp":
        lo = F.coq_option(None if case["lo"] is None else q_fl(case["lo"]))
        hi = F.coq_option(None if case["hi"] is None else q_fl(case["hi"]))
        return f"clamp_case {lo} {hi} {flags} {q_tensor([case['data']])}"
    fi = fibre_index(case["shape"], case["dim"])
    fibs = [[case["data"][o] for o in f] for f in fi]
    return f"norm_case {q_order(case['order'])} {q_fl(case['scale'])} {q_fl(case['eps'])} {flags} {q_tensor(fibs)}"


def pnorm(order, xs):
    a = [abs(x) for x in xs]
    if order == "inf":
        return max(a)
    if order == "-inf":
        return min(a)
    if order == 1:
        return math.fsum(a)
    if order == 2:
        return math.sqrt(math.fsum(x * x for x in a))
    return math.fsum(x ** order for x in a) ** (1.0 / order)


def decode_flat(out):
    return [F.dec_float(t) for t in out]


def compare_num(case, ri, tm):
    """model (tree) vs implementation"""
    merr, mout = tm
    if ri["err"] and ri["err"][0] == 8:
        return f"module call raised {ri['err'][1:]}"
    if merr != ri["err"]:
        return f"constructor error: model {merr}, implementation {ri['err']}"
    if merr:
        return None
    got = decode_flat(ri["out"])
    if case["kind"] == "clamp":
        fi = [list(range(len(case["data"])))]
    else:
        fi = fibre_index(case["shape"], case["dim"])
    if ri["shape"] != case["shape"]:
        return f"shape changed to {ri['shape']}"
    for f, mf in zip(fi, mout):
        for off, mv in zip(f, mf):
            if not F.close(F.dec_float(mv), got[off]):
                return f"element {off}: model {F.dec_float(mv)!r}, implementation {got[off]!r}"
    return None


def oracle_num(case, ri):
    """the property statement on the implementation's output.  Returns (detail, signature) or (None, None)"""
    bad_ctor = False
    if case["kind"] == "clamp":
        lo, hi = case["lo"], case["hi"]
        bad_ctor = (lo is None and hi is None) or (lo is not None and hi is not None and not hi > lo)
    else:
        bad_ctor = case["order"] == 0 or case["scale"] == 0
    if bad_ctor:
        if not ri["err"]:
            return "constructor accepted invalid arguments", {"kind": "ctor"}
        return None, None
    if ri["err"]:
        return f"unexpected error {ri['err']}", {"kind": "num_error", "hook": case["kind"]}
    training = bool(case["training"])
    should = bool(case["reg"]) and ((case["te"] and training) or (case["ee"] and not training))
    if ri["ran"] != int(should):
        return (f"hook ran {ri['ran']} times in one module call, expected {int(should)}",
                {"kind": "num_fires", "hook": case["kind"]})
    got = decode_flat(ri["out"])
    data = case["data"]
    if not should:
        if any(g != 2 * d for g, d in zip(got, data)):
            return "attribute changed although the hook did not run", {"kind": "num_unarmed_change", "hook": case["kind"]}
        return None, None
    # value the hook produced / consumed (the probe forward doubles the attribute, exactly)
    hook_out = [g / 2 for g in got] if case["as_pre"] else got
    hook_in = data if case["as_pre"] else [2 * d for d in data]
    if case["kind"] == "clamp":
        lo, hi = case["lo"], case["hi"]
        for j, (x, y) in enumerate(zip(hook_in, hook_out)):
            if (lo is not None and y < lo) or (hi is not None and y > hi):
                return f"element {j} = {y!r} outside [{lo}, {hi}] after the clamping hook ran", {"kind": "clamp_range"}
            inside = (lo is None or x >= lo) and (hi is None or x <= hi)
            if inside and y != x:
                return f"element {j}: in-range value {x!r} changed to {y!r}", {"kind": "clamp_identity"}
            if not inside and y not in (lo, hi):
                return f"element {j}: out-of-range value {x!r} mapped to {y!r}, not to a bound", {"kind": "clamp_identity"}
        return None, None
    order, scale, eps = case["order"], case["scale"], case["eps"]
    for f in fibre_index(case["shape"], case["dim"]):
        xin = [hook_in[o] for o in f]
        xout = [hook_out[o] for o in f]
        nin = pnorm(order, xin)
        nout = pnorm(order, xout)
        if all(x == 0 for x in xin):
            if any(y != 0 for y in xout):
                return f"zero fibre {f} became {xout}", {"kind": "norm_zero"}
        elif nin >= eps:
            if not F.close(nout, abs(scale), rel=1e-9):
                return (f"fibre {f}: {order}-norm after normalisation is {nout!r}, expected |scale| = {abs(scale)!r}",
                        {"kind": "norm_value"})
        else:
            if not F.close(nout, abs(scale) * nin / eps, rel=1e-9):
                return f"fibre {f}: sub-eps norm {nout!r}, expected {abs(scale) * nin / eps!r}", {"kind": "norm_value"}
        # direction: out = c * in with a single c of the sign of scale
        d = max(nin, eps)
        for x, y in zip(xin, xout):
            if not F.close(y, scale * x / d, rel=1e-9):
                return f"fibre {f}: element {x!r} -> {y!r}, expected {scale * x / d!r}", {"kind": "norm_direction"}
    return None, None


# ====================================================================== numeric hooks over operation sequences
# data types of the target: 0 bool, 1 int16, 2 int32, 3 int64, 4 float32, 5 float64
PATHS = [["data"], ["conn", "data"], ["layer", "conn", "data"]]
BOUNDS = [{"v": 0.5, "int": False}, {"v": 2.5, "int": False}, {"v": -0.25, "int": False}, {"v": 1.5, "int": False},
          {"v": 1.0, "int": False}, {"v": 3.0, "int": False}, {"v": 0, "int": True}, {"v": 2, "int": True},
          {"v": -1, "int": True}, {"v": 5, "int": True}, {"v": 0.3, "int": False}, {"v": -2.7, "int": False}]


# no -inf order here: min|x| = 0 divides by eps and repeated runs overflow float32 targets (a rounding artefact,
# not a property question); the -inf order is covered by the single-call float64 cases
NSEQ_ORDERS = ["inf", 1, 2, 3.0, 1.5, 0.5, 2.5]


def f32(v):
    import struct
    return struct.unpack("f", struct.pack("f", v))[0]


def store(dt, v):
    """the number a tensor of data type dt holds after being built from the float64 value v"""
    if dt == 0:
        return 1.0 if v != 0 else 0.0
    if dt in (1, 2, 3):
        return float(int(v))
    return f32(v) if dt == 4 else float(v)


def gen_data(rng, dt, n):
    if dt == 0:
        return [rng.randint(0, 1) for _ in range(n)]
    if dt in (1, 2, 3):
        return [rng.randint(-9, 9) for _ in range(n)]
    return gen_vals(rng, n)


def gen_nseq_case(rng: random.Random, malformed: bool):
    hook = rng.choice(["clamp", "norm"])
    path = rng.choice(PATHS + PATHS[1:])
    shape = rng.choice(SHAPES)
    n = 1
    for x in shape:
        n *= x
    storage = rng.choice(["plain", "plain", "buffer", "buffer", "param"])
    owner = "inferno"
    if rng.random() < 0.12:
        # a BARE nn.Parameter target: registered parameter of an inferno Module / of a plain torch module / the weight
        # of an nn.Linear (known finding C16-bare-parameter-target: the write-back raises TypeError)
        storage = "param_direct"
        owner = rng.choice(["inferno", "torch", "linear"])
        if owner == "linear":
            path = rng.choice([["conn", "weight"], ["layer", "conn", "weight"]])
            shape = rng.choice([[2, 3], [3, 2], [1, 3]])
            n = shape[0] * shape[1]
    if hook == "clamp":
        dts = [4, 5] if storage.startswith("param") else [0, 1, 2, 3, 3, 4, 5, 5]
    else:
        dts = [4, 5, 5] if not (malformed and not storage.startswith("param")) else [2, 3, 5]
    dt = rng.choice(dts)
    te, ee = rng.choice([(1, 1), (1, 1), (1, 1), (1, 0), (0, 1)])
    case = {"kind": "nseq", "hook": hook, "path": path, "inter": rng.choice(["module", "object"]), "storage": storage,
            "owner": owner, "dtype": dt, "shape": shape, "data": gen_data(rng, dt, n), "te": te, "ee": ee, "as_pre": rng.randint(0, 1)}

    def bounds():
        lo, hi = rng.choice(BOUNDS + [None]), rng.choice(BOUNDS + [None])
        if lo is None and hi is None:
            lo = BOUNDS[0]
        if lo is not None and hi is not None and lo["v"] >= hi["v"]:
            lo, hi = (hi, lo) if hi["v"] < lo["v"] else (lo, None)
        return lo, hi
    nd = len(shape)
    dims = [None, None, -1, 0] + ([1, [0, 1]] if nd >= 2 else []) + ([[0, 2], 2] if nd >= 3 else [])
    if hook == "clamp":
        case["lo"], case["hi"] = bounds()
    else:
        case.update(order=rng.choice(NSEQ_ORDERS), scale=rng.choice([1.0, 2.0, -1.5, 0.3, 7.1]),
                    eps=rng.choice([1e-12, 1e-12, 0.5, 1e-3]), dim=rng.choice(dims))
    ops = [["reg"]] if rng.random() < 0.85 else []
    for _ in range(rng.randint(6, 12)):
        w = {"call": 5, "manual": 2, "train": 1, "exec": 1, "reg": 1, "dereg": 1, "setdata": 2, "setparam": 2,
             "replace": 4 if len(path) > 1 else 0}
        k = rng.choices(list(w), weights=list(w.values()))[0]
        ndt = dt if rng.random() < 0.7 else rng.choice(dts)
        if k == "call":
            ops.append(["call"])
        elif k == "manual":
            ops.append(["manual", rng.randint(0, 1), rng.randint(0, 1)])
        elif k == "train":
            ops.append(["train", rng.randint(0, 1)])
        elif k == "exec":
            ops.append(["exec", rng.randint(0, 1), rng.randint(0, 1)])
        elif k in ("reg", "dereg"):
            ops.append([k])
        elif k == "setdata":
            ops.append(["setdata", ndt, gen_data(rng, ndt, n)])
            ops.append(["call"])
        elif k == "replace":
            # an intermediate object of the path is rebound to a fresh object tree; then the hook runs again
            ops.append(["replace", rng.randrange(len(path) - 1), ndt, gen_data(rng, ndt, n)])
            ops.append(rng.choice([["call"], ["call"], ["manual", 1, 1]]))
        elif k == "setparam":
            if hook == "clamp":
                lo, hi = bounds()
                ops.append(["setparam", "lo", lo])
                ops.append(["setparam", "hi", hi])
            else:
                name = rng.choice(["scale", "order", "eps", "dim"])
                v = {"scale": rng.choice([1.0, -2.0, 0.7]), "order": rng.choice(NSEQ_ORDERS), "eps": rng.choice([1e-12, 0.5]),
                     "dim": rng.choice(dims)}[name]
                ops.append(["setparam", name, v])
            ops.append(["call"])
    case["ops"] = ops
    return case


class NSpec:
    """abstract reading of a numeric hook history: flags + current parameters (no object identities: the target is
    whatever the attribute path reaches from the hooked module when the hook runs)"""

    def __init__(self, case):
        self.case = case
        self.reg, self.te, self.ee, self.training = False, bool(case["te"]), bool(case["ee"]), True
        self.p = {k: case.get(k) for k in ("lo", "hi", "order", "scale", "eps", "dim")}

    def fire(self, op):
        armed = (self.te and self.training) or (self.ee and not self.training)
        if op[0] == "call":
            return self.reg and armed
        return (self.reg or bool(op[1])) and (bool(op[2]) or armed)

    def update(self, op):
        k = op[0]
        if k == "train":
            self.training = bool(op[1])
        elif k == "exec":
            if op[1]:
                self.te = bool(op[2])
            else:
                self.ee = bool(op[2])
        elif k == "reg":
            self.reg = True
        elif k == "dereg":
            self.reg = False
        elif k == "setparam":
            self.p[op[1]] = op[2]


def nseq_steps(case, res):
    """[(op index, op, flags before, params, value before, observation after)] for the run opportunities"""
    sp = NSpec(case)
    out = []
    tr = res["trace"]
    for i, op in enumerate(case["ops"]):
        if op[0] in ("call", "manual"):
            out.append((i, op, list(tr[i]["flags"]), dict(sp.p), tr[i]["val"], tr[i + 1]))
        sp.update(op)
    return out


def q_bound(bd):
    return F.coq_option(None if bd is None else f"({q_fl(bd['v'])}, {b(not bd['int'])})")


def q_fire(op, fl):
    reg, te, ee, tr = fl
    if op[0] == "call":
        return f"(fires {b(reg)} {b(te)} {b(ee)} {b(tr)})"
    return f"(manual_fires {b(reg)} {b(op[1])} {b(op[2])} {b(te)} {b(ee)} {b(tr)})"


def q_nseq_terms(case, res):
    terms = []
    for i, op, fl, p, val, post in nseq_steps(case, res):
        if not isinstance(val[0], int):
            terms.append(None)
            continue
        bare = b(case["storage"] == "param_direct")
        dt, shape, flat = val
        vals = decode_flat(flat)
        if case["hook"] == "clamp":
            terms.append(f"clamp_step {bare} {q_bound(p['lo'])} {q_bound(p['hi'])} {dt}%nat {q_fire(op, fl)} {q_tensor([vals])}")
        else:
            fibs = [[vals[o] for o in f] for f in fibre_index(shape, p["dim"])]
            terms.append(f"norm_step {bare} {q_order(p['order'])} {q_fl(p['scale'])} {q_fl(p['eps'])} {dt}%nat "
                         f"{q_fire(op, fl)} {q_tensor(fibs)}")
    return terms


def compare_nseq(case, res, trees):
    """model step (applied to the implementation's observed pre-state) vs implementation post-state"""
    for (i, op, fl, p, val, post), tm in zip(nseq_steps(case, res), trees):
        if tm is None:
            continue
        if isinstance(tm, Exception):
            return {"step": i, "op": op, "detail": str(tm)}
        merr, mdt, mval = tm
        if merr != post["err"]:
            return {"step": i, "op": op, "detail": f"error: model {merr}, implementation {post['err']}"}
        pv = post["val"]
        if not isinstance(pv[0], int):
            return {"step": i, "op": op, "detail": f"target unreadable: {pv}"}
        if pv[0] != mdt:
            return {"step": i, "op": op, "detail": f"dtype after the run: model {mdt}, implementation {pv[0]}"}
        got = decode_flat(pv[2])
        fi = [list(range(len(got)))] if case["hook"] == "clamp" else fibre_index(pv[1], p["dim"])
        rel = 3e-6 if pv[0] == 4 else 1e-9
        for f, mf in zip(fi, mval):
            for off, mv in zip(f, mf):
                if not F.close(F.dec_float(mv), got[off], rel=rel, ab=1e-12 if pv[0] != 4 else 1e-9):
                    return {"step": i, "op": op,
                            "detail": f"element {off}: model {F.dec_float(mv)!r}, implementation {got[off]!r}"}
    return None


def check_clamp(lo, hi, xs, ys, tol):
    for j, (x, y) in enumerate(zip(xs, ys)):
        if (lo is not None and y < lo - tol * max(1, abs(lo))) or (hi is not None and y > hi + tol * max(1, abs(hi))):
            return f"element {j} = {y!r} outside [{lo}, {hi}] after the clamping hook ran", {"kind": "clamp_range"}
        inside = (lo is None or x >= lo) and (hi is None or x <= hi)
        if inside and y != x:
            return f"element {j}: in-range value {x!r} changed to {y!r}", {"kind": "clamp_identity"}
        if not inside and not any(bd is not None and abs(y - bd) <= tol * max(1, abs(bd)) for bd in (lo, hi)):
            return f"element {j}: out-of-range value {x!r} mapped to {y!r}, not to a bound", {"kind": "clamp_identity"}
    return None, None


def check_norm(order, scale, eps, shape, dim, xs, ys, rel):
    for f in fibre_index(shape, dim):
        xin = [xs[o] for o in f]
        xout = [ys[o] for o in f]
        nin = pnorm(order, xin)
        nout = pnorm(order, xout)
        if all(x == 0 for x in xin):
            if any(y != 0 for y in xout):
                return f"zero fibre {f} became {xout}", {"kind": "norm_zero"}
            continue
        if abs(nin - eps) <= 1e-5 * eps:
            continue
        want = abs(scale) if nin >= eps else abs(scale) * nin / eps
        if not F.close(nout, want, rel=rel):
            return (f"fibre {f}: {order}-norm of the target after the normalisation hook ran is {nout!r}, expected {want!r}",
                    {"kind": "norm_value"})
        d = max(nin, eps)
        for x, y in zip(xin, xout):
            if not F.close(y, scale * x / d, rel=rel, ab=1e-12 if rel < 1e-7 else 1e-9):
                return f"fibre {f}: element {x!r} -> {y!r}, expected {scale * x / d!r}", {"kind": "norm_direction"}
    return None, None


def oracle_nseq(case, res):
    """the property on the value reachable from the hooked module through the attribute path at call time"""
    sp = NSpec(case)
    tr = res["trace"]
    ran = 0
    known = None       # first instance of the listed finding; judging goes on, any OTHER failure takes precedence
    for i, op in enumerate(case["ops"]):
        pre, post = tr[i], tr[i + 1]
        k = op[0]

        def fail(what, sig):
            return {"step": i, "op": op, "what": what}, dict(sig, hook=case["hook"])
        if not isinstance(post["val"][0], int):
            return fail(f"target attribute unreadable: {post['val']}", {"kind": "nseq_unreadable"})
        if k in ("call", "manual"):
            fire = sp.fire(op)
            bare = case["storage"] == "param_direct"
            # Normalization of an integer / bool tensor: vector_norm raises; not judged by the property
            outside = case["hook"] == "norm" and pre["val"][0] < 4
            if post["err"]:
                if fire and bare and not outside and post["err"] == [4] and post["val"] == pre["val"]:
                    # the property demands that the hook runs and leaves the target within bounds / normalised; on a bare
                    # nn.Parameter target the write-back raises TypeError instead (finding C16-bare-parameter-target)
                    if known is None:
                        known = ({"step": i, "op": op,
                                  "what": "the hook fired on a bare nn.Parameter target: the write-back raised TypeError (torch "
                                          "refuses to assign a Tensor to a registered parameter), the call of the hooked module "
                                          f"failed and the target was left as it was: {decode_flat(post['val'][2])}"},
                                 {"kind": "bare_parameter_target",
                                  "hook": "Clamping" if case["hook"] == "clamp" else "Normalization", "error": "TypeError"})
                elif not (fire and outside):
                    return fail(f"unexpected error {post['err']}" + (" on a bare nn.Parameter target" if bare else ""),
                                {"kind": "nseq_error"})
                ran = post["ran"]
            else:
                if post["ran"] - ran != int(fire):
                    return fail(f"hook ran {post['ran'] - ran} times, expected {int(fire)} "
                                f"(flags reg/te/ee/training = {[sp.reg, sp.te, sp.ee, sp.training]})", {"kind": "num_fires"})
                ran = post["ran"]
                xs, ys = decode_flat(pre["val"][2]), decode_flat(post["val"][2])
                if not fire:
                    if post["val"] != pre["val"]:
                        return fail("target changed although the hook did not run", {"kind": "num_unarmed_change"})
                elif not outside:
                    f4 = post["val"][0] == 4
                    if case["hook"] == "clamp":
                        lo = None if sp.p["lo"] is None else sp.p["lo"]["v"]
                        hi = None if sp.p["hi"] is None else sp.p["hi"]["v"]
                        if lo is None or hi is None or lo < hi:
                            d, sig = check_clamp(lo, hi, xs, ys, 1e-6 if f4 else 0.0)
                            if d:
                                return fail(d + f" (target dtype {pre['val'][0]} -> {post['val'][0]})", sig)
                    else:
                        d, sig = check_norm(sp.p["order"], sp.p["scale"], sp.p["eps"], post["val"][1], sp.p["dim"], xs, ys,
                                            3e-5 if f4 else 1e-9)
                        if d:
                            return fail(d, sig)
        else:
            if post["err"]:
                return fail(f"unexpected error {post['err']}", {"kind": "nseq_error"})
            if k in ("setdata", "replace"):
                dt, vals = (op[1], op[2]) if k == "setdata" else (op[2], op[3])
                want = [store(dt, v) for v in vals]
                if post["val"][0] != dt or decode_flat(post["val"][2]) != want:
                    return fail("harness: assigned target not readable back", {"kind": "nseq_harness"})
            elif post["val"] != pre["val"]:
                return fail("target changed by an operation that does not run the hook", {"kind": "num_unarmed_change"})
        sp.update(op)
        if post["flags"] != [int(sp.reg), int(sp.te), int(sp.ee), int(sp.training)]:
            return fail(f"flags {post['flags']}", {"kind": "state", "what": "nseq_flags"})
    return known if known is not None else (None, None)


# ====================================================================== driver
def load_corpus():
    out = []
    for p in sorted(glob.glob(os.path.join(F.VERIF, "corpus", ID, "*.json"))):
        out.append(json.load(open(p)))
    return out


def q_case(c):
    return q_sm(c) if c["kind"] == "sm" else q_num(c)


def is_nontrivial(c):
    if c["kind"] == "nseq":
        return sum(1 for o in c["ops"] if o[0] in ("call", "manual")) >= 2
    if c["kind"] != "sm":
        return bool(c["reg"])
    kinds = {o[0] for o in c["ops"]}
    return {"new", "reg", "call"} <= kinds and len(c["ops"]) >= 6


def judge(c, ri, tm):
    """-> (mismatch detail or None, oracle detail or None, signature)"""
    mm = None
    if c["kind"] == "nseq":
        mm = compare_nseq(c, ri, tm)
        od, sig = oracle_nseq(c, ri)
        return mm, od, sig
    if isinstance(tm, Exception):
        mm = str(tm)
    elif c["kind"] == "sm":
        ti = ri["trace"]
        if ti != tm:
            j = next((k for k, (a, bb) in enumerate(zip(ti, tm)) if a != bb), None)
            mm = {"first_diff_step": j, "op": c["ops"][j] if j is not None else None,
                  "impl": ti[j] if j is not None else None, "model": tm[j] if j is not None else None}
    else:
        mm = compare_num(c, ri, tm)
    if c["kind"] == "sm":
        od, sig = oracle_sm(c, ri)
    else:
        od, sig = oracle_num(c, ri)
    return mm, od, sig


def candidate_listed():
    return any(k.get("property") == ID and k.get("match") == CANDIDATE_SIG for k in F.load_known().get("findings", []))


def run_impl_parallel(cases):
    """the implementation side in several fresh interpreters (each case is independent)"""
    import concurrent.futures as cf
    k = max(1, min(F.JOBS, 8, len(cases) // 50))
    size = (len(cases) + k - 1) // k
    chunks = [cases[i:i + size] for i in range(0, len(cases), size)]
    with cf.ThreadPoolExecutor(k) as ex:
        parts = list(ex.map(lambda ch: F.run_impl(IMPL, {"cases": ch}, timeout=3000), chunks))
    return [r for part in parts for r in part]


def eval_model(cases, impl):
    """one Coq term per sm / single-call numeric case; one term per run opportunity of a numeric sequence case (the
    model step is applied to the implementation's observed pre-state, so it needs the implementation's trace)"""
    terms, slots = [], []
    for c, ri in zip(cases, impl):
        if c["kind"] == "nseq":
            ts = q_nseq_terms(c, ri)
            idx = []
            for t in ts:
                if t is None:
                    idx.append(None)
                else:
                    idx.append(len(terms))
                    terms.append(t)
            slots.append(idx)
        else:
            slots.append(len(terms))
            terms.append(q_case(c))
    out = F.eval_terms(ID, HEADER, terms, shard=max(40, len(terms) // (2 * F.JOBS) + 1))
    return [([None if j is None else out[j] for j in sl] if isinstance(sl, list) else out[sl]) for sl in slots]


def run(ctx):
    rng = random.Random(ctx["seed"])
    quick = ctx["tier"] == "quick"
    n_sm, n_num, n_seq = (340, 170, 110) if quick else (4000, 2000, 1500)
    cases = load_corpus()
    for i in range(n_sm):
        stream = "fault" if i % 8 == 7 else ("malformed" if i % 4 == 3 else "valid")
        cases.append(gen_sm_case(rng, stream))
    for i in range(n_num):
        cases.append(gen_num_case(rng, malformed=(i % 10 == 9)))
    for i in range(n_seq):
        cases.append(gen_nseq_case(rng, malformed=(i % 8 == 7)))
    exhaustive = False
    if not quick:
        cases += exhaustive_sm_cases(4)
        exhaustive = True
    impl = run_impl_parallel(cases)
    model = eval_model(cases, impl)
    mismatches, oracle_fail, candidates = [], [], []
    listed = candidate_listed()
    for c, ri, tm in zip(cases, impl, model):
        mm, od, sig = judge(c, ri, tm)
        if od is not None and sig == CANDIDATE_SIG and not listed:
            # finding candidate (Hook.register is not exception-safe): the model mirrors it (refuted theorem
            # partial_register_dangling_refuted).  Reported in the evidence; becomes a KNOWN-FINDING line once the
            # lead lists the signature in known_findings.json.
            candidates.append({"case": c, "detail": od})
        elif od is not None:
            oracle_fail.append({"case": c, "detail": od, "signature": sig})
        if mm is not None:
            # inside the finding's pattern an implementation that satisfies the oracle is accepted (upstream fix)
            if c.get("stream") == "fault" and od is None and any(o[0] == "new" and o[8] for o in c["ops"]):
                continue
            if c.get("storage") == "param_direct" and od is None:
                continue     # finding C16-bare-parameter-target repaired upstream: the property holds on this case
            mismatches.append({"case": c, "detail": mm})
    if candidates:
        print(f"FINDING-CANDIDATE: property={ID} Hook.register is not exception-safe: when register_forward_hook raises after "
              f"register_forward_pre_hook succeeded the pre-hook stays registered without finalizer; deleting the Hook leaves a "
              f"dangling handle and every later module call raises AttributeError ({len(candidates)} generated cases; "
              f"signature {json.dumps(CANDIDATE_SIG)})")
    sm = [c for c in cases if c["kind"] == "sm"]
    refc = Counter()
    for c, ri in zip(cases, impl):
        if c["kind"] == "sm":
            refc.update("refcount" if x == 1 else "needed_gc" for x in ri["refcount_only"] if x is not None)
    return {
        "evaluations": len(cases),
        "distinct_nontrivial": len({json.dumps(c, sort_keys=True) for c in cases if is_nontrivial(c)}),
        "rule": "seeded random hook histories (6-45 operations + closing calls over 8 operation kinds, 1-3 modules, Hook / "
                "ContextualHook / StateHook objects with every enable-flag, pre/post, prepend, always_call combination; every "
                "4th case from a malformed stream, every 8th with torch-rejected kwargs) and Clamping / Normalization hooks run "
                "through a real module call (6 shapes, 8 norm orders, dims None/int/tuple, plain / buffer / nested attribute); "
                "numeric-hook operation sequences (call / manual / train / exec / reg / dereg, the final tensor reassigned, an "
                "INTERMEDIATE object of a 1-3 component attribute path rebound to a fresh object, hook parameters reassigned; "
                "targets bool / int16 / int32 / int64 / float32 / float64 as plain attribute, buffer, property-backed parameter or "
                "bare nn.Parameter (inferno Module / plain torch module / nn.Linear.weight) under submodule or plain-object owners; fractional, integral-float and int bounds), post-condition checked on "
                "the value reachable from the hooked module after each run; "
                "non-trivial = history with construction, registration and a call (sm) or registered hook (numeric); distinct by "
                "full case text" + ("; plus every depth-4 sequence over a 13-op alphabet on two hooks" if exhaustive else ""),
        "op_distribution": dict(Counter(o[0] for c in sm for o in c["ops"])),
        "stream_distribution": dict(Counter(c.get("stream", c["kind"]) for c in cases)),
        "error_distribution": dict(Counter(str(t[1]) for c, ri in zip(cases, impl) if c["kind"] == "sm"
                                           for t in ri["trace"] if t[1])),
        "deleted_hooks_destroyed_by": dict(refc),
        "finding_candidates": [{"signature": CANDIDATE_SIG, "cases": len(candidates),
                                "example": candidates[0] if candidates else None}],
        "samples": [sm[0], next(c for c in cases if c["kind"] not in ("sm", "nseq")),
                    next(c for c in cases if c["kind"] == "nseq")],
        "nseq_target_distribution": dict(Counter(f"dt{c['dtype']}/{c['storage']}/{len(c['path'])}" for c in cases
                                                 if c["kind"] == "nseq")),
        "mismatches": mismatches, "oracle_failures": oracle_fail,
        "traces_validated_against_impl": len(cases) - len(mismatches),
    }


def failing(case):
    ri = F.run_impl(IMPL, {"cases": [case]})[0]
    return {"sm": oracle_sm, "nseq": oracle_nseq}.get(case["kind"], oracle_num)(case, ri)


def minimise(case, rounds=40):
    """delta debugging on the operation list (constructions are never dropped: hook indices must stay put);
    all candidates of a round run in one subprocess"""
    if case["kind"] not in ("sm", "nseq"):
        return case, failing(case)[0]
    orc = oracle_sm if case["kind"] == "sm" else oracle_nseq
    d, sig = failing(case)
    if d is None:
        return case, None
    ops = case["ops"][: d["step"] + 1] if d["step"] is not None else list(case["ops"])
    chunk = max(1, len(ops) // 2)
    for _ in range(rounds):
        cands = []
        for a in range(0, len(ops) - 1, chunk):
            keep = ops[:a] + [o for o in ops[a:a + chunk] if o[0] == "new"] + ops[a + chunk:]
            if len(keep) < len(ops) and keep not in cands:
                cands.append(keep)
        better = None
        if cands:
            res = F.run_impl(IMPL, {"cases": [dict(case, ops=c) for c in cands]})
            for c, ri in zip(cands, res):
                dd, s2 = orc(dict(case, ops=c), ri)
                if dd is not None and s2 == sig:
                    better = c[: dd["step"] + 1] if dd["step"] is not None else c
                    break
        if better is not None:
            ops = better
            chunk = min(chunk, max(1, len(ops) // 2))
        elif chunk == 1:
            break
        else:
            chunk = max(1, chunk // 2)
    c = dict(case, ops=ops)
    return c, failing(c)[0]


def replay(case):
    d, sig = failing(case)
    if d is None:
        return True, "replay: the implementation satisfies the property on this case"
    return False, "replay: still failing: " + repr(d)[:1500] + " signature=" + json.dumps(sig)
