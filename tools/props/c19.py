"""C19 - spike encoders: case generator, Coq rendering, correspondence, direct oracle.

Correspondence: the real encoder (tools/impl/c19_impl.py) runs with a seeded torch.Generator; the draws it
consumed are replayed on a second identically seeded generator and handed to the Coq model
(coq/C19/Encoders.v, binary64 instance, vm_compute), whose spike tensor must equal the implementation's
bit for bit.  Bernoulli encoders: the model's probabilities are fed to torch.bernoulli with the same seed
and call pattern and the outcome must equal the implementation's.
Adversarial schedules: every 5th case stubs the sampling primitives on the implementation side (c19_impl.StubLayer,
inside the harness process only; fail closed when a real generator advances) with a schedule chosen by the generator
- uniform draws exactly 0 / the largest float below 1 / exactly p, exponential draws tiny / huge / making intervals
exact integers, Poisson samples 0 / 1 / steps / huge - on boundary configurations (frequency*refrac at and next to
1000, intensities exactly 0 and 1, probabilities exactly 0 and 1), feeds the SAME schedule to the Coq model (for the
Bernoulli encoders the model's [u < p] is then compared directly), and runs part of them in float32 (oracle only).
Direct oracle (independent of the Coq model): shape / number of slices / dtype, silence at zero intensity,
minimum gap and at-most-one-spike-per-refractory-window for the refractory Poisson encoder,
reproducibility from the same generator state, constructor validation; configuration reached through property
setters (random assignment sequences to dt, steps, frequency, refrac, compensated, generator - incl. generator = None,
None -> generator, generator -> other generator - of the three classes, optional constructor arguments omitted half the
time with the documented defaults hard-coded here; generator semantics: with None the output is a function of the global
RNG state (torch.manual_seed) and advancing earlier private generators changes nothing, with a private generator the
global RNG is neither read nor advanced,
every getter compared after every assignment with the configuration a user expects, then encode); every online encoder is consumed both
slice by slice and gathered-then-stacked (same seed) and the gathered slices must not share storage.
"""
from __future__ import annotations
import glob, json, math, os, random
from collections import Counter
from fractions import Fraction
import framework as F

ID = "C19"
GEN: list[str] = []
LEVEL = "proof"
TECHNIQUE = ("Coq proof about a model of the encoders' deterministic post-processing that takes the random draws as "
             "inputs (so every theorem is for all random schedules), tied to the code by differential correspondence "
             "with replayed sampler calls")
LEVEL_TEXT = ("Machine-checked proofs (Coq) that, for every list of sampled values, step count, step time, frequency and "
              "refractory period in the documented domain, the modelled encoders return exactly `steps` time-first rows of "
              "the input's size, never spike at zero intensity, keep consecutive spikes of an element at least "
              "floor(refrac/dt) steps apart (offline cumsum/scatter pipeline and online countdown), fire at most once per "
              "refractory window and at most nbins times, and are functions of the draws; the model is hand-transcribed "
              "from encoding.py / encoders/*.py and validated on every run against the real encoders (spike tensors equal "
              "bit for bit given the replayed draws).")
LEVEL_NOTE = ("Trusted: Coq kernel; the hand-written model coq/C19/Encoders.v (validated by correspondence only, bounded by "
              "generator coverage); torch samplers (exponential_ > 0, poisson integral and 0 at rate 0, bernoulli(p) = "
              "[u < p]), cumsum/scatter_/masked assignment modelled by their meaning; replay of sampler calls on an "
              "identically seeded generator. Real-number theorems use the stdlib real axioms. NOT proved: floating-point "
              "rounding (refrac/dt just below an integer), statistical properties (rates), generator-state reproducibility "
              "(oracle only), the tie of the setter state machine (Encoders.assign, theorems explicit_refrac_sticky, "
              "assign_accepted_spec, assign_tracks_dt ...) to the property setters is correspondence + oracle "
              "(oracle only), float32 (adversarial boundary configurations run in float32 are judged by the oracle only, and only "
              "those whose compensated scale evaluated in float32 as the code does is >= 0 are generated: a configuration "
              "whose validity margin is below float32 resolution can get a negative scale from rounding and then breaks "
              "the refractory gap - outside the modelled domain, not alarmed on), that "
              "online slices are distinct tensors (oracle only: both consumption modes + alias probe).")
EXPLANATION = ("Every encoder is modelled as a function of the sampled values (exponential / Poisson / uniform draws are inputs), so "
               "'for all generator seeds' becomes 'for all draw lists' and is proved by induction / order arguments in Coq: shape "
               "(steps rows, time first, input size), silence at zero intensity (period +inf -> index `steps`, cut off; masked "
               "out; probability 0), minimum gap floor(refrac/dt) and at-most-once-per-window for the refractory Poisson encoder "
               "offline (sorted cumulative times, floor(c + d) - floor(c) >= floor(d)) and online (countdown invariant), rate "
               "limit, exact spike-time characterisations (floor of partial sums; countdown waits), and a witness that the gap "
               "fails outside frequency*refrac < 1000, which the constructor accepts.  The model is run inside Coq on the draws replayed from the real encoders and must "
               "reproduce their spike tensors exactly; the direct oracle evaluates the property on the real outputs.")
TRUSTED = ["C19: the stub layer of the adversarial stream (tools/impl/c19_impl.StubLayer): its reading of torch.bernoulli(p) as "
           "[u < p] with u in [0,1), of poisson as 0 at rate 0, and its generator-state test for uncovered primitives",
           "C19: replay of the encoders' sampler calls on a second identically seeded torch.Generator (tools/impl/c19_impl.py) - if the "
           "implementation changes its sampling calls the correspondence breaks and the direct oracle takes over",
           "C19: torch samplers' ranges: exponential_ > 0, poisson >= 0 and integral (0 at rate 0), bernoulli(p) fires iff u < p for u in [0,1)"]
ASSUMES = ["torch.Tensor.exponential_ returns strictly positive samples; torch.poisson returns integral samples, 0 at rate 0",
           "inputs are nonnegative and finite; +0.0 only (a -0.0 intensity is reported separately by the oracle)"]
HEADER = ("From Coq Require Import List ZArith Bool Floats.\n"
          "From Inferno Require Import Base.Num Base.NumF C19.Encoders C19.EncodersExec.\n"
          "Import ListNotations.\nOpen Scope Z_scope.\n")
IMPL = os.path.join(F.VERIF, "tools", "impl", "c19_impl.py")
INCLUDE_NEGZERO = True     # stream of -0.0 intensities (oracle only; see report)

SHAPES = [[1], [2], [3], [4], [5], [1, 1], [1, 3], [2, 2], [2, 1, 2], [3, 1]]
DTS = [1.0, 1.0, 0.5, 0.25, 2.0, 0.1, 1.3]
XS = [0.0, 0.0, 1.0, 1.0, 0.5, 0.25, 0.1, 0.3, 0.73, 0.9]


def nel(shape):
    return int(math.prod(shape))


def exact_floor_ratio(a: float, b: float) -> int:
    return math.floor(Fraction(a) / Fraction(b))


def refrac_used(case):
    return case["dt"] if case["refrac"] is None else case["refrac"]


def kfloor(case) -> int:
    """floor(refrac / dt) of the float quotient the implementation computes"""
    return math.floor(refrac_used(case) / case["dt"])


def config_valid(case) -> bool:
    if case["kind"] in ("hpe", "hpa", "pie"):
        if not (case["steps"] > 0 and case["dt"] > 0 and case["freq"] >= 0):
            return False
        if case["kind"] == "hpe" and case["refrac"] is not None and case["refrac"] < 0:
            return False
    return True


def rates(case):
    f = case["freq"] if case["kind"] in ("hpe", "hpa", "pie") else 1.0
    return [f * v for v in (case["x"] if case["kind"] != "f_inhomog" else [])]


def in_domain(case) -> bool:
    """documented domain of the refractory encoder: when compensating, rate * refrac < 1000 (with a margin so
    that rounding cannot make the compensated scale negative)"""
    if case["kind"] not in ("hpe", "f_exp"):
        return True
    if not case["comp"]:
        return True
    if case.get("stream") == "adversarial":
        # boundary configurations: exactly the limit the validating setters enforce (no safety margin)
        return all(r * refrac_used(case) < 1000.0 for r in rates(case))
    return all(r * refrac_used(case) <= 995.0 for r in rates(case))


def gen_x(rng, n, force_edges=True):
    xs = [rng.choice(XS) if rng.random() < 0.75 else round(rng.random(), 3) for _ in range(n)]
    if force_edges and n >= 2 and rng.random() < 0.6:
        xs[rng.randrange(n)] = 0.0
        xs[rng.randrange(n)] = 1.0
    return xs


def gen_case(rng: random.Random, stream: str):
    for _ in range(200):
        kind = rng.choice(["hpe"] * 9 + ["pie"] * 4 + ["hpa"] * 2 + ["f_exp"] * 3 + ["f_pint", "f_bern", "f_inhomog"])
        online = rng.random() < 0.4 and kind != "f_inhomog"
        steps = rng.choice([1, 2, 3, 5, 8, 12, 16, 20, 24])
        dt = rng.choice(DTS)
        shape = rng.choice(SHAPES)
        n = nel(shape)
        refrac = None
        kmul = None
        if kind in ("hpe", "f_exp"):
            c = rng.random()
            if c < 0.25:
                refrac = None
            elif c < 0.85:
                kmul = rng.choice([1, 2, 2, 3, 3, 4, 5, 7])
                refrac = kmul * dt
            elif c < 0.93:
                refrac = rng.choice([1.5, 2.5, 0.5, 2.75]) * dt
            else:
                refrac = 0.0
        comp = rng.random() < 0.6
        ru = dt if refrac is None else refrac
        # frequencies: high enough for dense trains, inside the domain when compensating
        if kind in ("hpe", "f_exp") and comp and ru > 0:
            fmax = 990.0 / ru
            freq = rng.choice([fmax, 0.9 * fmax, 0.5 * fmax, 0.25 * fmax, min(fmax, 100.0)])
            freq = float(round(freq, 2)) if freq > 1 else freq
            if freq * ru > 995.0:
                freq = 0.9 * fmax
        else:
            freq = rng.choice([1000.0, 800.0, 400.0, 250.0, 100.0, 37.5, 2500.0]) / dt
        xs = gen_x(rng, n)
        case = {"kind": kind, "online": online, "steps": steps, "dt": dt, "freq": freq, "refrac": refrac,
                "comp": comp, "shape": shape, "x": xs, "seed": rng.randrange(1 << 30), "stream": stream}
        if kind.startswith("f_"):
            # functional encoders take frequencies directly
            case["freq"] = 1.0
            case["x"] = [freq * v for v in xs]
            if kind == "f_inhomog":
                case["x"] = [freq * v for _ in range(steps) for v in gen_x(rng, n, False)]
        if stream == "malformed":
            m = rng.choice(["steps0", "dt0", "dtneg", "freqneg", "refracneg", "outdomain", "outdomain"])
            if kind.startswith("f_") and m != "outdomain":
                continue
            if m == "steps0":
                case["steps"] = rng.choice([0, -3])
            elif m == "dt0":
                case["dt"] = 0.0
            elif m == "dtneg":
                case["dt"] = -1.0
            elif m == "freqneg":
                case["freq"] = -5.0
            elif m == "refracneg":
                if kind != "hpe":
                    continue
                case["refrac"] = -dt
            else:
                if kind not in ("hpe", "f_exp"):
                    continue
                case["comp"] = True
                rr = dt * rng.choice([2, 3])
                case["refrac"] = rr
                if kind == "hpe":
                    case["freq"] = rng.choice([1200.0, 2000.0, 5000.0]) / rr
                else:
                    case["x"] = [rng.choice([1200.0, 2000.0, 5000.0, 0.0, 300.0]) / rr for _ in range(n)]
                case["online"] = False
            case["malformed"] = m
        if stream == "negzero":
            if kind not in ("hpe", "f_exp") or n < 1:
                continue
            case["x"] = list(case["x"])
            case["x"][rng.randrange(n)] = -0.0
            if online:
                case["shape"] = [1]
                case["x"] = [-0.0]
        # optional arguments holding their DOCUMENTED default (refrac=None, compensate=True) are omitted half the time
        if kind in ("hpe", "f_exp") and stream == "valid":
            om = []
            if case["refrac"] is None and rng.random() < 0.5:
                om.append("refrac")
            if case["comp"] is True and rng.random() < 0.5:
                om.append("compensate")
            if om:
                case["omit"] = om
        # keep the float reading of refrac/dt and of nbins unambiguous (no rounding across an integer)
        if config_valid(case) and case["kind"] in ("hpe", "f_exp"):
            r = refrac_used(case) / case["dt"]
            if math.floor(r) != exact_floor_ratio(refrac_used(case), case["dt"]):
                continue
            m = max(r, 1)
            if math.floor(case["steps"] / m) != int(case["steps"] // m):
                continue
        return case
    raise RuntimeError("case generation failed")


# ------------------------------------------------------------------ configuration through setters
CFG_KEYS = ("steps", "dt", "freq", "refrac", "comp")
KIND_COQ = {"hpe": "KHpe", "hpa": "KHpa", "pie": "KPie"}


def expected_run(kind, ctor, assigns):
    """The configuration a user expects after a sequence of property assignments (independent of the
    implementation and of the Coq model): every attribute holds the value assigned last; refrac = None means
    'follow dt' and an explicitly assigned refrac stays explicit; an assignment the documentation rejects
    (non-positive dt / steps, negative frequency / refrac, frequency * refrac >= 1000 while compensating)
    raises ValueError and changes nothing.  Returns (final configuration, [(rejected, getters)])."""
    st = {k: ctor[k] for k in CFG_KEYS}
    st["gen"] = ctor.get("gen0", "ctor")     # None = the global RNG, a number = the private generator with that seed

    def refrac():
        return st["dt"] if st["refrac"] is None else st["refrac"]

    def getters():
        h = kind == "hpe"
        return [st["steps"], st["dt"], st["freq"], st["comp"] if h else None, refrac() if h else None,
                st["steps"] * st["dt"], st["gen"]]

    trace = []
    for attr, v in assigns:
        rej = False
        if attr == "dt":
            rej = not v > 0
            key = "dt"
        elif attr == "steps":
            rej = not v > 0
            key = "steps"
        elif attr == "frequency":
            rej = v < 0 or (kind == "hpe" and st["comp"] and not v * refrac() < 1000)
            key = "freq"
        elif attr == "refrac":
            r = st["dt"] if v is None else v
            rej = (v is not None and v < 0) or (st["comp"] and not r * st["freq"] < 1000)
            key = "refrac"
        elif attr == "compensated":
            rej = bool(v) and not st["freq"] * refrac() < 1000
            key = "comp"
        else:
            key = "gen"                      # generator: stores whatever is assigned, None included
        if not rej and key is not None:
            st[key] = v
        trace.append((rej, getters()))
    return st, trace


def finalize(case):
    """top-level configuration fields of a setter case := the expected final configuration"""
    st, _ = expected_run(case["kind"], case["ctor"], case["assign"])
    case["gen_final"] = st.pop("gen")
    case.update(st)
    return case


def eff_seed(c):
    if "gen0" in c:
        return c["gseed"] if c["gen_final"] is None else c["gen_final"]
    seed = c["seed"]
    for attr, v in c.get("assign", []):
        if attr == "generator":
            seed = v
    return seed


def unambiguous(case):
    if case["kind"] != "hpe":
        return True
    r = refrac_used(case) / case["dt"]
    if math.floor(r) != exact_floor_ratio(refrac_used(case), case["dt"]):
        return False
    m = max(r, 1)
    return math.floor(case["steps"] / m) == int(case["steps"] // m)


def gen_setter_case(rng):
    for _ in range(400):
        base = gen_case(rng, "valid")
        if base["kind"] not in ("hpe", "hpa", "pie"):
            continue
        kind = base["kind"]
        ctor = {k: base[k] for k in CFG_KEYS}
        if kind != "hpe":
            ctor["refrac"], ctor["comp"] = None, False
        elif rng.random() < 0.4:
            # start from a derived refractory period (follows dt until one is assigned)
            ctor["refrac"] = None
            if ctor["comp"] and ctor["dt"] * ctor["freq"] > 990.0:
                ctor["comp"] = False
        # the generator: None (global RNG; documented default) or a private one; optional constructor arguments
        # that hold their DOCUMENTED default (refrac=None, compensate=True, generator=None) are omitted half the time
        ctor["gen0"] = None if rng.random() < 0.4 else rng.randrange(1 << 30)
        omit = []
        if ctor["gen0"] is None and rng.random() < 0.5:
            omit.append("generator")
        if kind == "hpe" and ctor["refrac"] is None and rng.random() < 0.5:
            omit.append("refrac")
        if kind == "hpe" and ctor["comp"] is True and rng.random() < 0.5:
            omit.append("compensate")
        st = dict(ctor)
        assigns = []

        def cur_refrac():
            return st["dt"] if st["refrac"] is None else st["refrac"]

        attrs = {"hpe": ["dt", "dt", "steps", "frequency", "refrac", "refrac", "refrac", "compensated", "generator", "generator"],
                 "hpa": ["dt", "steps", "frequency", "generator", "generator"],
                 "pie": ["dt", "steps", "frequency", "generator", "generator"]}[kind]
        for _i in range(rng.randint(1, 6)):
            a = rng.choice(attrs)
            bad = rng.random() < 0.12
            if a == "dt":
                v = rng.choice([0.0, -1.0]) if bad else rng.choice(DTS)
            elif a == "steps":
                v = rng.choice([0, -2]) if bad else rng.choice([1, 2, 3, 5, 8, 12, 16, 20, 24])
            elif a == "frequency":
                if kind == "hpe" and st["comp"] and cur_refrac() > 0:
                    fmax = 990.0 / cur_refrac()
                    v = rng.choice([-5.0, 2000.0 / cur_refrac()]) if bad else round(rng.choice([fmax, 0.7 * fmax, 0.3 * fmax]), 2)
                else:
                    v = -5.0 if bad else rng.choice([1000.0, 800.0, 400.0, 250.0, 100.0]) / st["dt"]
            elif a == "refrac":
                if not bad and rng.random() < 0.3:
                    v = None                 # back to 'follow dt'
                elif bad and st["refrac"] is not None:
                    v = -st["dt"]            # rejected (only tried while refrac is explicit, see report)
                elif bad and st["comp"] and st["freq"] > 0:
                    v = 3000.0 / st["freq"]  # rejected: frequency * refrac >= 1000 while compensating
                else:
                    v = rng.choice([1, 2, 3, 3, 4, 5]) * st["dt"]
                    if st["comp"] and v * st["freq"] > 990.0:
                        v = st["dt"] * 1.0 if st["dt"] * st["freq"] <= 990.0 else None
                        if v is None:
                            continue
            elif a == "compensated":
                v = rng.random() < 0.5
            else:
                v = None if rng.random() < 0.4 else rng.randrange(1 << 30)
            # keep every accept / reject decision away from the 1000 boundary
            probe = None
            if a == "frequency" and kind == "hpe":
                probe = v * cur_refrac()
            elif a == "refrac":
                probe = (st["dt"] if v is None else v) * st["freq"]
            elif a == "compensated":
                probe = st["freq"] * cur_refrac()
            if probe is not None and abs(probe - 1000.0) < 2.0:
                continue
            assigns.append([a, v])
            st, _ = expected_run(kind, ctor, assigns)
            st.pop("gen")
        if not assigns:
            continue
        case = dict(base, ctor=ctor, assign=assigns, stream="setters", gen0=ctor["gen0"], omit=omit,
                    gseed=rng.randrange(1 << 30))
        finalize(case)
        if not (config_valid(case) and in_domain(case) and unambiguous(case)):
            continue
        return case
    raise RuntimeError("setter case generation failed")


# ------------------------------------------------------------------ adversarial schedules and boundary configurations
STUBBED = ["Tensor.exponential_", "torch.poisson", "torch.bernoulli", "Tensor.bernoulli_", "torch.rand",
           "torch.rand_like", "Tensor.uniform_"]
BELOW1 = math.nextafter(1.0, 0.0)


def f32(x: float) -> float:
    """round to binary32 (for + - * / a binary64 operation followed by this rounding is the float32 operation)"""
    import struct
    return struct.unpack("f", struct.pack("f", x))[0]


def scale_f32(case, j):
    """compensated scale of element j evaluated in float32 exactly as the code does:
    (1 / inputs) * (1000.0 / step_time) - refrac / step_time, inputs = frequency * x (class) or x (functional)"""
    x = f32(case["x"][j])
    inp = f32(f32(case["freq"]) * x) if case["kind"] == "hpe" else x
    if inp == 0:
        return math.inf
    res = f32(f32(1.0 / inp) * f32(1000.0 / case["dt"]))
    if case["comp"]:
        res = f32(res - f32(refrac_used(case) / case["dt"]))
    return res


def gen_adversarial_case(rng, i):
    for _ in range(200):
        c = gen_adversarial_case1(rng, i)
        # float32 is not modelled: a configuration that is valid only in exact arithmetic (validity margin below
        # float32 resolution) may get a NEGATIVE compensated scale from rounding; such cases are not generated -
        # the float32 boundary cases are those whose scale, evaluated in float32 as the code does, is >= 0
        if c.get("dtype") == "f32" and any(scale_f32(c, j) < 0 for j in range(len(c["x"]))):
            continue
        return c
    raise RuntimeError("adversarial case generation failed")


def gen_adversarial_case1(rng, i):
    """the random schedule is chosen by the generator (stubbed sampler, see tools/impl/c19_impl.StubLayer) and the
    configuration sits on the boundaries: frequency * refrac at / next to the validity limit, intensities exactly 0
    and 1, probabilities exactly 0 / 1; uniform draws exactly 0, the largest float below 1, exactly p; exponential
    draws that are tiny, huge, or make an interval an exact integer; Poisson samples 0, 1, steps, huge."""
    fam = rng.choice(["exp"] * 5 + ["bern"] * 3 + ["pint"] * 2)
    steps = rng.choice([1, 2, 3, 5, 8, 12, 16])
    dt = rng.choice([1.0, 1.0, 0.5, 2.0])
    shape = rng.choice([[1], [2], [3], [4], [1, 3], [2, 2]])
    n = nel(shape)
    online = rng.random() < 0.5
    case = {"online": online, "steps": steps, "dt": dt, "refrac": None, "comp": False, "shape": shape,
            "seed": rng.randrange(1 << 30), "stream": "adversarial"}
    if fam == "exp":
        f32 = rng.random() < 0.3
        kmul = rng.choice([1, 2, 2, 3, 4, 5])
        refrac = kmul * dt
        lim = 1000.0 / refrac
        freq = rng.choice([lim, math.nextafter(lim, 0.0), lim - 1e-5, lim - 1e-5, lim / 2, lim / 4, 1000.0 / (dt * (kmul + 1)),
                           1000.0 / (dt * (kmul + 2))])
        xs = [rng.choice([1.0, 1.0, 0.0, 0.5, 0.25]) for _ in range(n)]
        if rng.random() < 0.7:
            xs[rng.randrange(n)] = 1.0
        functional = rng.random() < 0.25
        case.update(kind="f_exp" if functional else "hpe", refrac=refrac if (kmul > 1 or rng.random() < 0.5) else None,
                    comp=rng.random() < 0.8, freq=1.0 if functional else freq,
                    x=[freq * v for v in xs] if functional else xs)
        tiny = 1e-30 if f32 else 5e-324
        pool = [tiny, tiny, 2.0 ** -60, 0.25, 0.5, 1.0, 2.0, 3.0, 1e30 if f32 else 1e300]
        # draws that make e * scale an exact small integer for the brightest element
        inp = freq
        scale = (1 / inp) * (1000.0 / dt) - (refrac / dt if case["comp"] else 0.0)
        if scale > 0:
            pool += [1.0 / scale, 2.0 / scale]
        mode = rng.random()
        if mode < 0.3:
            sched = [tiny]
        elif mode < 0.5:
            sched = [rng.choice(pool)]
        else:
            sched = [rng.choice(pool) for _ in range(rng.randint(2, 9))]
        case["stub"] = {"exp": sched}
        if f32:
            case["dtype"] = "f32"
    elif fam == "pint":
        functional = rng.random() < 0.3
        freq = rng.choice([1000.0, 500.0, 100.0]) / dt
        xs = [rng.choice([1.0, 0.0, 0.5]) for _ in range(n)]
        case.update(kind="f_pint" if functional else "pie", freq=1.0 if functional else freq,
                    x=[freq * v for v in xs] if functional else xs)
        pool = [0, 0, 1, 1, 2, 3, steps, steps + 1, steps + 2, 10 ** 6]
        case["stub"] = {"pois": [float(rng.choice(pool)) for _ in range(rng.randint(1, 9))]}
    else:
        kind = rng.choice(["hpa", "hpa", "f_bern", "f_inhomog"])
        if kind == "f_inhomog":
            online = case["online"] = False
        # probabilities exactly 0, exactly 1 (rate * dt = 1000), above 1, and ordinary ones
        fmax = 1000.0 / dt
        rts = [rng.choice([0.0, fmax, fmax, 2 * fmax, fmax / 2, fmax / 4, math.nextafter(fmax, 0.0), 0.1 * fmax])
               for _ in range(n * (steps if kind == "f_inhomog" else 1))]
        if kind == "hpa":
            case.update(kind="hpa", freq=fmax, x=[v / fmax for v in rts])
            rts = [fmax * v for v in case["x"]]
        else:
            case.update(kind=kind, freq=1.0, x=rts)
        ps = [min((v / 1000.0) * dt, 1.0) for v in rts]
        us = []
        for t in range(steps):
            for j in range(n):
                p = ps[t * n + j] if kind == "f_inhomog" else ps[j]
                pu = min(p, BELOW1)          # uniform draws live in [0, 1)
                us.append(rng.choice([0.0, 0.0, BELOW1, pu, pu, math.nextafter(p, 0.0) if p > 0 else 0.0,
                                      math.nextafter(p, 2.0) if p < 1 else BELOW1, 0.5]))
        case["stub"] = {"unif": us}
    return case


def gen_cases(rng, n):
    out = []
    for i in range(n):
        if i % 5 == 4:
            out.append(gen_adversarial_case(rng, i))
            continue
        if i % 5 == 2:
            out.append(gen_setter_case(rng))
            continue
        if i % 8 == 7:
            s = "malformed"
        elif INCLUDE_NEGZERO and i % 40 == 13:
            s = "negzero"
        else:
            s = "valid"
        out.append(gen_case(rng, s))
    return out


def exhaustive_cases():
    """small-scope sweep (thorough tier): every refrac multiple x step count x compensation for a dense train"""
    out = []
    seed = 1
    for steps in (1, 2, 3, 4, 6, 9):
        for k in (None, 1, 2, 3, 4):
            for comp in (False, True):
                for online in (False, True):
                    for dt in (1.0, 0.5):
                        ru = dt if k is None else k * dt
                        freq = 900.0 / ru
                        seed += 1
                        out.append({"kind": "hpe", "online": online, "steps": steps, "dt": dt, "freq": freq,
                                    "refrac": None if k is None else k * dt, "comp": comp,
                                    "shape": [1] if online else [3], "x": [1.0] if online else [1.0, 0.0, 0.6],
                                    "seed": seed, "stream": "valid"})
    return out


# ------------------------------------------------------------------ rendering to Coq
def q_f(x):
    return F.coq_float(float(x))


def q_fl(xs):
    return F.coq_list([q_f(v) for v in xs])


def q_fll(rows):
    return F.coq_list([q_fl(r) for r in rows])


def q_zl(xs):
    return F.coq_list([F.coq_Z(int(v)) for v in xs])


def q_zll(rows):
    return F.coq_list([q_zl(r) for r in rows])


def q_shape(sh):
    return F.coq_list([f"{int(s)}%nat" for s in sh])


def q_cfg(c):
    refrac = "None" if c["refrac"] is None else f"(Some {q_f(c['refrac'])})"
    return f"(cfg {F.coq_Z(c['steps'])} {q_f(c['dt'])} {q_f(c['freq'])} {refrac} {F.coq_bool(c['comp'])})"


def q_assign(a, v):
    if a == "dt":
        return f"ADt FN {q_f(v)}"
    if a == "steps":
        return f"ASteps FN {F.coq_Z(v)}"
    if a == "frequency":
        return f"AFreq FN {q_f(v)}"
    if a == "refrac":
        return "ARefrac FN None" if v is None else f"ARefrac FN (Some {q_f(v)})"
    if a == "compensated":
        return f"AComp FN {F.coq_bool(v)}"
    raise AssertionError(a)


def q_case(c, r):
    """Coq term for the model run of case c with the draws replayed by the implementation side (r)"""
    if "assign" in c:
        # the model constructs with the constructor's arguments, applies the assignments (as the setters are
        # written) and runs forward on the state it reached
        inner = q_case_plain(c, r, cfg="c")
        if "gen0" in c:
            def qg(v):
                return "None" if v is None else f"(Some {F.coq_Z(v)})"
            prog = F.coq_list([f"GGen FN {qg(v)}" if a == "generator" else f"GA FN ({q_assign(a, v)})"
                               for a, v in c["assign"]])
            return f"run_gseq {KIND_COQ[c['kind']]} {q_cfg(c['ctor'])} {qg(c['gen0'])} {prog} (fun c => {inner})"
        prog = F.coq_list([q_assign(a, v) for a, v in c["assign"] if a != "generator"])
        return f"run_seq {KIND_COQ[c['kind']]} {q_cfg(c['ctor'])} {prog} (fun c => {inner})"
    return q_case_plain(c, r)


def q_case_plain(c, r, cfg=None):
    cfg = cfg or q_cfg(c)
    k = c["kind"]
    xs = q_fl(c["x"])
    if k == "hpe":
        if c["online"]:
            return f"run_hpe_online {cfg} {xs} {q_fl(r.get('draws0', []))} {q_fll(r.get('draws_steps', []))}"
        return f"run_hpe_offline {cfg} {xs} {q_fll(r.get('draws', []))}"
    if k == "pie":
        if c["online"]:
            return f"run_pie_online {cfg} {xs} {q_zl(r.get('draws0', []))} {q_zll(r.get('draws_steps', []))}"
        return f"run_pie_offline {cfg} {xs} {q_zll(r.get('draws', []))}"
    if k == "hpa":
        if c.get("stub"):
            return f"run_hpa_spikes {cfg} {xs} {q_fll(r.get('unif_rows', []))}"
        return f"run_hpa {cfg} {xs}"
    refrac = "None" if c["refrac"] is None else f"(Some {q_f(c['refrac'])})"
    st = f"{int(c['steps'])}%nat"
    if k == "f_exp":
        if c["online"]:
            return (f"run_f_exp_online {st} {q_f(c['dt'])} {refrac} {F.coq_bool(c['comp'])} {xs} "
                    f"{q_fl(r.get('draws0', []))} {q_fll(r.get('draws_steps', []))}")
        return (f"run_f_exp_offline {st} {q_f(c['dt'])} {refrac} {F.coq_bool(c['comp'])} {xs} "
                f"{q_fll(r.get('draws', []))}")
    if k == "f_pint":
        if c["online"]:
            return (f"ser_matrix (pi_online FN {st} {xs} {q_zl(r.get('draws0', []))} "
                    f"{q_zll(r.get('draws_steps', []))})")
        return f"ser_result ser_matrix (pi_offline FN {st} {xs} {q_zll(r.get('draws', []))})"
    if k == "f_bern" and c.get("stub"):
        return f"run_f_bern_spikes {st} {q_f(c['dt'])} {xs} {q_fll(r.get('unif_rows', []))}"
    if k == "f_inhomog" and c.get("stub"):
        n = nel(c["shape"])
        rows = [c["x"][i * n:(i + 1) * n] for i in range(c["steps"])]
        return f"run_f_inhomog_spikes {q_f(c['dt'])} {q_fll(rows)} {q_fll(r.get('unif_rows', []))}"
    if k == "f_bern":
        return f"ser_list ser_float (map (bern_prob FN {q_f(c['dt'])}) {xs})"
    if k == "f_inhomog":
        n = nel(c["shape"])
        rows = [c["x"][i * n:(i + 1) * n] for i in range(c["steps"])]
        return f"run_f_inhomog {q_f(c['dt'])} {q_fll(rows)}"
    raise AssertionError(k)


# ------------------------------------------------------------------ correspondence
def is_bern(c):
    return c["kind"] in ("hpa", "f_bern", "f_inhomog")


def dec_estate(t, kind):
    steps, dt, freq, comp, refrac = t
    h = kind == "hpe"
    return [steps, F.dec_float(dt), F.dec_float(freq), bool(comp) if h else None, F.dec_float(refrac) if h else None]


def fwd_tree(c, m):
    """the forward part of a model result (setter cases wrap it)"""
    if "assign" in c and not isinstance(m, Exception):
        return m[3] if m[0] == 0 else m
    return m


def compare(c, r, m, bern_out):
    """returns None (agree) or a dict describing the disagreement"""
    if "assign" in c:
        if m[0] != 0:
            return {"model": "constructor Err %d" % m[1], "impl": r["status"], "msg": r["msg"]}
        if "setter_trace" not in r:
            return {"model": "constructed", "impl": "raised before the assignments", "msg": r["msg"]}
        kind = c["kind"]
        if dec_estate(m[1], kind) != r["getters0"][:5]:
            return {"what": "getters after construction differ", "model": dec_estate(m[1], kind), "impl": r["getters0"][:5]}
        withgen = "gen0" in c
        it = [(a, t) for (a, t) in zip(c["assign"], r["setter_trace"]) if withgen or a[0] != "generator"]
        if len(it) != len(m[2]):
            return {"what": "number of assignments applied differs", "model": len(m[2]), "impl": len(it)}
        for i, ((a, t), ms) in enumerate(zip(it, m[2])):
            merr = ms[0][0] if ms[0] else None
            mgen = (ms[2][0] if ms[2] else None) if withgen else None
            if merr != t[0] or dec_estate(ms[1], kind) != t[1][:5] or (withgen and mgen != t[1][6]):
                return {"what": "setter behaves differently from the model", "assignment": a, "index": i,
                        "model": {"raised": merr, "getters": dec_estate(ms[1], kind), "generator": mgen},
                        "impl": {"raised": t[0], "getters": t[1][:5], "generator": t[1][6] if len(t[1]) > 6 else None,
                                 "info": t[2]}}
        m = m[3]
    k = c["kind"]
    if c.get("stub"):
        if r.get("rng_consumed"):
            return {"what": "the encoder drew from a sampling primitive the stub layer does not cover (a real generator "
                            "advanced); covered: " + ", ".join(STUBBED), "primitives_seen": r.get("prims")}
        if is_bern(c):
            # the model ran on the same uniform draws: its spike tensor must be the implementation's
            if k == "hpa":
                if m[0] == 1:
                    ok = r["status"] == "raised" and r["exc"] == m[1]
                    return None if ok else {"model": "Err %d" % m[1], "impl": r["status"], "msg": r["msg"]}
                m = m[1]
            if r["status"] != "ok":
                return {"model": "ok", "impl": "raised", "msg": r["msg"]}
            return None if m == r["out"] else {"what": "spike tensors differ on the same uniform draws",
                                                "model": m, "impl": r["out"], "uniform_draws": r.get("unif_rows")}
    if is_bern(c):
        if k == "hpa":
            if m[0] == 1:
                return None if (r["status"] == "raised" and r["exc"] == m[1]) else {"model": "Err %d" % m[1], "impl": r["status"], "msg": r["msg"]}
            if r["status"] != "ok":
                return {"model": "ok", "impl": "raised", "msg": r["msg"]}
        elif r["status"] != "ok":
            return {"model": "ok", "impl": "raised", "msg": r["msg"]}
        if bern_out != r["out"]:
            return {"what": "torch.bernoulli on the model's probabilities differs from the implementation's output",
                    "model_replay": bern_out, "impl": r["out"]}
        return None
    online = c["online"]
    if not online:
        if m[0] == 1:
            ok = r["status"] == "raised" and r["exc"] == m[1]
            return None if ok else {"model": "Err %d" % m[1], "impl": r["status"], "impl_exc": r["exc"], "msg": r["msg"]}
        if r["status"] != "ok":
            return {"model": "ok", "impl": "raised", "msg": r["msg"]}
        return None if m[1] == r["out"] else {"what": "spike tensors differ", "model": m[1], "impl": r["out"]}
    # online: the model returns the list of yielded slices (class entry points wrap it in Ok / Err)
    if k in ("hpe", "pie"):
        if m[0] == 1:
            ok = r["status"] == "raised" and r["exc"] == m[1]
            return None if ok else {"model": "Err %d" % m[1], "impl": r["status"], "msg": r["msg"]}
        m = m[1]
    if r["status"] != "ok":
        return {"model": "ok", "impl": "raised", "msg": r["msg"], "slices_before_raising": r["out"]}
    return None if m == r["out"] else {"what": "slices differ", "model": m, "impl": r["out"]}


# ------------------------------------------------------------------ direct oracle (property statement on the implementation)
def has_negzero(c):
    return any(v == 0 and math.copysign(1.0, v) < 0 for v in c["x"])


def oracle(c, r):
    """list of failures {detail, signature}"""
    k = c["kind"]
    sig0 = {"enc": k, "online": bool(c["online"])}
    fails = []

    def fail(kind, detail):
        s = dict(sig0, kind=kind)
        if has_negzero(c):
            s["kind"] = "negative_zero_intensity"
            s["symptom"] = kind
        fails.append({"detail": detail, "signature": s})

    if "assign" in c:
        # every getter after every assignment against the configuration a user expects
        _, exp = expected_run(k, c["ctor"], c["assign"])
        tr = r.get("setter_trace")
        if tr is None:
            fail("raised", {"msg": r["msg"], "stage": r.get("stage")})
            return fails
        for i, ((attr, val), (rej, eg), t) in enumerate(zip(c["assign"], exp, tr)):
            err, got, info = t
            ok = (err == 2) if rej else (err is None)
            if attr == "generator":
                ok = ok and info is True
            if "gen0" not in c:
                got, eg = got[:6], eg[:6]
            if not ok or got != eg:
                fail("setter_config",
                     {"what": "configuration after a property assignment is not the one assigned",
                      "constructor": c["ctor"], "assignments": c["assign"][:i + 1], "assignment_index": i,
                      "expected": {"raises_ValueError": rej, "getters [steps, dt, frequency, compensated, refrac, duration, generator]": eg},
                      "got": {"raised": err, "getters": got, "info": info}})
                return fails
        if "gen0" in c and c["gen_final"] is not None and r.get("global_rng_consumed"):
            fail("global_rng_consumed",
                 {"what": "an encoder with a private generator advanced the global RNG", "generator": c["gen_final"]})
            return fails
    if not config_valid(c):
        if not (r["status"] == "raised" and r["exc"] == 2):
            fail("invalid_config_accepted", {"expected": "ValueError", "got": r["status"], "msg": r["msg"]})
        return fails
    n = nel(c["shape"])
    steps = c["steps"]
    dom = in_domain(c)
    if r["status"] == "raised":
        if not dom and r["exc"] == 1 and not c["online"]:
            return fails          # documented: outside the domain the output is nonsensical (negative index)
        fail("raised", {"msg": r["msg"], "yielded": r["nslices"], "steps": steps})
        return fails
    # 1. shape / number of slices / dtype
    if r["nslices"] != steps or not r["shape_ok"] or not r["dtype_ok"] or any(len(row) != n for row in r["out"]):
        fail("shape", {"nslices": r["nslices"], "steps": steps, "shape_ok": r["shape_ok"], "dtype_ok": r["dtype_ok"],
                       "out_shape": r.get("out_shape")})
        return fails
    out = r["out"]
    # 2. silence at zero intensity
    if k == "f_inhomog":
        bad = [(t, j) for t in range(steps) for j in range(n) if c["x"][t * n + j] == 0 and out[t][j]]
    else:
        bad = [(t, j) for j in range(n) if c["x"][j] == 0 for t in range(steps) if out[t][j]]
    if bad:
        fail("zero_not_silent", {"spikes_at_zero_intensity (step, element)": bad[:5]})
    # 2b. saturation: a Bernoulli element whose probability is clamped to 1 fires at every step
    if is_bern(c):
        dtv = c["dt"]
        if k == "f_inhomog":
            sat = [(t, j) for t in range(steps) for j in range(n)
                   if (c["x"][t * n + j] / 1000.0) * dtv >= 1.0 and not out[t][j]]
        else:
            rs = rates(c)
            sat = [(t, j) for j in range(n) if (rs[j] / 1000.0) * dtv >= 1.0 for t in range(steps) if not out[t][j]]
        if sat:
            fail("saturated_not_firing", {"silent at probability 1 (step, element)": sat[:5]})
    # 3. refractory gap and at most one spike per refractory window (refractory encoder, inside its domain)
    if k in ("hpe", "f_exp") and dom:
        g = max(1, kfloor(c))
        for j in range(n):
            ts = [t for t in range(steps) if out[t][j]]
            gaps = [b - a for a, b in zip(ts, ts[1:])]
            if gaps and min(gaps) < g:
                fail("min_gap", {"element": j, "spike_steps": ts, "min_gap": min(gaps), "refrac_steps": g,
                                 "refrac": refrac_used(c), "dt": c["dt"]})
                break
            w = [sum(out[t][j] for t in range(a, min(a + g, steps))) for a in range(steps)]
            if w and max(w) > 1:
                fail("once_per_refrac", {"element": j, "window": g, "max_spikes_in_window": max(w)})
                break
        # rate limit: never more than ceil(steps / g) spikes
        for j in range(n):
            cnt = sum(out[t][j] for t in range(steps))
            if cnt > -(-steps // g):
                fail("rate_limit", {"element": j, "spikes": cnt, "limit": -(-steps // g)})
                break
    # 4. online: every yielded slice is a tensor of its own - gathering the slices with list(...) and stacking
    #    them afterwards must give the same train as copying each slice out when it is yielded
    g = r.get("gather") or {}
    al = g.get("alias") or {}
    if c["online"] and g.get("status") == "ok":
        if al.get("shared_data_ptr") or al.get("mutation_leaks"):
            gout = g.get("out") or []
            rows_differ = [t for t in range(min(len(out), len(gout))) if out[t] != gout[t]]
            fail("online_slices_aliased",
                 {"what": "slices yielded by the online encoder share storage: a train gathered with list(...) and "
                          "stacked is not the train read slice by slice",
                  "alias_probe": al, "steps_that_differ": rows_differ[:8],
                  "slice_by_slice": out[:6], "gathered_then_stacked": gout[:6]})
            return fails
    # 5. reproducible from the same generator state (second run, same seed; online: other consumption mode)
    if not r["repro"]:
        fail("not_reproducible", {"what": "two runs from the same generator seed differ",
                                  "second_run": {k2: g.get(k2) for k2 in ("status", "exc", "msg", "nslices")}})
    return fails


# ------------------------------------------------------------------ driver
def load_corpus():
    out = []
    for p in sorted(glob.glob(os.path.join(F.VERIF, "corpus", ID, "*.json"))):
        c = json.load(open(p))
        if c.get("stream") == "negzero" and not INCLUDE_NEGZERO:
            continue
        out.append(c)
    return out


PROBES: dict = {}


def evaluate(cases):
    """runs implementation, model, Bernoulli replay; returns per-case (impl, model, bern_out)"""
    impl = F.run_impl(IMPL, {"cases": cases, "probes": True})
    PROBES.clear()
    PROBES.update(impl.pop()["probes"])
    model = F.eval_terms(ID, HEADER, [q_case(c, r) for c, r in zip(cases, impl)], shard=40)
    bcases, bidx = [], []
    for i, (c, m) in enumerate(zip(cases, model)):
        if not is_bern(c) or isinstance(m, Exception) or not config_valid(c) or c.get("stub"):
            continue
        m = fwd_tree(c, m)
        if c["kind"] == "hpa":
            if m[0] != 0:
                continue
            probs = [F.dec_float(t) for t in m[1]]
        elif c["kind"] == "f_bern":
            probs = [F.dec_float(t) for t in m]
        else:
            probs = [F.dec_float(t) for row in m for t in row]
        bcases.append({"kind": c["kind"], "online": c["online"], "steps": c["steps"], "shape": c["shape"],
                       "seed": eff_seed(c), "probs": probs})
        bidx.append(i)
    bout = [None] * len(cases)
    if bcases:
        for i, o in zip(bidx, F.run_impl(IMPL, {"mode": "bern", "cases": bcases})):
            bout[i] = o
    return impl, model, bout


def run(ctx):
    rng = random.Random(ctx["seed"])
    n = 700 if ctx["tier"] == "quick" else 8000
    cases = load_corpus() + gen_cases(rng, n)
    if ctx["tier"] == "thorough":
        cases += exhaustive_cases()
    impl, model, bout = evaluate(cases)
    mismatches, oracle_fail = [], []
    online_probed = 0
    spikes_total = 0
    gaps_checked = 0
    last_step = [0, 0]      # poisson_interval offline: active elements / of which fire at the last step
    for c, r, m, b in zip(cases, impl, model, bout):
        if c["kind"] in ("pie", "f_pint") and not c["online"] and r["status"] == "ok" and r["out"]:
            for j, rate in enumerate(rates(c)):
                if rate > 0:
                    last_step[0] += 1
                    last_step[1] += int(r["out"][-1][j])
        spikes_total += sum(sum(row) for row in r["out"])
        if c["kind"] in ("hpe", "f_exp") and r["status"] == "ok" and in_domain(c) and config_valid(c):
            for j in range(nel(c["shape"])):
                gaps_checked += max(0, sum(row[j] for row in r["out"]) - 1)
        if c["online"] and (r.get("gather") or {}).get("alias") is not None:
            online_probed += 1
        fs = oracle(c, r)
        for f in fs:
            oracle_fail.append({"case": c, "detail": f["detail"], "signature": f["signature"]})
        if c.get("dtype") == "f32":
            continue        # float32 is not modelled (binary64 instance only); judged by the oracle only
        if c.get("stream") == "negzero":
            continue        # -0.0 has no counterpart in the real-number model; judged by the oracle only
        if isinstance(m, Exception):
            mismatches.append({"case": c, "detail": str(m)})
            continue
        d = compare(c, r, m, b)
        if d is not None:
            mismatches.append({"case": c, "detail": d})

    # distinct kinds of failure first (the driver reports the first few)
    oracle_fail.sort(key=lambda f: 0 if f["detail"].get("steps_that_differ") else 1)   # stable: visible ones first
    seen, first, rest = set(), [], []
    for f in oracle_fail:
        kd = f["signature"]["kind"]
        (rest if kd in seen else first).append(f)
        seen.add(kd)
    oracle_fail = first + rest

    def nontrivial(c, r):
        return r["status"] == "raised" or sum(sum(row) for row in r["out"]) >= 2

    return {
        "evaluations": len(cases),
        "distinct_nontrivial": len({json.dumps(c, sort_keys=True) for c, r in zip(cases, impl) if nontrivial(c, r)}),
        "rule": "seeded random encoder configurations (7 encoder entry points: 3 classes x online/offline + 4 functional; "
                "steps 1..24, 7 step times, refrac None / 0 / k*dt (k<=7) / non-multiples, compensation on/off, 10 input "
                "shapes, intensities with forced exact 0 and 1, frequencies up to the edge of the documented domain; every "
                "8th case malformed (invalid constructor arguments, rate*refrac >= 1000), every 40th with a -0.0 intensity; "
                "every 5th case reaches its configuration through 1-6 random property assignments incl. rejected values, incl. "
                "`refrac = None` and the approx encoder's frequency setter, all getters compared after each assignment); "
                "online encoders consumed both slice-by-slice and gathered-then-stacked, gathered slices probed for shared "
                "storage; non-trivial = at least two spikes or an exception; distinct by full case text"
                + ("; plus a small-scope sweep of steps x refrac multiple x compensation x online" if ctx["tier"] == "thorough" else ""),
        "kind_distribution": dict(Counter(c["kind"] + ("/online" if c["online"] else "") for c in cases)),
        "stream_distribution": dict(Counter(c.get("stream", "corpus") for c in cases)),
        "impl_status": dict(Counter(r["status"] if r["status"] == "ok" else "raised:%s" % r["exc"] for r in impl)),
        "spikes_observed": spikes_total, "refractory_gaps_checked": gaps_checked,
        "online_cases_consumed_both_ways_and_alias_probed": online_probed,
        "adversarial_cases": sum(1 for c in cases if c.get("stub")),
        "adversarial_cases_float32_oracle_only": sum(1 for c in cases if c.get("dtype") == "f32"),
        "stubbed_primitives": STUBBED,
        "primitives_drawn_from": dict(Counter(p for r in impl for p in (r.get("prims") or []))),
        "cases_omitting_optional_arguments": dict(Counter(o for c in cases for o in c.get("omit", []))),
        "generator_final_source": dict(Counter(("global" if c["gen_final"] is None else "private")
                                               for c in cases if "gen0" in c)),
        "setter_assignments_checked": sum(len(c.get("assign", [])) for c in cases),
        "setter_assignment_kinds": dict(Counter(a[0] + ("=None" if a[1] is None else "") for c in cases
                                                for a in c.get("assign", []))),
        "side_observations": {
            "poisson_interval_offline_active_elements": last_step[0],
            "poisson_interval_offline_active_elements_firing_at_last_step": last_step[1],
            "note": "theorem pie_offline_last_step_always_fires: overflowing cumulative times are clamped onto the last kept "
                    "row, so every active element fires at the last step (not part of the C19 statement)",
            "encoder_class_probes": dict(PROBES)},
        "oracle_failure_kinds": dict(Counter(f["signature"]["kind"] for f in oracle_fail)),
        "samples": cases[:2],
        "mismatches": mismatches, "oracle_failures": oracle_fail,
        "traces_validated_against_impl": len(cases) - len(mismatches),
    }


def minimise(case):
    """shrink a failing case: fewer elements, fewer steps (keeps the kind of failure); one implementation
    subprocess per round"""
    r = F.run_impl(IMPL, {"cases": [case]})[0]
    fs = oracle(case, r)
    if not fs:
        return case, None
    kind = fs[0]["signature"]["kind"]
    best, detail = case, fs[0]
    visible = bool(fs[0]["detail"].get("steps_that_differ"))   # keep an observable difference while shrinking
    if case["kind"] == "f_inhomog":
        return best, detail["detail"]
    for _ in range(12):
        n = nel(best["shape"])
        cands = []
        if "assign" in best:
            for j in range(len(best["assign"])):
                cnd = dict(best, assign=best["assign"][:j] + best["assign"][j + 1:])
                if cnd["assign"]:
                    cands.append(finalize(cnd))
        if n > 1:
            for j in range(n):
                cands.append(dict(best, shape=[n - 1], x=best["x"][:j] + best["x"][j + 1:]))
        for s in (1, 2, best["steps"] // 2, best["steps"] - 1):
            if 1 <= s < best["steps"] and "assign" not in best:
                cands.append(dict(best, steps=s))
        if not cands:
            break
        rs = F.run_impl(IMPL, {"cases": cands})
        nxt = None
        for cnd, rr in zip(cands, rs):
            f = [f for f in oracle(cnd, rr) if f["signature"]["kind"] == kind
                 and (not visible or f["detail"].get("steps_that_differ"))]
            if f:
                nxt = (cnd, f[0])
                break
        if nxt is None:
            break
        best, detail = nxt
    return best, detail["detail"]


def replay(case):
    r = F.run_impl(IMPL, {"cases": [case]})[0]
    fs = oracle(case, r)
    if not fs:
        return True, "replay: the implementation satisfies the encoder property on this case"
    return False, "replay: still failing: " + repr([(f["signature"], f["detail"]) for f in fs])[:1500]
